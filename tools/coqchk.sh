#!/bin/bash
# tools/coqchk.sh : re-check every compiled property module (and all they depend on) with Coq's independent checker and print
# the axioms / unchecked features of the whole development (about 1.5 minutes).  Expected: "Axioms: <none>" and <none> everywhere.
cd /verif && make coq >/dev/null 2>&1
mods=$(for i in 01 02 03 04 05 06 07 08 09 10 11 12 13 14 15 16 17 18 19 20; do echo -n "V.Props.C$i "; done)
timeout 3600 coqchk -silent -o -Q coq V $mods 2>&1 | sed -n '/CONTEXT SUMMARY/,$p'
