#!/bin/bash
# tools/seedtest.sh <seed dir name> [property id] : apply a seeded change to /repo, run the quick check, undo it
S="$1"; P="${2:-${S%%-*}}"
cd /verif || exit 2
git -C /repo diff --quiet || { echo "/repo not clean"; exit 2; }
git -C /repo apply "/verif/seeded/$S/patch.diff" || { echo "patch does not apply"; exit 2; }
./check "$P" --tier quick; rc=$?
git -C /repo checkout -- . 
echo "seed $S on $P: rc=$rc"
