#!/bin/bash
# tools/seedtest.sh <seed dir name> [property id ...] : run the quick check(s) against /repo's HEAD + a seeded change.
# The change is applied in a throw-away worktree (VERIF_REPO) and evidence/replays go to a throw-away
# directory (VERIF_OUT), so /repo, /verif/evidence and /verif/replays are never touched.
S="$1"; shift; PROPS="${*:-${S%%-*}}"
cd /verif || exit 2
W=$(mktemp -d /tmp/seedwt.XXXXXX); O=$(mktemp -d /tmp/seedout.XXXXXX)
git -C /repo worktree add --detach "$W/r" HEAD >/dev/null 2>&1 || { echo "worktree failed"; exit 2; }
git -C "$W/r" apply "/verif/seeded/$S/patch.diff" || { echo "patch does not apply"; git -C /repo worktree remove --force "$W/r"; rm -rf "$W" "$O"; exit 2; }
for P in $PROPS; do
  VERIF_REPO="$W/r" VERIF_OUT="$O" ./check "$P" --tier quick 2>&1 | grep -a "VIOLATION\|KNOWN-FINDING\|SETUP\|Traceback" | cut -c1-400; rc=${PIPESTATUS[0]}
  echo "seed $S on $P: rc=$rc"
  if [ -n "$SEED_KEEP" ]; then mkdir -p /tmp/seedkeep; cp -r "$O/replays" "/tmp/seedkeep/$S-$P" 2>/dev/null; fi
done
git -C /repo worktree remove --force "$W/r"; rm -rf "$W" "$O"
