#!/bin/bash
# tools/seedall.sh : run every seeded change against the quick check of its own property (throw-away worktrees) and write seeded/RESULTS.txt
cd /verif || exit 2
out=seeded/RESULTS.txt; : > $out.tmp
for d in seeded/*/; do
  s=$(basename $d); p=${s%%-*}
  [ -f "$d/patch.diff" ] || continue
  r=$(tools/seedtest.sh $s 2>&1 | grep -a "seed $s on\|VIOLATION\|patch does not apply" | tr '\n' ' ' | cut -c1-220)
  echo "$s: $r" >> $out.tmp
done
mv $out.tmp $out; cat $out
