#!/bin/bash
# tools/seedall.sh [jobs] : run every seeded change against the quick check of its own property (throw-away worktrees,
# <jobs> at a time, default 5) and write seeded/RESULTS.txt
cd /verif || exit 2
J=${1:-5}
out=seeded/RESULTS.txt; tmp=$(mktemp -d /tmp/seedall.XXXXXX)
one() {
  s=$1
  r=$(tools/seedtest.sh $s 2>&1 | grep -a "seed $s on\|VIOLATION\|patch does not apply" | tr '\n' ' ' | cut -c1-220)
  echo "$s: $r" > "$2/$s.txt"
}
export -f one
ls -d seeded/*/ | while read d; do [ -f "$d/patch.diff" ] && basename $d; done | xargs -P $J -I{} bash -c "one {} $tmp"
cat $tmp/*.txt | sort > $out; rm -rf $tmp; cat $out
