#!/bin/bash
# tools/confirm_seed.sh <PROP> <suffix> : confirm a sub-agent's seeded change from /tmp/seed/out-<PROP> in a fresh worktree of /repo HEAD
P="$1"; SFX="$2"; OUT=/tmp/seed/out-$P; W=/tmp/seed/confirm-$P
git -C /repo worktree remove --force $W 2>/dev/null; rm -rf $W
git -C /repo worktree add --detach $W HEAD >/dev/null 2>&1 || exit 2
mkdir -p /tmp/seed/demo-run-$P; cd /tmp/seed/demo-run-$P
PYTHONPATH=$W timeout 600 /venv/bin/python $OUT/demo.py > /tmp/seed/confirm-$P.clean.log 2>&1; rc_clean=$?
git -C $W checkout -- . ; git -C $W apply $OUT/patch.diff || { echo "patch does not apply to HEAD"; exit 2; }
PYTHONPATH=$W timeout 600 /venv/bin/python $OUT/demo.py > /tmp/seed/confirm-$P.patched.log 2>&1; rc_patched=$?
git -C $W checkout -- csvpath/scanning/parsetab.py
tests=$(/tmp/seed/run_stable_tests.sh $W 2>&1 | tail -12)
echo "demo clean rc=$rc_clean patched rc=$rc_patched"; echo "$tests" | tail -6
git -C /repo worktree remove --force $W; rm -rf /tmp/seed/demo-run-$P
if [ $rc_clean -eq 0 ] && [ $rc_patched -ne 0 ] && ! echo "$tests" | head -9 | grep -q "FAILED\|failed\|error"; then
  D=/verif/seeded/$P-$SFX; mkdir -p $D; cp $OUT/patch.diff $OUT/demo.py $D/; cp $OUT/notes.txt $D/notes.txt 2>/dev/null
  echo CONFIRMED $D
else echo NOT-CONFIRMED; fi
