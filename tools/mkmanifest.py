#!/venv/bin/python
"""Regenerates /verif/MANIFEST.json from the table below (kept valid at all times)."""
import json, os
V = os.path.dirname(os.path.dirname(os.path.abspath(__file__)))
ENGINE = "coq-model+correspondence"
CLAIMS = {
 "C02": dict(
  text="Coq theorems (Props/C02.v): for every well-formed scan shape of any size the modelled scanner includes exactly the denoted lines (C02_includes), is_last is sound (C02_is_last_sound), and for every matcher and every file the run loop offers exactly the denoted non-blank records and counts them (C02_run). The model is tied to /repo on every run by comparing the real Scanner and real CsvPath.collect() with the model evaluated by the Coq kernel on enumerated + random scan parts and files.",
  note="Trusted: Coq kernel, the hand model Scan/ScanModel.v + Run/RunLoop.v as far as the correspondence sample shows it equal to the code, the Python harness; PLY's LALR reduce order is modelled, not verified. No axioms (Print Assumptions: closed).",
  technique="Coq proof over hand-written Gallina model + kernel-evaluated differential correspondence with the implementation"),
 "C04": dict(
  text="Coq theorems (Props/C04.v): transport lemmas — a reflexive-transitive relation respected by every matcher call / component evaluation is respected by the whole run / line (C04_run_transport, C04_line_transport, for EVERY matcher and evaluator); instantiated on the control+validity fragment (fail, fail_and_stop, valid, failed, stop, skip, advance, last, push): after any run is_valid is False exactly when a fail executed (C04_exact) and never returns to True (C04_monotone); a fail right of a false '->' has no effect (C04_not_executed_when; after stop/skip: C13); valid()/failed() read the verdict at their position (C04_per_line); an error fails the run iff 'fail' (C04_error_fail); ResultsManager.is_valid = manifest all_valid = conjunction for members that read a record (C04_aggregate_partial; the other case is open finding D12 with witness C04_aggregate_unstarted_refuted). Tie: fragment csvpaths with fail in every position run on the real CsvPath vs the executable model (Coq-evaluated: lines, stacks incl. valid/failed probes, counters, is_valid); error runs under policies with/without fail; named-paths groups run with all six real methods, ResultsManager.is_valid / run manifest / member manifests vs the aggregate model.",
  note="Trusted: Coq kernel; Match/Ctl.v, Mgr/Aggregate.v as far as correspondence shows; fail under onmatch look-ahead is outside the fragment (partial); fail_all belongs to C08's cross-path signals. Known open finding D12 listed in known_findings.json. No axioms.",
  technique="Coq proof (relation transport through run loop and adjudication loop; exactness on an executable fragment) + kernel-evaluated correspondence on real CsvPath and CsvPaths runs"),
 "C05": dict(
  text="Coq theorem C05_outcome (Props/C05.v): for all 64 policies, all validation-mode settings and every prior state the model of ErrorHandler._handle_if yields exactly the conjunction of flags (raise -> exception after the other effects, collect -> one record with the line number, stop, fail, print), each flag being the csvpath's own validation-mode setting when present; C05_quiet_is_silent, C05_monotone (verdict/stop never revert, records only grow), C05_vote (a component with an error votes False without 'match'). Tie: the real ErrorHandler.handle_error is called for every policy x every validation-mode comment and compared with model and statement by the Coq kernel; real csvpaths with 6 kinds of error-provoking component (incl. the blank-final-record last() path) are run under every policy x 5 validation modes x offending-line sets and judged against the property's statement. C05_quiet_refuted is the witness of repaired defect D5.",
  note="Trusted: Coq kernel; Match/Errors.v as far as the handler correspondence shows it equal to error.py; the run-level expectations are the property's statement for the generated program shapes (harness); validation-mode 'match' is not asserted on. No axioms.",
  technique="Coq proof over handler model (all policies x modes) + kernel-evaluated correspondence by direct handler calls + policy-matrix runs of the real interpreter"),
 "C06": dict(
  text="Coq theorems (Props/C06.v): for every dialect (delimiter <> quote, neither CR/LF) and all rows of CR-free cells of any size, the modelled csv.writer -> open() -> csv.reader round trip is the identity (C06_csv_roundtrip, induction over rows/cells/characters); composed with the run loop, [*][yes()] returns exactly the non-blank records cell for cell (C06_lines) and for EVERY matcher/scan/mode the returned lines are a sub-sequence of the file's records (C06_delivered_as_is); headers are the cleaned first non-blank record (C06_headers, C06_clean_header); #name and #index address the same cell and short rows read as absent (C06_name_index, C06_short_row). Tie: each run compares real csv.writer bytes, real CsvPath(delimiter,quotechar).collect() lines, CsvPath.headers and pushed #index/#name values with the model and with the property, the comparison being computed by the Coq kernel.",
  note="Trusted: Coq kernel; Csv/CsvModel.v as a model of CPython's _csv and universal newlines (tied by correspondence on every generated file); Data/DataModel.v; harness. No axioms.",
  technique="Coq proof (csv round trip + run loop) over hand-written Gallina model + kernel-evaluated differential correspondence"),
 "C11": dict(
  text="Coq refinement (Props/C11.v), unbounded in the length of the history: the state-machine model of add_named_file/_copy_in/_fingerprint/register_complete/registered_file/remove_named_file over an abstract file system refines the specification 'name -> list of (source file name, content) versions' (C11_refines, by a simulation relation preserved by every operation); corollaries: get_named_file names a file whose bytes are the latest registered content and whose name is their digest (C11_current), stored versions never change until their name is removed (C11_immutable), source edits and new instances do not affect the store, one manifest entry per version-changing registration (C11_manifest_spec). SHA-256 is a hypothesis (injective). Tie: every operation sequence up to length 3 (quick) / 4 (thorough) over the property's 13-letter alphabet plus random longer ones is executed on a real FileManager in a scratch tree; after every operation the whole store (tree, bytes, manifests, get_named_file, fingerprints) is abstracted and compared with model and specification by the Coq kernel.",
  note="Trusted: Coq kernel; sha injective (Section hypothesis, named in Print Assumptions as an ordinary premise); Mgr/FileStore.v as far as the exhaustive short-history correspondence shows it equal to the code; the real file system, shutil, json are used as they are; harness abstraction function. No axioms.",
  technique="Coq refinement proof (state machine -> abstract version map, induction over operation histories) + exhaustive short-history correspondence evaluated by the Coq kernel"),
 "C12": dict(
  text="Coq theorems (Props/C12.v), unbounded in the number and size of the csvpaths: Python's str.split on the marker is modelled as a scanner; for any list of non-blank csvpaths that do not contain the marker text (newlines, comments, anything else allowed) the scan of the stored group file finds exactly the wrapped members — no occurrence inside or across members (C12_split, using that the marker has no newline) — and get_named_paths returns them in order, equal up to surrounding whitespace (C12_roundtrip); selection by identity returns the first member with that identity, ':to' the prefix ending at it, ':from' the suffix starting at it (C12_select); the manifest gains one entry per change of the group file's fingerprint and none for an identical re-add (C12_manifest). Tie: generated groups (id/Id/ID/name/Name/NAME comments, inner comments, newlines, whitespace) are stored and read back by the real PathsManager: group file text, get_named_paths, identities (through the C15 metadata model), '#id', '$g.csvpaths.id', ':to', ':from' vs model and vs the property (identities as written by the generator) in Coq; exhaustive short + random histories of add/re-add/replace/remove/new instance on two names vs the manifest model.",
  note="Trusted: Coq kernel; Mgr/PathsStore.v (str.split, strip on Unicode whitespace) and Meta/MetaModel.v as far as correspondence shows; SHA-256 of the group file abstracted to an injective id in the history comparison; harness. No axioms.",
  technique="Coq proof (string-scanner round trip, list lemmas) + kernel-evaluated correspondence on real PathsManager groups and histories"),
 "C13": dict(
  text="Coq theorems (Props/C13.v). Adjudication loop of Matcher.matches modelled parametrically in the component evaluator (Match/Adjudicate.v): for EVERY set of functions, a stop() firing in component i leaves exactly components 1..i evaluated and the line returnable only if i is last (C13_stop_line); skip() makes the line not match, evaluates nothing after it and the flag is down when the line ends, also as last component (C13_skip_line); without stop/skip all components run left to right and the answer is the AND/OR of votes (C13_calm_line). Run loop, for EVERY matcher: a stopped step halts the fold (C13_stop_run), an advancing line is counted but not evaluated/returned/matched (C13_advance), last() is true on at most one evaluated line (C13_last_once), the blank final record triggers one frozen evaluation that returns nothing and runs only 'last() ->' components (C13_blank_last, C13_blank_last_only_lasts). Tie: Match/Ctl.v instantiates both models with stop/skip/advance/last/push; the property's finite space (control form x position x firing line x scan window x blank pattern) is enumerated on the real CsvPath and returned lines, every stack, counters and the stop flag are compared with the executable model by the Coq kernel. C13_skip_last_leaks_refuted is the witness of the repaired defect D8.",
  note="Trusted: Coq kernel; Match/Ctl.v as a transcription of Stopper/Skipper/Advance/Last/Push/_do_when/Function.matches(frozen) for the AND-mode fragment without onmatch (programs with onmatch look-ahead are outside the theorems: partial); harness. No axioms.",
  technique="Coq proof over parametric adjudication-loop + run-loop models; executable fragment model compared with enumerated real runs by the Coq kernel"),
 "C14": dict(
  text="Coq theorem C14_table (Props/C14.v): the model of Equality._do_assignment_new_impl/_latch_and_onchange/_set_variable_if equals the documented qualifier table (stated on conditions: gate, same, latched, guard_blocks; write and vote) for all 256 qualifier subsets, both answers of the rest of the line and ALL values None | int | str, whenever the code does not raise; C14_total: it does not raise on comparable values; corollaries: onmatch gates, latch never votes negative or overwrites, nocontrib neutral; C14_run_step lifts it to a line of a run. Tie: the real _do_assignment_new_impl is called directly (its line_matches parameter) on every subset x lm x value pairs from 14 values, and the property's own bounded quantifier is run on the real interpreter (csvpaths [ @x.<quals> = #a rest ] over 3-line files, x read after every line); both are compared with model and table by the Coq kernel.",
  note="Trusted: Coq kernel; Match/Assign.v as far as the two correspondences show it equal to equality.py; the reading 'latch wins silently before notnone/increase/decrease are consulted' follows the property text (DESIGN §7 C14); harness. No axioms.",
  technique="Coq proof (decision procedure == documented table, all subsets and values) + kernel-evaluated correspondence by direct kernel calls and enumerated real runs"),
 "C15": dict(
  text="Coq theorems (Props/C15.v): the two character state machines of metadata_parser.py are modelled exactly; for comments of any length without ~ [ ] $ the csvpath text comes out untouched and the comment goes to the field parser (C15_extract), and any list of rendered 'key: value' fields is recovered (C15_fields, induction over the field list with the parser state as invariant); on the run-loop model, for EVERY matcher: return-mode no-matches flips the returned flag exactly on the offered records and leaves the run state equal (C15_complement), collected/unmatched partition the records read (C15_partition), no-run reads nothing (C15_norun), no-default removes only the stdout printer (C15_print_mode). Tie: real MetadataParser methods vs the model on generated comments (Coq-evaluated), recorded-matcher run-loop correspondence on every real run, and the relations themselves checked between 7 real runs of each generated csvpath (stdout captured at fd level).",
  note="Trusted: Coq kernel; Meta/MetaModel.v (str.isalnum modelled on the generator's alphabet only: ASCII + 3 listed code points) and Run/RunLoop.v as far as the correspondence shows them equal to the code; harness. No axioms.",
  technique="Coq proof over exact state-machine model + run-loop model; kernel-evaluated correspondence; relational differential runs"),
 "C07": dict(
  text="Coq theorems (Props/C07.v) over the run-loop model for EVERY matcher: the entry points collect()/next()/fast_forward() (and collect(nexts=k) vs k lines of next()) yield the same lines and leave identical state, differing only in the unmatched list (C07_entry_points_agree, C07_lines); returned/unmatched partition the records read (C07_partition). Tie: the real matcher's per-line answers are recorded and replayed as the model's matcher, and everything the loop decides (returned/unmatched lines, scan_count, match_count, stopped) is compared by the Coq kernel on every generated run; the real entry points are also compared with each other.",
  note="Trusted: Coq kernel; Run/RunLoop.v as far as the recorded-matcher correspondence shows it equal to CsvPath.next/_consider_line/collect; harness. The statement 'collect(nexts=n) performs no side effect of a later line' is covered by the theorem for equal budgets plus the real comparison against n lines taken from next(). No axioms.",
  technique="Coq proof over parametric run-loop model + recorded-matcher correspondence evaluated in Coq + relational differential runs"),
}
NOT_YET = "not yet claimed: model/theorems under construction (see DESIGN.md §9 build order); not a limitation of the technique"
FIXES = os.popen("git -C /repo log --format='%h %s' | grep ' fix:'").read().strip().split("\n")

def main():
    checks = []
    for pid in sorted(CLAIMS):
        c = CLAIMS[pid]
        checks.append({
            "property_id": pid, "quick_cmd": f"./check {pid} --tier quick", "thorough_cmd": f"./check {pid} --tier thorough",
            "evidence_file": f"/verif/evidence/{pid}.json", "replay_cmd_template": f"./check {pid} --replay {{path}}",
            "engine": ENGINE,
            "level_claimed": {"category": "proof", "text": c["text"], "design_ref": f"DESIGN.md §7 {pid}"},
            "level_note": c["note"], "technique": c["technique"]})
    allp = [f"C{i:02d}" for i in range(1, 21)]
    m = {
        "version": 1, "setup_cmd": "make -C /verif setup",
        "hooks": {"guard": "CSVPATH_VERIF",
                  "enable": "none needed: checks observe public API and plain attributes of a scratch copy of /repo's working tree; CSVPATH_VERIF=1 is exported by the harness but no code in /repo reads it",
                  "baseline_off_cmd": "cd /repo && /venv/bin/python -m pytest -ra -q -p no:cacheprovider --timeout=900 --continue-on-collection-errors",
                  "source_commits": [], "add_only": True},
        "engines": [{"name": ENGINE, "path": "/verif/coq, /verif/harness", "serves_properties": sorted(CLAIMS),
                     "kind_free_text": "Coq 8.16.1 development (model, spec, theorems) + Python harness that runs the implementation and has Coq (vm_compute) compare it with model and spec"}],
        "checks": checks,
        "notes": "See DESIGN.md. Fix commits in /repo: " + "; ".join(FIXES),
        "not_applicable": [{"property_id": p, "reason": NOT_YET} for p in allp if p not in CLAIMS],
    }
    json.dump(m, open(os.path.join(V, "MANIFEST.json"), "w"), indent=1)
    try:
        import jsonschema
        jsonschema.validate(m, json.load(open("/root/.vp/MANIFEST.schema.json")))
        print("MANIFEST valid;", len(checks), "checks")
    except ImportError:
        print("written (jsonschema not available)")

if __name__ == "__main__":
    main()
