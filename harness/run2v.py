"""run2v — a fail-closed translator for the per-record step of the run loop: CsvPath._consider_line and raise_match_count_if
(csvpath/csvpath.py) and LineMonitor.is_last_line_and_blank (csvpath/util/line_monitor.py), to Gallina over coq/Run/RunSem.v.

A method becomes a function from the run-loop state (Run/RunLoop.rs: scan_count, match_count, _current_match_count, advance_count,
stopped, _freeze_path, and the match part's own state) to `option (state * returned value)`; None = Python raised.  The matcher
(self.matches) is a parameter, exactly as in Run/RunLoop.v; self.scanner.includes / is_last are the functions generated from
scanner.py (Scan/ScanSrc.v).  Logging and timing statements are skipped.  Anything outside the subset raises py2v.Unsupported."""
import ast
import os

import py2v
from py2v import Unsupported, attr_chain, returns

INT_FIELDS = {"self.scan_count": "scan_count", "self.match_count": "match_count", "self._current_match_count": "cur_mc", "self.advance_count": "adv"}
BOOL_FIELDS = {"self.stopped": "stopped_b", "self._freeze_path": "frozen_b"}
PARAM_BOOLS = {"self.collect_when_not_matched": "cw", "self.skip_blank_lines": "sb"}
TIMING_NAMES = {"startmatch", "endmatch", "t"}
TIMING_ATTRS = {"self.last_row_time", "self.rows_time"}
CMP = {ast.Eq: "p_eq", ast.NotEq: "p_ne", ast.Lt: "p_lt", ast.LtE: "p_le", ast.Gt: "p_gt", ast.GtE: "p_ge"}
SCAN = "fl tl al th e"


def expr(n, s, names):
    if isinstance(n, ast.Constant):
        return py2v.expr(n, set())
    if isinstance(n, ast.Name):
        if n.id not in names:
            raise Unsupported("unknown name " + n.id)
        return n.id
    if isinstance(n, ast.Attribute):
        ch = attr_chain(n)
        if ch in INT_FIELDS:
            return f"(PInt ({INT_FIELDS[ch]} X {s}))"
        if ch in PARAM_BOOLS:
            return f"(PBool {PARAM_BOOLS[ch]})"
        if ch == "self.line_monitor.physical_line_number":
            return f"(PInt (pln X {s}))"
        raise Unsupported("attribute " + ch)
    if isinstance(n, ast.BinOp) and isinstance(n.op, (ast.Add, ast.Sub)):
        return f"({'p_add' if isinstance(n.op, ast.Add) else 'p_sub'} {expr(n.left, s, names)} {expr(n.right, s, names)})"
    if isinstance(n, ast.UnaryOp) and isinstance(n.op, ast.Not):
        return f"(p_not {expr(n.operand, s, names)})"
    if isinstance(n, ast.BoolOp):
        f = "p_and" if isinstance(n.op, ast.And) else "p_or"
        out = expr(n.values[-1], s, names)
        for v in reversed(n.values[:-1]):
            out = f"({f} {expr(v, s, names)} (fun _ : unit => {out}))"
        return out
    if isinstance(n, ast.Compare) and len(n.ops) == 1:
        a, op, b = n.left, n.ops[0], n.comparators[0]
        if isinstance(op, (ast.Is, ast.IsNot)) and isinstance(b, ast.Constant) and b.value is None:
            return f"({'p_is_none' if isinstance(op, ast.Is) else 'p_is_not_none'} {expr(a, s, names)})"
        if isinstance(op, ast.Is) and isinstance(b, ast.Constant) and b.value is True:
            return f"(p_is_true {expr(a, s, names)})"
        if type(op) in CMP:
            return f"({CMP[type(op)]} {expr(a, s, names)} {expr(b, s, names)})"
        raise Unsupported("comparison " + ast.unparse(n))
    if isinstance(n, ast.Call):
        src = ast.unparse(n)
        if src == "len(line)":
            return "(p_len (line_pyv C l))"
        if src == "self.line_monitor.is_last_line_and_blank(line)":
            return f"(is_last_line_and_blank_src e (PInt (pln X {s})) (line_pyv C l))"
        if src in ("self.scanner.includes(self.line_monitor.physical_line_number)", "self.scanner.is_last(self.line_monitor.physical_line_number)"):
            f = "includes_src" if ".includes(" in src else "is_last_src"
            return f"({f} (PInt (pln X {s})) {SCAN})"
        raise Unsupported("call " + src[:80])
    raise Unsupported("expression " + type(n).__name__)


def is_logging(s):
    return isinstance(s, ast.Expr) and isinstance(s.value, ast.Call) and isinstance(s.value.func, ast.Attribute) and \
        attr_chain(s.value.func) in ("self.logger.debug", "self.logger.info", "self.logger.warning", "self.logger.error")


def is_timing(s):
    if isinstance(s, ast.Assign) and len(s.targets) == 1:
        t = s.targets[0]
        if isinstance(t, ast.Name) and t.id in TIMING_NAMES:
            return True
        if isinstance(t, ast.Attribute) and attr_chain(t) in TIMING_ATTRS:
            return True
    if isinstance(s, ast.AugAssign) and isinstance(s.target, ast.Attribute) and attr_chain(s.target) in TIMING_ATTRS:
        return True
    return False


class Cx:
    def __init__(self):
        self.n = 0

    def fresh(self):
        self.n += 1
        return f"s{self.n}"


def block(stmts, cx, s, names, ind):
    pad = "  " * ind
    if not stmts:
        return pad + f"Some ({s}, PNone)"
    st, rest = stmts[0], stmts[1:]
    if (isinstance(st, ast.Expr) and isinstance(st.value, ast.Constant)) or is_logging(st) or is_timing(st):
        return block(rest, cx, s, names, ind)
    if isinstance(st, ast.Return):
        return pad + f"Some ({s}, {expr(st.value, s, names) if st.value is not None else 'PNone'})"
    if isinstance(st, (ast.Assign, ast.AugAssign)):
        if isinstance(st, ast.Assign):
            if len(st.targets) != 1:
                raise Unsupported("assignment targets")
            tgt, val = st.targets[0], st.value
        else:
            tgt = st.target
            val = ast.BinOp(left=st.target, op=st.op, right=st.value)
        if isinstance(tgt, ast.Attribute):
            ch = attr_chain(tgt)
            if ch in INT_FIELDS:
                s1 = cx.fresh()
                return pad + f"bind_z ({expr(val, s, names)}) (fun z_ => let {s1} := set_{INT_FIELDS[ch]} X {s} z_ in\n" + block(rest, cx, s1, names, ind) + ")"
            if ch in BOOL_FIELDS and isinstance(val, ast.Constant) and val.value in (True, False):
                s1 = cx.fresh()
                return pad + f"let {s1} := set_{BOOL_FIELDS[ch]} X {s} {'true' if val.value else 'false'} in\n" + block(rest, cx, s1, names, ind)
            raise Unsupported("assignment to " + ch)
        if isinstance(tgt, ast.Name):
            if ast.unparse(val) == "self.matches(line)":
                s1 = cx.fresh()
                return pad + f"let '({s1}, mv_) := m {s} l in let {tgt.id} := PBool mv_ in\n" + block(rest, cx, s1, names | {tgt.id}, ind)
            return pad + f"let {tgt.id} := {expr(val, s, names)} in\n" + block(rest, cx, s, names | {tgt.id}, ind)
        raise Unsupported("assignment target " + ast.unparse(tgt))
    if isinstance(st, ast.Expr) and isinstance(st.value, ast.Call):
        src = ast.unparse(st.value)
        if src == "self.matches(line)":
            s1 = cx.fresh()
            return pad + f"let '({s1}, _) := m {s} l in\n" + block(rest, cx, s1, names, ind)
        if src == "self.stop()":
            s1 = cx.fresh()
            return pad + f"let {s1} := set_stopped_b X {s} true in\n" + block(rest, cx, s1, names, ind)
        if src == "self.raise_match_count_if()":
            s1 = cx.fresh()
            return pad + f"match raise_match_count_if_src {s} with None => None | Some ({s1}, _) =>\n" + block(rest, cx, s1, names, ind) + " end"
        raise Unsupported("call statement " + src[:80])
    if isinstance(st, ast.If):
        b = block(st.body + ([] if returns(st.body) else rest), cx, s, names, ind + 1)
        o = block(st.orelse + ([] if (st.orelse and returns(st.orelse)) else rest), cx, s, names, ind + 1)
        return pad + f"ifo {expr(st.test, s, names)}\n{pad} (fun _ : unit =>\n{b})\n{pad} (fun _ : unit =>\n{o})"
    raise Unsupported("statement " + type(st).__name__ + ": " + ast.unparse(st)[:60])


def method(cls, name):
    fn = next((f for f in cls.body if isinstance(f, ast.FunctionDef) and f.name == name), None)
    if fn is None:
        raise Unsupported("no method " + name)
    return fn


def translate(repo):
    lm = ast.parse(open(os.path.join(repo, "csvpath", "util", "line_monitor.py"), encoding="utf-8").read())
    lmc = next((c for c in lm.body if isinstance(c, ast.ClassDef) and c.name == "LineMonitor"), None)
    cp = ast.parse(open(os.path.join(repo, "csvpath", "csvpath.py"), encoding="utf-8").read())
    cpc = next((c for c in cp.body if isinstance(c, ast.ClassDef) and c.name == "CsvPath"), None)
    if lmc is None or cpc is None:
        raise Unsupported("classes LineMonitor / CsvPath")
    out = ["(** GENERATED by harness/run2v.py from csvpath/csvpath.py (CsvPath._consider_line, raise_match_count_if) and csvpath/util/line_monitor.py",
           "    (LineMonitor.is_last_line_and_blank) — do not edit.  m: self.matches; fl tl al th: the scanner's from_line / to_line / all_lines / these;",
           "    e: line_monitor.physical_end_line_number; cw: collect_when_not_matched; sb: skip_blank_lines; l: the record.  None = Python raised. *)",
           "From Coq Require Import ZArith List Bool.", "From V Require Import Scan.ScanModel Scan.PySem Scan.ScanSrc Run.RunLoop Run.RunSem.", "Import ListNotations.", "Open Scope Z_scope.", ""]
    f = method(lmc, "is_last_line_and_blank")
    if [a.arg for a in f.args.args] != ["self", "line"]:
        raise Unsupported("signature of is_last_line_and_blank")
    saved = dict(py2v.ATTR_PARAMS)
    try:
        py2v.ATTR_PARAMS.clear()
        py2v.ATTR_PARAMS.update({"self._physical_end_line_number": "e", "self._physical_line_number": "n"})
        out.append("Definition is_last_line_and_blank_src (e n line : pyv) : pyv :=\n" + py2v.block(list(f.body), {"line"}, 1) + ".\n")
    finally:
        py2v.ATTR_PARAMS.clear()
        py2v.ATTR_PARAMS.update(saved)
    stop = method(cpc, "stop")
    if [ast.unparse(x) for x in stop.body if not (isinstance(x, ast.Expr) and isinstance(x.value, ast.Constant))] != ["self.stopped = True"]:
        raise Unsupported("CsvPath.stop is no longer `self.stopped = True`")
    out.append("Section RunSrc.\n  Variable C : Type.\n  Variable X : Type.\n  Variable m : rs X -> list C -> rs X * bool.\n")
    f = method(cpc, "raise_match_count_if")
    if [a.arg for a in f.args.args] != ["self"]:
        raise Unsupported("signature of raise_match_count_if")
    out.append("  Definition raise_match_count_if_src (s : rs X) : option (rs X * pyv) :=\n" + block(list(f.body), Cx(), "s", set(), 2) + ".\n")
    f = method(cpc, "_consider_line")
    if [a.arg for a in f.args.args] != ["self", "line"]:
        raise Unsupported("signature of _consider_line")
    out.append("  Definition consider_line_src (fl tl al th e : pyv) (cw sb : bool) (s : rs X) (l : list C) : option (rs X * pyv) :=\n" + block(list(f.body), Cx(), "s", set(), 2) + ".\n")
    out.append("End RunSrc.\n")
    return "\n".join(out)


if __name__ == "__main__":
    import sys
    print(translate(sys.argv[1]))
