"""C20 — data and values flow between csvpaths as declared.

Deciding method: Coq theorems (Props/C20.v): for ANY stage functions, chain length and placement
of source-mode: preceding, a serial run is the composition of its stages (each preceding member
reads its predecessor's data.csv back through the reader: csv round trip); variable references
see the latest run of the group.  Tie to /repo: chains of 2-4 generated filter csvpaths with
preceding on any subset are run by the real collect_paths; every member's collected lines are
compared with the same csvpath run STANDALONE (real CsvPath) over a file holding exactly what the
model says it must read (predecessor's lines, written by csv.writer, or the original file); the
member manifests' actual_data_file, variable references (plain and tracking-keyed) after 1-3 runs
of the referenced group, header references and a results reference used as a file name are checked
against the values the referenced run left."""
import json
import os

import c06
import gen
import groups
import runloop
from common import CONFIG_INI, Quiet, coq_bad, known_open, listlit, pmap, ulit

SIG_D14 = "empty-stage-no-data-file"
SIG_D14B = "reference-to-empty-result-no-data-file"
SIG_D26 = "self-replay-resolves-to-new-run-dir"
CFG = CONFIG_INI.replace("csvpath = collect, fail, print", "csvpath = collect, print")

FILTERS = ['gt(line_number(), {k})', 'exists(#b)', 'not(empty(#a))', 'above(int(#a), {k})', 'in(#b, "x|y|z z")', 'yes()', 'lt(line_number(), {k2})',
           'not(in(#b, "x"))', 'or(empty(#b), above(int(#a), {k}))', 'no()']


def gen_stage(rng, k):
    f = rng.choice(FILTERS).format(k=rng.choice([0, 1, 2, 3]), k2=rng.choice([3, 5, 8]))
    extra = rng.choice(["", "", f' @n{k} = count()', f' push("seen{k}", #0)'])
    scan = rng.choice(["*", "*", "*", "1*", "0-3", "1-4"])
    return {"scan": scan, "match": f"[ {f}{extra} ]"}


def gen_rows(rng):
    rows = [["id", "a", "b"]]
    for j in range(1, rng.choice([3, 5, 7, 9])):
        if rng.random() < 0.08:
            rows.append([])
        else:
            rows.append([f"r{j}", rng.choice(["0", "1", "2", "3", "5", "10", ""]), rng.choice(gen.TEXTS + [c06.gen_cell(rng).replace("\x00", "0")])][: rng.choice([2, 3, 3, 3])])
    return rows


def chain_inspect(paths, run, o):
    out = {"actual": [], "exists": []}
    for m in o.get("members") or []:
        try:
            man = json.load(open(os.path.join(m["run_dir"], m["identity"], "manifest.json")))
            out["actual"].append(man.get("actual_data_file"))
        except Exception as ex:  # noqa
            out["actual"].append("ERR " + type(ex).__name__)
    return out


def standalone(job):
    text, rows, fname = job
    return runloop.real_run({"text": text, "rows": rows, "fname": fname, "method": 0, "k": 0, "policy": ["collect", "print"]})


def ref_job(job):
    """a group g run 1-3 times (its variables change with the run), then a referencing group"""
    from csvpath import CsvPaths
    import csv
    import shutil
    jid, nruns, rows_list = job
    home = os.getcwd()
    d = os.path.join(home, f"r{jid}")
    shutil.rmtree(d, ignore_errors=True)
    os.makedirs(d)
    os.chdir(d)
    out = {"exc": None}
    try:
        with open("config.ini", "w") as fh:
            fh.write(CFG)
        with Quiet():
            paths = CsvPaths()
            paths.paths_manager.add_named_paths(name="g", paths=['~id: src~ $[1*][ @total = count() tally(#b) @last = #a push("ids", #0) ]'])
            paths.paths_manager.add_named_paths(name="h", paths=['~id: other~ $[*][ @total = "other" ]'])
            paths.paths_manager.add_named_paths(name="user", paths=[
                '~id: u~ $[*][ @t = $g.variables.total @lastv = $g.variables.last @tx = $g.variables.tally_b.x @tz = $g.variables.tally_b.nosuchkey @hs = $g.headers.b @o = $h.variables.total push("seen", $g.variables.total) ]'])
            expect = None
            import c10
            for k in range(nruns):
                c10.set_clock((2026, 5, 6, 7, 8, 10 + 3 * k))     # the runs of g happen in different seconds (same-second order of ':last' is outside C10/C20)
                with open(f"f{k}.csv", "w", newline="", encoding="utf-8") as fh:
                    csv.writer(fh).writerows(rows_list[k])
                paths.file_manager.add_named_file(name=f"f{k}", path=f"f{k}.csv")
                paths.collect_paths(pathsname="g", filename=f"f{k}")
                if k == 0:
                    paths.collect_paths(pathsname="h", filename=f"f{k}")
                r = paths.results_manager.get_named_results("g")[0]
                expect = {"vars": json.loads(json.dumps(r.csvpath.variables, default=str)), "lines": [list(l) for l in r.lines.next()],
                          "data_file": r.data_file_path, "run_dir": r.run_dir, "headers": [f"{h}" for h in (r.csvpath.headers or [])]}
                if k == 0:
                    first = dict(expect)
            c10.set_clock((2026, 5, 6, 7, 9, 0))
            paths.collect_paths(pathsname="user", filename="f0")
            u = paths.results_manager.get_named_results("user")[0]
            out["got"] = json.loads(json.dumps(u.csvpath.variables, default=str))
            out["errors"] = [str(e.error)[:100] for e in (u.errors or [])]
            out["expect"] = expect
            # a results reference as a file name replays exactly the referenced member's data.csv
            out["empty_ref"] = []

            def replay(name, ref, lines):
                """run a one-member group over the referenced data; a referenced member that collected no line has no data.csv
                (open finding D14's other call site): recorded, not a scenario failure"""
                try:
                    f = paths.file_manager.get_named_file(ref)
                    paths.paths_manager.add_named_paths(name=name, paths=[f'~id: {name}~ $[*][ yes() ]'])
                    paths.collect_paths(pathsname=name, filename=ref)
                    return f, [list(l) for l in paths.results_manager.get_named_results(name)[0].lines.next()]
                except Exception as ex:  # noqa
                    if lines == [] and isinstance(ex, Exception) and type(ex).__name__ in ("InputException", "FileNotFoundError", "FileException"):
                        out["empty_ref"].append({"ref": ref, "exc": type(ex).__name__ + ": " + str(ex)[:120]})
                        return None, None
                    raise
            base = os.path.basename(expect['run_dir'])
            # by exact run-dir name when the name has no ".N" suffix (the reference grammar splits on dots), else by ':last'
            ref = f"$g.results.{base}.src" if "." not in base else f"$g.results.{base[:4]}:last.src"
            out["ref"] = ref
            _, out["replayed"] = replay("replay", ref, expect["lines"])
            rlast = f"$g.results.{os.path.basename(expect['run_dir'])[:4]}:last.src"
            out["last_file"], _ = replay("replayl", rlast, expect["lines"])
            # ':first' names the oldest run of the group: its data.csv is what gets replayed
            rfirst = f"$g.results.{os.path.basename(first['run_dir'])[:4]}:first.src"
            out["first_file"], out["replayed_first"] = replay("replay1", rfirst, first["lines"])
            out["first"] = first
            # member identities with a dot: the reference's last part is the whole identity
            paths.paths_manager.add_named_paths(name="dot", paths=['~id: cl~ $[*][ yes() ]', '~id: cl.x~ $[1*][ yes() ]'])
            c10.set_clock((2026, 5, 6, 7, 9, 30))
            paths.collect_paths(pathsname="dot", filename="f0")
            dres = {r.csvpath.identity: [list(l) for l in r.lines.next()] for r in paths.results_manager.get_named_results("dot")}
            out["dot"] = {}
            for ident in ("cl", "cl.x"):
                _, got = replay("rd" + ident.replace(".", "_"), f"$dot.results.2026:last.{ident}", dres[ident])
                out["dot"][ident] = {"want": dres[ident], "got": got}
            # a chain (source-mode: preceding) run over a results reference: the first member replays the referenced data.csv,
            # the second reads what the first collected — not the referenced file again
            if len(expect["lines"]) >= 2:
                try:
                    paths.paths_manager.add_named_paths(name="rchain", paths=['~id: c1~ $[*][ not(eq(line_number(), 1)) ]', '~id: c2 source-mode: preceding~ $[*][ yes() ]'])
                    c10.set_clock((2026, 5, 6, 7, 9, 45))
                    paths.collect_paths(pathsname="rchain", filename=rlast)
                    rr = paths.results_manager.get_named_results("rchain")
                    man = json.load(open(os.path.join(rr[1].run_dir, "c2", "manifest.json")))
                    out["ref_chain"] = {"c1": [list(l) for l in rr[0].lines.next()], "c2": [list(l) for l in rr[1].lines.next()],
                                        "c2_actual_data_file": man.get("actual_data_file"), "c1_data_file": rr[0].data_file_path, "referenced": expect["lines"]}
                except Exception as ex:  # noqa
                    out["ref_chain"] = {"exc": type(ex).__name__ + ": " + str(ex)[:160]}
            # a group replaying its own most recent run (the reference names the group that is running)
            paths.paths_manager.add_named_paths(name="selfg", paths=['~id: src~ $[*][ yes() ]'])
            c10.set_clock((2026, 5, 6, 7, 10, 0))
            paths.collect_paths(pathsname="selfg", filename="f0")
            want_self = [list(l) for l in paths.results_manager.get_named_results("selfg")[0].lines.next()]
            c10.set_clock((2026, 5, 6, 7, 11, 0))
            try:
                paths.collect_paths(pathsname="selfg", filename="$selfg.results.2026:last.src")
                got_self = [list(l) for l in paths.results_manager.get_named_results("selfg")[0].lines.next()]
                out["self_replay"] = {"want": want_self, "got": got_self}
            except Exception as ex:  # noqa
                out["self_replay"] = {"want": want_self, "exc": type(ex).__name__ + ": " + str(ex)[:160]}
    except Exception as ex:  # noqa
        out["exc"] = type(ex).__name__ + ": " + str(ex)[:200]
    finally:
        os.chdir(home)
        shutil.rmtree(d, ignore_errors=True)
    return out


def run(ctx):
    rng = ctx.rng
    quick = ctx.tier == "quick"
    # ---------------- chains
    jobs, meta = [], []
    for i in range(70 if quick else 2500):
        n = rng.choice([2, 2, 3, 3, 4])
        stages = [gen_stage(rng, k) for k in range(n)]
        prec = [False] + [rng.random() < 0.7 for _ in range(n - 1)]
        members = [f"~id: s{k}{' source-mode: preceding' if prec[k] else ''} :~ $[{s['scan']}]{s['match']}" for k, s in enumerate(stages)]
        rows = gen_rows(rng)
        jobs.append({"id": i, "files": {"f": rows}, "groups": {"g": members}, "runs": [{"method": "collect_paths", "pathsname": "g", "filename": "f", "new_instance": True}],
                     "config": CFG, "inspect": chain_inspect})
        meta.append((stages, prec, rows))
    # the witness of the open finding empty-stage-no-data-file, in every run
    wst = [{"scan": "*", "match": "[ no() ]"}, {"scan": "*", "match": "[ yes() ]"}]
    jobs.append({"id": len(jobs), "files": {"f": [["id", "a", "b"], ["r1", "1", "x"], ["r2", "2", "y"]]},
                 "groups": {"g": ["~id: s0 :~ $[*][ no() ]", "~id: s1 source-mode: preceding :~ $[*][ yes() ]"]},
                 "runs": [{"method": "collect_paths", "pathsname": "g", "filename": "f", "new_instance": True}], "config": CFG, "inspect": chain_inspect})
    meta.append((wst, [False, True], [["id", "a", "b"], ["r1", "1", "x"], ["r2", "2", "y"]]))
    res = pmap(ctx, groups.run_history, jobs, chunksize=2)
    # stage oracles: the same csvpath standalone over exactly the input the model says it reads
    sjobs, smap = [], {}
    for i, (j, r) in enumerate(zip(jobs, res)):
        stages, prec, rows = meta[i]
        if r["setup_exc"] or not r["runs"]:
            continue
        o = r["runs"][0]
        mems = o.get("members") or []
        prev = None
        for k, s in enumerate(stages):
            if k >= len(mems):
                break
            inp = prev if (prec[k] and prev is not None) else rows
            if prec[k] and prev is not None and len(prev) == 0:
                break          # D14 territory: no data.csv to read
            fname = f"st{i}_{k}.csv"
            smap[(i, k)] = len(sjobs)
            sjobs.append((f"${fname}[{s['scan']}]{s['match']}", inp, fname))
            prev = mems[k]["lines"] if isinstance(mems[k]["lines"], list) else []
    sres = pmap(ctx, standalone, sjobs, chunksize=8)
    fails, d14, judged, nontrivial = [], [], 0, set()
    for i, (j, r) in enumerate(zip(jobs, res)):
        stages, prec, rows = meta[i]
        if r["setup_exc"]:
            fails.append({"kind": "setting up the chain raised", "group": j["groups"]["g"], "exc": r["setup_exc"]})
            continue
        o = r["runs"][0]
        mems = o.get("members") or []
        empty_before_preceding = None
        for k in range(1, len(stages)):
            if prec[k] and k - 1 < len(mems) and isinstance(mems[k - 1]["lines"], list) and len(mems[k - 1]["lines"]) == 0:
                empty_before_preceding = k
                break
        if o["exc"]:
            rec = {"kind": "the chained run raised", "group": j["groups"]["g"], "rows": rows, "exc": o["exc"]}
            if empty_before_preceding is not None and "FileNotFoundError" in o["exc"]:
                d14.append(rec)
            else:
                fails.append(rec)
            continue
        for k, s in enumerate(stages):
            if (i, k) not in smap:
                break
            judged += 1
            so = sres[smap[(i, k)]]
            if so["exc"]:
                fails.append({"kind": "standalone stage raised", "stage": sjobs[smap[(i, k)]][0], "exc": so["exc"]})
                break
            if so["lines"] != mems[k]["lines"]:
                fails.append({"kind": f"member {k} of the chain did not collect what the same csvpath collects standalone over " +
                                      ("its predecessor's lines" if prec[k] and k > 0 else "the original file"),
                              "group": j["groups"]["g"], "rows": rows, "member": k, "in_chain": mems[k]["lines"], "standalone_over_expected_input": so["lines"],
                              "expected_input": sjobs[smap[(i, k)]][1]})
                break
            act = o["inspect"]["actual"][k] if k < len(o["inspect"]["actual"]) else None
            want_act = os.path.join(mems[k - 1]["run_dir"], mems[k - 1]["identity"], "data.csv") if (prec[k] and k > 0) else None
            if want_act is not None and (act is None or os.path.normpath(act) != os.path.normpath(want_act)):
                fails.append({"kind": f"member {k}'s manifest does not name its predecessor's data.csv as its actual input", "group": j["groups"]["g"], "actual_data_file": act, "expected": want_act})
                break
            if prec[k] and k > 0 and 0 < len(mems[k]["lines"]) < len(mems[k - 1]["lines"]):
                nontrivial.add(i)
    # ---------------- references
    rjobs = []
    for i in range(40 if quick else 800):
        nruns = rng.choice([1, 2, 3])
        rjobs.append((i, nruns, [gen_rows(rng) for _ in range(nruns)]))
    # the witness of the open finding reference-to-empty-result-no-data-file, in every run: the oldest run of g collects no line
    rjobs.append((len(rjobs), 2, [[["id", "a", "b"], [], []], [["id", "a", "b"], ["r1", "2", "x"], ["r2", "1", "yes"]]]))
    rres = pmap(ctx, ref_job, rjobs, chunksize=2)
    for (jid, nruns, rl), o in zip(rjobs, rres):
        if o["exc"]:
            fails.append({"kind": "the reference scenario raised", "runs_of_g": nruns, "rows": rl, "exc": o["exc"]})
            continue
        e, g = o["expect"], o["got"]
        want = {"t": e["vars"].get("total"), "lastv": e["vars"].get("last"), "tx": (e["vars"].get("tally_b") or {}).get("x"), "o": "other",
                "tz": None}          # a tracking key the variable does not have: None, not the whole variable
        hb = [(l[2] if len(l) > 2 else None) for l in e["lines"]]
        want_hs = [v.strip() for v in hb if v is not None]
        # a reference to a variable the latest run never set (it scanned no data line), or a header reference to a run that collected
        # no line, is reported as an error by the library ("Results exist but the variable is unknown" / "no data was captured") and
        # the assignment does not happen: the property speaks of the value the run LEFT, so those references are not judged
        if "total" not in e["vars"]:
            want.pop("t")
        if "last" not in e["vars"]:
            want.pop("lastv")
        if "tally_b" not in e["vars"]:
            want.pop("tx")
            want.pop("tz")
        if not e["lines"]:
            want_hs = g.get("hs")
        bad = {k: (g.get(k), v) for k, v in want.items() if g.get(k) != v}
        # the referring csvpath scans every record of f0: the reference has the same value on every one of them
        if "total" in e["vars"]:
            nscanned = sum(1 for r in rl[0] if r)
            if g.get("seen") != [e["vars"]["total"]] * nscanned:
                bad["seen"] = (g.get("seen"), [e["vars"]["total"]] * nscanned)
        if bad or g.get("hs") != want_hs:
            fails.append({"kind": "a variable / header reference does not evaluate to what the referenced group's most recent run left", "runs_of_g": nruns, "rows": rl,
                          "got": g, "expected": dict(want, hs=want_hs), "errors": o["errors"]})
        elif o["replayed_first"] is not None and (o["replayed_first"] != o["first"]["lines"] or os.path.normpath(o["first_file"]) != os.path.normpath(o["first"]["data_file"])):
            fails.append({"kind": "a ':first' results reference used as a file name did not replay the oldest run's data.csv", "rows": rl, "replayed": o["replayed_first"],
                          "data_csv_lines": o["first"]["lines"], "first_resolves_to": o["first_file"], "expected": o["first"]["data_file"]})
        elif o["replayed"] is not None and o["last_file"] is not None and (o["replayed"] != e["lines"] or os.path.normpath(o["last_file"]) != os.path.normpath(e["data_file"])):
            fails.append({"kind": "a results reference used as a file name did not replay the referenced member's data.csv", "rows": rl, "replayed": o["replayed"], "data_csv_lines": e["lines"],
                          "last_resolves_to": o["last_file"], "expected": e["data_file"]})
    # the same scenarios against the model of references (Mgr/Chain.v header_ref / replay_input / replay_chain), computed by Coq
    rows_lit = lambda rows: listlit(rows, lambda r: listlit(r, ulit))
    rlits, rsrc = [], []
    for (jid, nruns, rl), o in zip(rjobs, rres):
        if o["exc"]:
            continue
        e = o["expect"]
        hgot = o["got"].get("hs")
        rc = o.get("ref_chain") or {}
        rlits.append(f"mkC20R {listlit(e['headers'], ulit)} {rows_lit(e['lines'])} {ulit('b')} "
                     + ("None " if not isinstance(hgot, list) else f"(Some {listlit(hgot, ulit)}) ")
                     + ("None " if o.get("replayed") is None else f"(Some {rows_lit(o['replayed'])}) ")
                     + ("None" if "c1" not in rc else f"(Some ({rows_lit(rc['c1'])}, {rows_lit(rc['c2'])}))"))
        rsrc.append((rl, o))
    rbad = sorted(coq_bad(ctx, "c20r", "Csv.CsvModel Data.DataModel Mgr.Archive Mgr.Chain Harness.C20Cmp", "c20ref", rlits, ["c20_ref_agree"], chunk=60)["c20_ref_agree"]) if rlits else []
    selfs = [(rl, o["self_replay"]) for (jid, nruns, rl), o in zip(rjobs, rres) if not o["exc"] and o.get("self_replay")]
    # D26 is the library's own refusal ("... does not point to a csv"): any other exception of a self-replay is reported with the rest
    self_exc = [(rl, x) for rl, x in selfs if x.get("exc") and x["want"] and x["exc"].startswith("InputException")]
    for rl, x in selfs:
        if x.get("exc") and x["want"] and not x["exc"].startswith("InputException"):
            fails.append({"kind": "a group replaying its own most recent run raised something other than the library's refusal", "rows": rl, **x})
    self_bad = [(rl, x) for rl, x in selfs if not x.get("exc") and x["got"] != x["want"]]
    if self_exc:
        if known_open(ctx.pid, SIG_D26):
            ctx.known(f"{SIG_D26}: a group cannot replay its own most recent run: the ':last' reference is resolved again after the new run's directory exists ({self_exc[0][1]['exc'][:90]}; {len(self_exc)} scenarios this run)")
        else:
            ctx.violation("self-replay", {"what": "a results reference naming the running group's own most recent run raises instead of replaying that run's data.csv", "case": {"rows": self_exc[0][0], **self_exc[0][1]}, "scenarios": len(self_exc)})
    for (jid, nruns, rl), o in zip(rjobs, rres):
        for ident, x in (o.get("dot") or {}).items():
            if not o["exc"] and x["got"] is not None and x["got"] != x["want"]:
                fails.append({"kind": f"a results reference to the member with identity '{ident}' did not replay that member's data.csv", "rows": rl, "identity": ident, **x})
                break
    for (jid, nruns, rl), o in zip(rjobs, rres):
        rc = None if o["exc"] else o.get("ref_chain")
        if not rc:
            continue
        want_c1 = [l for i, l in enumerate(rc.get("referenced") or []) if i != 1]
        if rc.get("exc"):
            fails.append({"kind": "a source-mode: preceding chain run over a results reference raised", "rows": rl, **rc})
        elif rc["c1"] != want_c1 or rc["c2"] != rc["c1"] or os.path.normpath(rc["c2_actual_data_file"] or "") != os.path.normpath(rc["c1_data_file"] or "-"):
            fails.append({"kind": "in a chain run over a results reference the source-mode: preceding member did not read exactly its predecessor's data.csv "
                                  "(or its manifest does not name that file)", "rows": rl, **rc, "c1_expected": want_c1})
    if self_bad:
        fails.append({"kind": "a group replaying its own most recent run did not read that run's data.csv", "rows": self_bad[0][0], **self_bad[0][1]})
    empty_refs = [(rl, x) for (jid, nruns, rl), o in zip(rjobs, rres) if not o["exc"] for x in (o.get("empty_ref") or [])]
    if empty_refs:
        if known_open(ctx.pid, SIG_D14B):
            ctx.known(f"{SIG_D14B}: a results reference to a member that collected no line cannot be used as a file ({empty_refs[0][1]['exc']}; {len(empty_refs)} references this run)")
        else:
            ctx.violation("empty-reference", {"what": "a results reference naming a member that collected no line raises instead of giving no lines", "case": {"rows": empty_refs[0][0], **empty_refs[0][1]}, "references": len(empty_refs)})
    if d14:
        if known_open(ctx.pid, SIG_D14):
            ctx.known(f"{SIG_D14}: a chain stage that collects no line leaves no data.csv; its source-mode: preceding successor aborts the run with FileNotFoundError ({len(d14)} chains this run; witness C20_empty_stage_refuted)")
        else:
            ctx.violation("empty-stage", {"what": "a stage that collects no line leaves no data.csv; the next member (source-mode: preceding) raises FileNotFoundError instead of reading nothing", "case": d14[0], "chains": len(d14)})
    if rbad and not fails:
        rl, o = rsrc[rbad[0]]
        ctx.violation("correspondence", {"what": "correspondence Mgr/Chain.v (header_ref / replay_input / replay_chain) vs the reference scenarios no longer checks (Harness/C20Cmp.c20_ref_agree); "
                                                 "theorems C20_replay*, C20_header_ref are about the model only",
                                         "disagreeing_case": {"rows": rl, "header_reference": o["got"].get("hs"), "replayed": o.get("replayed"), "ref_chain": o.get("ref_chain"),
                                                              "referenced": o["expect"]["lines"], "headers": o["expect"]["headers"]}}, no_input=True)
    if fails:
        ctx.violation("flow", {"what": fails[0]["kind"], "case": fails[0], "more": fails[1:3], "failures": len(fails)})
    ctx.coverage.update({
        "evaluations": len(jobs) + len(sjobs) + len(rjobs), "distinct_nontrivial": len(nontrivial) + sum(1 for o in rres if not o["exc"]),
        "rule": "chains of 2-4 generated filter csvpaths (10 filter forms, scan windows, side-effect components) with source-mode: preceding on each later member with probability 0.7, over files "
                "with hostile cells and blank records; every member compared with its standalone run over the input the model prescribes; reference scenarios: group g run 1-3 times over "
                "different files, then a csvpath reading $g.variables.total/.last/.b.x (tracking), $g.headers.b and $h.variables.total, a results reference by run-dir name, by ':last' and by ':first', references to members whose identity contains a dot, a group replaying its own last run. "
                "a source-mode: preceding chain run over a ':last' results reference; Non-trivial = chains where a preceding member collected some but not all of its predecessor's lines + reference scenarios completed.",
        "samples": [{"group": jobs[0]["groups"]["g"], "rows": meta[0][2]}],
        "chains": len(jobs), "stage_comparisons": judged, "reference_scenarios": len(rjobs), "reference_scenarios_against_model": len(rlits) - len(rbad), "empty_stage_chains": len(d14), "failures": len(fails),
        "traces_validated_against_impl": judged,
        "correspondence": f"chain model (input of member k = predecessor's lines | original file) == implementation on {judged - sum(1 for f in fails if 'member' in f)}/{judged} member comparisons",
    })


def replay(ctx, payload):
    print(json.dumps(payload.get("case"), default=str)[:3000])
    return 0
