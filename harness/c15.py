"""C15 — comment mode settings take effect; matched and unmatched partition the file.

Deciding method: Coq theorems Props/C15.v — the two character state machines of
metadata_parser.py (extract_csvpath_and_comment, collect_metadata) modelled exactly and proved
to leave the csvpath untouched / recover rendered fields for comments of any length; complement,
partition and no-run proved on the run-loop model for every matcher.  Tie to /repo: the real
MetadataParser methods are compared with the model (Coq-evaluated) on generated comments, the
real run loop with the model through the recorded-matcher correspondence, and the relations
themselves (complement, partition, no-run, print-mode, comment-insensitivity) are checked on
pairs of real runs."""
import random
import re

import gen
import runloop
from common import coq_bad, listlit, oulit, pmap, ulit

WORD = "abcxyzABZ019_-éß中"
ROUGH = WORD + "  \n\t:.,;()#@!?*/+='\"|&%<>{}^"
KEYS = ["id", "name", "description", "author", "test-data", "x_1", "k-2", "Id", "note", "v9"]
MODEVALS = {"return-mode": ["matches", "no-matches"], "unmatched-mode": ["keep", "no-keep"], "logic-mode": ["AND", "OR"],
            "print-mode": ["default", "no-default"], "run-mode": ["run"], "validation-mode": ["print, no-raise", "no-print", "raise, stop"]}


def gen_value(rng):
    n = rng.choice([1, 1, 2, 3, 5, 8])
    v = rng.choice(WORD) + "".join(rng.choice(ROUGH.replace(":", "")) for _ in range(n - 1))
    return v.rstrip() or "v"


def gen_comment(rng):
    """returns (comment text, kvs or [])"""
    r = rng.random()
    if r < 0.65:
        kvs = []
        for _ in range(rng.choice([1, 1, 2, 3, 4])):
            if rng.random() < 0.3:
                k = rng.choice(list(MODEVALS))
                kvs.append((k, rng.choice(MODEVALS[k])))
            else:
                kvs.append((rng.choice(KEYS), gen_value(rng)))
        free = ""
        if rng.random() < 0.4:
            free = "".join(rng.choice(ROUGH.replace(":", "")) for _ in range(rng.choice([1, 3, 8]))) + " "
            if rng.random() < 0.4:
                # a stray colon in the free text (no word directly before it): it opens a field with an empty name, which the next key closes
                free = free + rng.choice([" : ", "): ", " :", "; : "]) + "".join(rng.choice(ROUGH.replace(":", "")) for _ in range(rng.choice([0, 2, 6]))) + " "
            if free.strip() and free.strip()[-1] in WORD:
                free = free + ". "
        text = free + "".join(f"{k}: {v} " for k, v in kvs)
        if free.strip():
            # free text in front of the first key is legal; the key is the last word before ':'
            pass
        return text, kvs
    n = rng.choice([0, 1, 2, 4, 8, 16])
    return "".join(rng.choice(ROUGH) for _ in range(n)), []


def meta_impl(job):
    text, comment, kvs, body = job
    from csvpath import CsvPath
    from csvpath.util.metadata_parser import MetadataParser

    class Inst:
        metadata = None
    out = {"raised": False, "fields": [], "path": "", "comment": ""}
    mp = MetadataParser(CsvPath())
    p2, cm = mp.extract_csvpath_and_comment(text)
    out["path"], out["comment"] = p2, cm
    inst = Inst()
    try:
        if len(cm.strip()) > 0:
            mp.collect_metadata(inst, cm.strip())
        out["fields"] = list((inst.metadata or {}).items())
    except Exception as ex:  # noqa
        out["raised"] = True
    return out


def meta_lit(job, o):
    text, comment, kvs, body = job
    fl = listlit(o["fields"], lambda kv: f"({ulit(kv[0])}, {oulit(kv[1])})")
    kl = listlit(kvs, lambda kv: f"({ulit(kv[0])}, {ulit(kv[1])})")
    return f"mkC15M {ulit(text)} {ulit(o['path'])} {ulit(o['comment'])} {'true' if o['raised'] else 'false'} {fl} {kl} {ulit(body)}"


def obs_key(o):
    return (o["vars"], o["scan_count"], o["match_count"], o["is_valid"], o["stopped"], tuple(o["errors"]), tuple(o["printouts"]))


def run(ctx):
    rng = ctx.rng
    quick = ctx.tier == "quick"
    # ---------------- A. the comment parser
    mjobs = []
    for i in range(1500 if quick else 30000):
        comment, kvs = gen_comment(rng)
        pr = gen.gen_prog(rng, f"f{i}.csv", control=True, modes=False)
        body = pr["text"]
        ws = rng.choice(["", " ", "\n", "  \n "])
        form = rng.random()
        if form < 0.85:
            text = "~" + comment + "~" + ws + body
        else:
            text, comment, kvs = body, "", []
        mjobs.append((text.strip(), comment, kvs, body.strip()))
    mres = pmap(ctx, meta_impl, mjobs, chunksize=64)
    bad = coq_bad(ctx, "c15m", "Csv.CsvModel Data.DataModel Meta.MetaModel Harness.C15Cmp", "c15meta",
                  [meta_lit(j, o) for j, o in zip(mjobs, mres)], ["c15_meta_agree", "c15_meta_spec", "c15_meta_agree_d23"], chunk=300)
    m_spec, m_agree = sorted(bad["c15_meta_spec"]), sorted(bad["c15_meta_agree"])
    # a disagreement that the unrepaired parser explains is the repaired defect D23 again: a concrete failing comment
    d23 = [i for i in m_agree if i not in bad["c15_meta_agree_d23"] and mres[i]["raised"]]

    def mcase(i):
        return {"level": "comment-parser", "csvpath": mjobs[i][0], "fields_written": mjobs[i][2], "impl": mres[i]}

    # ---------------- B. relations between real runs
    nprog = 220 if quick else 5000
    progs = []
    for i in range(nprog):
        rows = gen.gen_rows(rng)
        pr = gen.gen_prog(rng, f"c15_{i}.csv", control=True, modes=False, errors=(rng.random() < 0.15))
        progs.append((pr, rows, f"c15_{i}.csv"))
    VARIANTS = [("plain", ""), ("nomatch", "~return-mode: no-matches :~ "), ("keep", "~unmatched-mode: keep :~ "),
                ("norun", "~run-mode: no-run :~ "), ("noprint", "~print-mode: no-default :~ "), ("fields", None),
                ("keepnomatch", "~ unmatched-mode: keep return-mode: no-matches :~ "),
                # the same two, collected into a list the caller supplies: collect(lines=[...]) is what CsvPaths.collect_paths calls
                ("nokeep", "~unmatched-mode: no-keep :~ "), ("nokeep2", "~ return-mode: matches unmatched-mode: no-keep print-mode: default :~ "),
                ("keep_sink", "~unmatched-mode: keep :~ "), ("keepnomatch_sink", "~ unmatched-mode: keep return-mode: no-matches :~ ")]
    jobs, index = [], []
    for pi, (pr, rows, fname) in enumerate(progs):
        for vn, cm in VARIANTS:
            if cm is None:
                c, _ = gen_comment(rng)
                while any(k in c for k in MODEVALS) or re.search(r"\b(id|name)\s*:", c, re.I):
                    c, _ = gen_comment(rng)
                cm = "~" + c + " :~ " if c.strip() else ""
            fn = f"{vn}_{fname}"
            jobs.append({"text": cm + pr["text"].replace(fname, fn), "rows": rows, "fname": fn, "method": 7 if vn.endswith("_sink") else 0, "k": 0,
                         "policy": ["collect", "print"], "capture": True, "log_printer": True})
            index.append((pi, vn))
    res = pmap(ctx, runloop.real_run, jobs, chunksize=8)
    by = {}
    for (pi, vn), j, o in zip(index, jobs, res):
        by.setdefault(pi, {})[vn] = (j, o)
    fails, nontrivial = [], set()
    for pi, d in by.items():
        pr, rows, fname = progs[pi]
        plain = d["plain"][1]
        if any(o["exc"] for _, o in d.values()):
            excs = {vn: o["exc"] for vn, (_, o) in d.items()}
            if len({e for vn, e in excs.items() if vn != "norun"}) != 1:
                fails.append({"kind": "a comment/mode changes whether the run raises", "csvpath": pr["text"], "rows": rows, "exceptions": excs})
            continue
        nonblank = [runloop.idx_of(r) for r in rows if r]
        D, N = plain["ret"], d["nomatch"][1]["ret"]
        if obs_key(plain) != obs_key(d["nomatch"][1]):
            fails.append({"kind": "return-mode changes the run state", "csvpath": pr["text"], "rows": rows,
                          "matches": obs_key(plain), "no-matches": obs_key(d["nomatch"][1])})
        elif set(D) & set(N) or len(D) + len(N) != plain["scan_count"] or sorted(N) != N or not set(N) <= set(nonblank):
            fails.append({"kind": "return-mode no-matches is not the complement of the default among the scanned lines",
                          "csvpath": pr["text"], "rows": rows, "matches": D, "no-matches": N, "scan_count": plain["scan_count"]})
        for vn in ("keep", "keepnomatch"):
            k = d[vn][1]
            base = plain if vn == "keep" else d["nomatch"][1]
            nread = k["records_read"]       # counted at the reader, not inferred from the two outputs
            read = [runloop.idx_of(r) for r in rows[:nread]]
            merged = sorted([x for x in k["ret"] + k["unmatched"] if x >= 0])
            if k["ret"] != base["ret"] or obs_key(k) != obs_key(base):
                fails.append({"kind": "unmatched-mode keep changes the run", "csvpath": d[vn][0]["text"], "rows": rows, "keep": k["ret"], "plain": base["ret"]})
            elif merged != sorted(x for x in read if x >= 0) or k["unmatched"].count(-1) != read.count(-1) or \
                    [x for x in k["unmatched"] if x >= 0] != sorted(x for x in k["unmatched"] if x >= 0):
                fails.append({"kind": "collected + unmatched are not a partition of the records read", "csvpath": d[vn][0]["text"], "rows": rows,
                              "collected": k["ret"], "unmatched": k["unmatched"], "records_read": read})
            ks = d[vn + "_sink"][1]
            if ks["ret"] != k["ret"] or ks["unmatched"] != k["unmatched"] or obs_key(ks) != obs_key(k):
                fails.append({"kind": "collect(lines=<the caller's list>) does not keep the lines and unmatched lines collect() keeps (the partition is lost when a CsvPaths supplies the list)",
                              "csvpath": d[vn][0]["text"], "rows": rows, "collect": {"lines": k["ret"], "unmatched": k["unmatched"]},
                              "collect_into_given_list": {"lines": ks["ret"], "unmatched": ks["unmatched"]}})
        for vn in ("nokeep", "nokeep2"):
            k = d[vn][1]
            if k["ret"] != plain["ret"] or obs_key(k) != obs_key(plain) or k["unmatched"] or k["unm_avail"]:
                fails.append({"kind": "unmatched-mode: no-keep does not behave as the default (no unmatched lines are kept, nothing else changes)", "csvpath": d[vn][0]["text"], "rows": rows,
                              "unmatched_available": k["unm_avail"], "unmatched": k["unmatched"], "lines": k["ret"], "plain_lines": plain["ret"]})
        nr = d["norun"][1]
        if nr["exc"] or nr["ret"] or nr["calls"] or nr["scan_count"] or nr["vars"] != "{}" or nr["printouts"]:
            fails.append({"kind": "run-mode no-run did something", "csvpath": d["norun"][0]["text"], "rows": rows, "impl": {k: nr[k] for k in ("exc", "ret", "scan_count", "vars", "printouts")}})
        npn = d["noprint"][1]
        if obs_key(npn) != obs_key(plain) or npn["ret"] != plain["ret"]:
            fails.append({"kind": "print-mode no-default changes more than standard out", "csvpath": d["noprint"][0]["text"], "rows": rows})
        elif npn["printers"] != [x for x in plain["printers"] if x != "StdOutPrinter"] or npn["log_printer_lines"] != plain["log_printer_lines"]:
            fails.append({"kind": "print-mode no-default detached a printer other than the standard-out printer (the caller had attached a LogPrinter and a capturing printer)",
                          "csvpath": d["noprint"][0]["text"], "rows": rows, "printers_default": plain["printers"], "printers_no_default": npn["printers"],
                          "log_printer_lines_default": plain["log_printer_lines"], "log_printer_lines_no_default": npn["log_printer_lines"]})
        else:
            out_plain = [l for l in plain["stdout"].split("\n") if l.strip()]
            out_np = [l for l in npn["stdout"].split("\n") if l.strip()]
            want = [l for p in plain["printouts"] for l in p.split("\n") if l.strip()]
            if out_np or out_plain != want:
                fails.append({"kind": "standard-out printing does not follow print-mode", "csvpath": d["noprint"][0]["text"], "rows": rows,
                              "stdout_default": out_plain[:6], "stdout_no_default": out_np[:6], "printer_lines": want[:6]})
        fd = d["fields"][1]
        if fd["ret"] != plain["ret"] or obs_key(fd) != obs_key(plain) or fd["scanner"] != plain["scanner"]:
            fails.append({"kind": "a comment without mode settings changes the run", "csvpath": d["fields"][0]["text"], "rows": rows,
                          "with_comment": fd["ret"], "without": plain["ret"]})
        if D and N:
            nontrivial.add(pr["text"] + repr(rows))
    pairs = [(j, o) for j, o in zip(jobs, res) if not o["exc"]]
    bad_f, bad_t, skipped = runloop.coq_compare(ctx, "c15r", pairs)
    corr_bad = bad_f if len(bad_f) <= len(bad_t) else bad_t

    # the same modes when the csvpath is a member of a named-paths group (CsvPaths presets some settings before the comment is read: the comment wins)
    import groups
    gjobs = []
    for gi, (cm, want) in enumerate([("~ return-mode: no-matches ~ ", "r1 r3 r4".split()), ("~ id: m return-mode: no-matches unmatched-mode: keep ~ ", "r1 r3 r4".split()),
                                     ("~ return-mode: matches ~ ", "r2 r5".split()), ("", "r2 r5".split()), ("~ run-mode: no-run ~ ", [])]):
        for method in ("collect_paths", "collect_by_line"):
            gjobs.append({"id": 300000 + len(gjobs), "want": want, "cm": cm, "files": {"f": [["id", "a"], ["r1", "1"], ["r2", "7"], ["r3", "2"], ["r4", "3"], ["r5", "9"]]},
                          "groups": {"g": [cm + '$[1*][ gt(#a, 5) ]']}, "runs": [{"method": method, "pathsname": "g", "filename": "f", "new_instance": True}]})
    gres = pmap(ctx, groups.run_history, gjobs, chunksize=2)
    for j, r in zip(gjobs, gres):
        o = (r.get("runs") or [None])[0]
        got = None if (r["setup_exc"] or not o or o["exc"] or not o["members"] or not isinstance(o["members"][0]["lines"], list)) else [l[0] for l in o["members"][0]["lines"]]
        if got != j["want"]:
            fails.append({"kind": "a mode setting in the comment of a named-paths member has no effect (or another effect than for the csvpath run alone)", "csvpath": j["groups"]["g"][0],
                          "rows": j["files"]["f"], "method": j["runs"][0]["method"], "member_lines": got, "expected": j["want"], "exc": r["setup_exc"] or (o and o["exc"])})
    if fails:
        ctx.violation("relations", {"what": fails[0]["kind"], "case": fails[0], "more": fails[1:5]})
    if d23:
        ctx.violation("comment-raises", {"what": "a comment whose key has no value before the next colon makes the parse raise (defect D23, listed fixed, is back; witness key_without_value_refuted)",
                                         "case": mcase(d23[0]), "cases": len(d23)})
    if m_spec:
        ctx.violation("fields", {"what": "the comment changes the csvpath, or a field written 'key: value' is not available in the metadata", "case": mcase(m_spec[0]),
                                 "more": [mcase(i) for i in m_spec[1:4]]})
    if not fails and not m_spec and (m_agree or corr_bad):
        which = "Meta/MetaModel.v vs MetadataParser (Harness/C15Cmp.c15_meta_agree)" if m_agree else "Run/RunLoop.v vs CsvPath.next/collect (Harness/RunCmp.run_agree)"
        case = mcase(m_agree[0]) if m_agree else {"job": pairs[sorted(corr_bad)[0]][0], "impl": pairs[sorted(corr_bad)[0]][1]}
        ctx.violation("correspondence", {"what": f"correspondence {which} no longer checks; theorems C15_* are about the model only", "disagreeing_case": case}, no_input=True)
    ctx.coverage.update({
        "evaluations": len(mjobs) + len(jobs), "distinct_nontrivial": len(nontrivial) + len({j[0] for j in mjobs if j[2]}),
        "rule": "A: csvpath strings = optional outer comment (rendered 'key: value' fields incl. mode settings, free text in front; or arbitrary text over an alphabet of word "
                "characters, blanks, ':' and punctuation except ~ [ ] $) + generated csvpath; real extract_csvpath_and_comment/collect_metadata vs model and vs the property. "
                "B: generated csvpaths (stop/skip/advance/last/print/fail, all scan shapes) x generated files, each run 7 ways: plain, return-mode no-matches, unmatched-mode keep, "
                "keep+no-matches, run-mode no-run, print-mode no-default (stdout captured at fd level), random comment without modes. Non-trivial = comments with >=1 field (distinct) "
                "+ distinct programs where both the default and the no-matches run return lines.",
        "samples": [mcase(0), {"csvpath": jobs[1]["text"], "rows": jobs[1]["rows"]}],
        "comment_cases": len(mjobs), "comment_cases_with_fields": sum(1 for j in mjobs if j[2]), "comment_parser_raised": sum(1 for o in mres if o["raised"]),
        "programs": len(progs), "real_runs": len(jobs), "relational_failures": len(fails),
        "traces_validated_against_impl": len(pairs) - skipped + len(mjobs) - len(m_agree),
        "correspondence": f"comment parser model == implementation on {len(mjobs) - len(m_agree)}/{len(mjobs)}; run-loop model == implementation on {len(pairs) - skipped - len(corr_bad)}/{len(pairs) - skipped} runs",
    })


def replay(ctx, payload):
    c = payload.get("case") or payload.get("disagreeing_case")
    if c.get("level") == "comment-parser":
        o = meta_impl((c["csvpath"], "", [], ""))
        print("csvpath :", repr(c["csvpath"])); print("impl now:", o)
        return 0
    text = c.get("csvpath") or c["job"]["text"]
    rows = c.get("rows") or c["job"]["rows"]
    o = runloop.real_run({"text": text, "rows": rows, "fname": text.split("[")[0].split("$")[-1], "method": 0, "k": 0, "policy": ["collect", "print"]})
    print(text); print("impl now:", o.get("exc") or (o["ret"], o["unmatched"], obs_key(o)))
    return 0
