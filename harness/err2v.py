"""err2v — a fail-closed translator for the error-policy decision code of csvpath/util/error.py:
ErrorCommsManager.do_i_raise / do_i_print / do_i_stop / do_i_fail (pure) and ErrorHandler._handle_if (effects in order).

The pure functions become Gallina over the Python-value semantics of coq/Scan/PySem.v; _handle_if becomes the list of the
effects it performs, in order (Match/ErrSrc.v, generated).  Logging calls are skipped (they touch nothing a property observes).
Anything outside the small subset raises py2v.Unsupported: the caller reports that the tie no longer checks."""
import ast

import py2v
from py2v import Unsupported, attr_chain

CODES = {"RAISE": 0, "COLLECT": 1, "STOP": 2, "FAIL": 3, "PRINT": 4, "QUIET": 5}
VALUES = {"RAISE": "raise", "COLLECT": "collect", "STOP": "stop", "FAIL": "fail", "PRINT": "print", "QUIET": "quiet"}
OVERRIDE = {"do_i_raise": "raise_validation_errors", "do_i_print": "print_validation_errors", "do_i_stop": "stop_on_validation_errors", "do_i_fail": "fail_on_validation_errors"}
OV_PARAM = {"do_i_raise": "ov_raise", "do_i_print": "ov_print", "do_i_stop": "ov_stop", "do_i_fail": "ov_fail"}


class Tr:
    """expression translator: py2v.expr plus the names of this file"""

    def __init__(self, attrs, calls=False):
        self.attrs = attrs      # attribute chain -> Gallina term
        self.calls = calls

    def expr(self, n):
        if isinstance(n, ast.Attribute):
            ch = attr_chain(n)
            if ch in self.attrs:
                return self.attrs[ch]
            parts = ch.split(".")
            if len(parts) == 3 and parts[0] == "OnError" and parts[2] == "value" and parts[1] in CODES:
                return f"(PInt {CODES[parts[1]]})"
            raise Unsupported("attribute " + ch)
        if isinstance(n, ast.Name):
            if n.id in self.attrs:
                return self.attrs[n.id]
            raise Unsupported("unknown name " + n.id)
        if isinstance(n, ast.Call):
            if self.calls and isinstance(n.func, ast.Attribute) and not n.args and not n.keywords:
                ch = attr_chain(n.func)
                if ch.startswith("self._ecm.") and ch.split(".")[-1] in OVERRIDE:
                    f = ch.split(".")[-1]
                    return f"({f}_src csvpath {OV_PARAM[f]} policy)"
            raise Unsupported("call " + ast.unparse(n)[:60])
        if isinstance(n, ast.Constant):
            return py2v.expr(n, set())
        if isinstance(n, ast.UnaryOp) and isinstance(n.op, ast.Not):
            return f"(p_not {self.expr(n.operand)})"
        if isinstance(n, ast.BoolOp):
            f = "p_and" if isinstance(n.op, ast.And) else "p_or"
            out = self.expr(n.values[-1])
            for v in reversed(n.values[:-1]):
                out = f"({f} {self.expr(v)} (fun _ : unit => {out}))"
            return out
        if isinstance(n, ast.Compare) and len(n.ops) == 1:
            a, op, b = n.left, n.ops[0], n.comparators[0]
            if isinstance(op, (ast.Is, ast.IsNot)) and isinstance(b, ast.Constant) and b.value is None:
                return f"({'p_is_none' if isinstance(op, ast.Is) else 'p_is_not_none'} {self.expr(a)})"
            if isinstance(op, ast.Is) and isinstance(b, ast.Constant) and b.value is True:
                return f"(p_is_true {self.expr(a)})"
            if isinstance(op, ast.In):
                return f"(p_in {self.expr(a)} {self.expr(b)})"
            if isinstance(op, ast.NotIn):
                return f"(p_not (p_in {self.expr(a)} {self.expr(b)}))"
            raise Unsupported("comparison " + ast.unparse(n))
        raise Unsupported("expression " + type(n).__name__)


def strip_doc(body):
    body = list(body)
    if body and isinstance(body[0], ast.Expr) and isinstance(body[0].value, ast.Constant) and isinstance(body[0].value.value, str):
        body = body[1:]
    return body


def pure_block(stmts, tr, ind):
    pad = "  " * ind
    if not stmts:
        return pad + "PNone"
    s, rest = stmts[0], stmts[1:]
    if isinstance(s, ast.Return):
        return pad + (tr.expr(s.value) if s.value is not None else "PNone")
    if isinstance(s, ast.If):
        b = pure_block(s.body + ([] if py2v.returns(s.body) else rest), tr, ind + 1)
        o = pure_block(s.orelse + ([] if (s.orelse and py2v.returns(s.orelse)) else rest), tr, ind + 1)
        return pad + f"p_if {tr.expr(s.test)}\n{pad} (fun _ : unit =>\n{b})\n{pad} (fun _ : unit =>\n{o})"
    raise Unsupported("statement " + type(s).__name__)


def do_i(cls, name):
    fn = next((f for f in cls.body if isinstance(f, ast.FunctionDef) and f.name == name), None)
    if fn is None or [x.arg for x in fn.args.args] != ["self"] or fn.args.kwonlyargs or fn.args.vararg or fn.args.kwarg:
        raise Unsupported("method " + name)
    tr = Tr({"self._csvpath": "csvpath", "self._csvpath." + OVERRIDE[name]: "ov", "self._policy": "policy"})
    return f"Definition {name}_src (csvpath ov policy : pyv) : pyv :=\n" + pure_block(strip_doc(fn.body), tr, 1) + ".\n"


def is_logging(call):
    return isinstance(call, ast.Call) and isinstance(call.func, ast.Attribute) and "logger" in attr_chain(call.func).split(".") \
        and call.func.attr in ("debug", "info", "warning", "error")


def eff_stmt(s, tr, ind):
    """one statement as the list of its effects (None: nothing a property observes)"""
    pad = "  " * ind
    if isinstance(s, ast.Expr) and isinstance(s.value, ast.Constant):
        return None
    if isinstance(s, ast.Expr) and is_logging(s.value):
        return None
    if isinstance(s, ast.Expr) and isinstance(s.value, ast.Call) and isinstance(s.value.func, ast.Attribute):
        ch = attr_chain(s.value.func)
        if ch == "self._error_collector.collect_error" and [ast.unparse(a) for a in s.value.args] == ["error"] and not s.value.keywords:
            return pad + "[EvCollect]"
        if ch == "self._csvpath.print" and len(s.value.args) == 1 and not s.value.keywords:
            return pad + "[EvPrint]"
        raise Unsupported("call statement " + ch)
    if isinstance(s, ast.Assign) and len(s.targets) == 1 and isinstance(s.targets[0], ast.Attribute):
        t, v = attr_chain(s.targets[0]), ast.unparse(s.value)
        if (t, v) == ("self._csvpath.stopped", "True"):
            return pad + "[EvStop]"
        if (t, v) == ("self._csvpath.is_valid", "False"):
            return pad + "[EvFail]"
        raise Unsupported(f"assignment {t} = {v}")
    if isinstance(s, ast.Raise):
        if isinstance(s.exc, ast.Call) and isinstance(s.exc.func, ast.Name) and s.exc.func.id in ("MatchException", "InputException"):
            return pad + ("[EvRaise]" if s.exc.func.id == "MatchException" else "[EvInputErr]")
        raise Unsupported("raise " + ast.unparse(s)[:60])
    if isinstance(s, ast.If):
        return pad + f"p_ifl {tr.expr(s.test)}\n{pad} (fun _ : unit =>\n{eff_block(s.body, tr, ind + 1)})\n{pad} (fun _ : unit =>\n{eff_block(s.orelse, tr, ind + 1)})"
    raise Unsupported("statement " + type(s).__name__)


def eff_block(stmts, tr, ind):
    """statements in sequence: ev_seq a (fun _ => b) performs b unless a ended by raising"""
    pad = "  " * ind
    parts = [x for x in (eff_stmt(s, tr, ind) for s in stmts) if x is not None]
    if not parts:
        return pad + "[]"
    out = parts[-1]
    for x in reversed(parts[:-1]):
        out = pad + f"ev_seq (\n{x})\n{pad} (fun _ : unit =>\n{out})"
    return out


def expect(node, text, what):
    got = ast.unparse(node)
    if got != text:
        raise Unsupported(f"{what}: expected `{text}`, found `{got[:120]}`")


def translate(repo):
    import os
    cfg = ast.parse(open(os.path.join(repo, "csvpath", "util", "config.py"), encoding="utf-8").read())
    on = next((c for c in cfg.body if isinstance(c, ast.ClassDef) and c.name == "OnError"), None)
    if on is None:
        raise Unsupported("no class OnError")
    vals = {s.targets[0].id: s.value.value for s in on.body if isinstance(s, ast.Assign) and isinstance(s.value, ast.Constant)}
    if vals != VALUES:
        raise Unsupported("OnError values " + repr(vals))
    tree = ast.parse(open(os.path.join(repo, "csvpath", "util", "error.py"), encoding="utf-8").read())
    ecm = next((c for c in tree.body if isinstance(c, ast.ClassDef) and c.name == "ErrorCommsManager"), None)
    eh = next((c for c in tree.body if isinstance(c, ast.ClassDef) and c.name == "ErrorHandler"), None)
    if ecm is None or eh is None:
        raise Unsupported("classes of error.py")
    # the manager reads the csvpath's own policy, the handler passes the same one and builds the manager over the same csvpath
    init = next(f for f in ecm.body if isinstance(f, ast.FunctionDef) and f.name == "__init__")
    body = strip_doc(init.body)
    expect(body[0], "self._csvpath = csvpath", "ErrorCommsManager.__init__")
    expect(body[2].body[0], "self._policy = csvpath.config.csvpath_errors_policy", "ErrorCommsManager.__init__")
    expect(body[2].test, "csvpath", "ErrorCommsManager.__init__")
    hinit = next(f for f in eh.body if isinstance(f, ast.FunctionDef) and f.name == "__init__")
    if "self._ecm = ErrorCommsManager(csvpath=csvpath, csvpaths=csvpaths)" not in [ast.unparse(s) for s in hinit.body] or \
            "self._csvpath = csvpath" not in [ast.unparse(s) for s in hinit.body]:
        raise Unsupported("ErrorHandler.__init__")
    he = next(f for f in eh.body if isinstance(f, ast.FunctionDef) and f.name == "handle_error")
    hb = strip_doc(he.body)
    expect(hb[0], "error = self.build(ex)", "ErrorHandler.handle_error")
    expect(hb[1].test, "self._csvpath", "ErrorHandler.handle_error")
    expect(hb[1].body[0], "policy = self._csvpath.config.csvpath_errors_policy", "ErrorHandler.handle_error")
    expect(hb[2], "self._handle_if(policy=policy, error=error)", "ErrorHandler.handle_error")
    if len(hb) != 3:
        raise Unsupported("ErrorHandler.handle_error has more statements")
    out = ["(** GENERATED by harness/err2v.py from csvpath/util/error.py (ErrorCommsManager.do_i_*, ErrorHandler._handle_if) — do not edit.",
           "    csvpath stands for self._csvpath (an object or None), ov for the csvpath's own validation-mode override (None = not mentioned),",
           "    policy for the list of the configured policy's words, as codes: raise 0, collect 1, stop 2, fail 3, print 4, quiet 5.",
           "    _handle_if is the list of the effects it performs, in order; logging calls are skipped. *)",
           "From Coq Require Import ZArith List Bool.", "From V Require Import Scan.PySem Match.ErrEv.", "Import ListNotations.", "Open Scope Z_scope.", ""]
    for name in ("do_i_raise", "do_i_print", "do_i_stop", "do_i_fail"):
        out.append(do_i(ecm, name))
    hf = next((f for f in eh.body if isinstance(f, ast.FunctionDef) and f.name == "_handle_if"), None)
    if hf is None or [x.arg for x in hf.args.args] != ["self"] or [x.arg for x in hf.args.kwonlyargs] != ["policy", "error"]:
        raise Unsupported("signature of _handle_if")
    tr = Tr({"self._csvpath": "csvpath", "policy": "policy", "error": "error"}, calls=True)
    out.append("Definition handle_if_src (csvpath error policy ov_raise ov_print ov_stop ov_fail : pyv) : list ev :=\n" + eff_block(strip_doc(hf.body), tr, 1) + ".\n")
    return "\n".join(out)


if __name__ == "__main__":
    import sys
    print(translate(sys.argv[1]))
