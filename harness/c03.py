"""C03 — variables and run counters end up with the values the csvpath assigns.

Deciding method: Coq theorems (Props/C03.v): match_count is the number of lines voted for (any
matcher that does not touch the counters), the state after a line is the left-to-right fold of
the components' effects (CORE), the counter functions report the loop's counters, push/pop are a
stack.  Tie to /repo: the same typed CORE csvpaths as C01 (every program writes variables: plain
assignments of numeric/string expressions incl. earlier variables of the same line, push/pop
stacks fed with counters and values, when/do, the bookkeeping functions tally/first/every/
counter/sum/subtotal, count(), tracking-keyed assignments and reads; some programs read no
numeric cell and scan from line 0) are run by the real CsvPath; the final plain variables, every
stack (a per-line history), every dictionary (tracking-keyed) variable in insertion order,
scan_count and match_count are compared with the CORE model by the Coq kernel."""
import c01
import core
from common import known_open

SIG_D1 = "lt-is-le"
SIG_D4 = "pop-drops-two"


def run(ctx):
    jobs, res, bad, preds = c01.run_cases(ctx, "c03")
    # preds follow c01.VECTORS = (lt, strcmp, pop) switch vectors; a disagreement with the clean model is attributed to the
    # smallest explaining vector, preferring the open finding's switch (lt) when it alone explains
    clean_bad = sorted(bad[preds[0]])
    explain = {}
    for i in clean_bad:
        vs = [v for v, p in zip(c01.VECTORS[1:], preds[1:]) if i not in bad[p]]
        explain[i] = min(vs, key=lambda v: (sum(v), not v[0])) if vs else None
    d1 = [i for i in clean_bad if explain[i] and explain[i][0]]
    d2 = [i for i in clean_bad if explain[i] and explain[i][1]]
    d4 = [i for i in clean_bad if explain[i] and explain[i][2]]
    other = [i for i in clean_bad if explain[i] is None]
    if d4:
        c = core.describe(jobs[d4[0]], res[d4[0]])
        if known_open(ctx.pid, SIG_D4):
            ctx.known(f"{SIG_D4}: {c['csvpath']} ({len(d4)} cases)")
        else:
            ctx.violation("pop", {"what": "pop() removes two entries from the stack instead of one (model agrees only with deviation switch pop on; witness C03_pop_drops_two_refuted)", "case": c, "cases": len(d4)})
    if d2:
        ctx.violation("string-compare", {"what": "a when/do guarded by above/below compares numbers as strings (C01's defect D2) and so assigns on the wrong lines", "case": core.describe(jobs[d2[0]], res[d2[0]]), "cases": len(d2)})
    if d1:
        c = core.describe(jobs[d1[0]], res[d1[0]])
        if known_open(ctx.pid, SIG_D1):
            ctx.known(f"{SIG_D1}: lt()/below() answer <=, so match_count and guarded assignments differ on equal operands — e.g. {c['csvpath']} ({len(d1)} cases this run)")
        else:
            ctx.violation("lt-is-le", {"what": "lt/below/before answer <=: match_count and assignments guarded by them are wrong on equal operands", "case": c, "cases": len(d1)})
    if other:
        ctx.violation("state", {"what": "final variables / stacks / scan_count / match_count differ from the values the csvpath assigns line by line (CORE model)", "case": core.describe(jobs[other[0]], res[other[0]]),
                                "more": [core.describe(jobs[i], res[i]) for i in other[1:4]], "cases": len(other)})
    nontriv = {o["text"] + repr(j[1]) for j, o in zip(jobs, res) if not o["exc"] and any(isinstance(v, list) and len(set(map(repr, v))) >= 2 for v in o["vars"].values())}
    # the translator tie: Equality's assignment decision as written in the source of the tree under test, regenerated and (when the text
    # differs from the checked-in Match/AsgSrc.v) re-proved equal to the model
    import srctie
    tie = srctie.check(ctx, "assign")
    if tie["status"] in ("untranslatable", "unproved") and not ctx.violations:
        ctx.violation("source-tie", {"what": "the translation of Equality._do_assignment_new_impl / _latch_and_onchange / _set_variable_if from csvpath/matching/productions/equality.py is no longer "
                                             "proved equal to the model: theorem do_assignment_src_eq (C14_source; C03_assign_q_step and C03_assign_qk_step rest on the same decision function) does not check against the source of this tree; "
                                             "the generated cases of this run found no input on which the property fails",
                                     "theorem": "do_assignment_src_eq (C14_source; C03_assign_q_step and C03_assign_qk_step rest on the same decision function)", "tie": tie}, no_input=True)
    ctx.coverage.update({
        "evaluations": len(jobs), "distinct_nontrivial": len(nontriv),
        "rule": "the typed CORE generator of C01 (see its rule): 30% of components are tally(#h)/first.n(#h)/every.n(#h,k)/counter.n(k)/sum.n(e)/subtotal.n(#h,e)/@d.key = e (also as when/do actions), count() and @d.key "
                "appear inside expressions, 20% of programs read no numeric cell and scan from line 0 over files whose header cells recur in later rows; programs assign numeric and string expressions to variables (also reading variables written earlier on the same line), push "
                "counters/values on stacks, pop them, guard assignments with when/do; compared: final plain variables (value and Python type int/float/str/None), every stack in order, "
                "scan_count, match_count. Non-trivial = some stack received >= 2 different values.",
        "samples": [core.describe(jobs[1], res[1])],
        "programs_writing_variables": sum(1 for o in res if not o["exc"] and o["vars"]),
        "programs_with_dictionary_variables": sum(1 for o in res if not o["exc"] and any(isinstance(v, dict) for v in o["vars"].values())),
        "programs_scanning_line_0": sum(1 for j in jobs if j[0].get("textonly")),
        "traces_validated_against_impl": len(jobs) - len(clean_bad),
        "correspondence": f"clean CORE model == implementation on {len(jobs) - len(clean_bad)}/{len(jobs)} runs; explained by pop: {len(d4)}, strcmp: {len(d2)}, lt: {len(d1)}, unexplained: {len(other)}",
    })
    ctx.coverage["source_tie"] = {"status": tie["status"], "detail": tie["detail"][:400]}


def replay(ctx, payload):
    print(payload.get("case"))
    return 0
