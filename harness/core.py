"""Typed generator of CORE csvpaths (see coq/Match/Core.v) with their Coq AST, the real run, and the
case literal shared by C01 and C03.  Columns: 0 id, 1 n, 2 m (integer text, always present),
3 t, 4 u (non-empty words, always present), 5 x (optional: absent in short rows, or empty)."""
import json
import os

import gen
from common import Quiet, blit, listlit, optlit, ulit

HDR = ["id", "n", "m", "t", "u", "x"]
NUMS = [0, 1, 2, 3, 5, 9, 10, 12, 100, -3, 7, 11]
WORDS = ["abc", "b", "x y", "ABC", "Q", "zz", "Ab", "q"]
XS = ["z", "q", "", " ", "zz"]
SCANS = ["1*", "1*", "1*", "2*", "1-4", "1+3+5", "2-6", "1-2+4"]
OPS = {"gt": "Gt", "gte": "Gte", "lt": "Lt", "lte": "Lte", "above": "Gt", "below": "Lt"}


def z(n):
    return str(n) if n >= 0 else f"({n})"


class G:
    def __init__(self, rng, aggs=True, textonly=False):
        self.rng = rng
        self.aggs = aggs
        self.textonly = textonly      # no numeric reading of header cells: the program may also scan line 0 (the header row)
        self.nvars = []      # (id, kind) assigned unconditionally earlier in the component list; kind in str|int|float
        self.svars = []
        self.kvars = []      # (id, key, kind): tracking-keyed variables assigned unconditionally earlier
        self.anyvars = []    # (text, id) of every plain variable assigned by an earlier component, conditionally or not
        self.next_var = 1
        self.uses_lt = False

    # numeric expressions: returns (text, coq, kind)
    def nexp(self, d=0, allow_lit=True, allow_var=True):
        r = self.rng
        c = r.random()
        if d >= 2 or c < 0.3:
            k = r.random()
            if k < 0.35 and allow_lit:
                n = r.choice(NUMS)
                return (str(n), f"(NLit {z(n)})", "int")
            if k < 0.7 and not self.textonly:
                i = r.choice([1, 2])
                return (f"#{HDR[i]}", f"(NHdr {i}%nat)", "str")
            if k < 0.8 and self.nvars and allow_var:
                v, kind = r.choice(self.nvars)
                return (f"@v{v}", f"(NVar {v})", kind)
            if k < 0.86 and self.kvars and allow_var:
                v, key, kind = r.choice(self.kvars)
                return (f"@d{v}.{key}", f"(NVarK {v} {ulit(key)})", kind)
            return r.choice([("line_number()", "NLineNo", "int"), ("count_lines()", "NCountLines", "int"), ("count_scans()", "NCountScans", "int"), ("count()", "NCount", "int")])
        if c < 0.45:
            t, q, _ = self.nexp(d + 1, allow_lit=False)
            return (f"int({t})", f"(NInt {q})", "int")
        if c < 0.9:
            f, ctor = r.choice([("add", "NAdd"), ("subtract", "NSub"), ("multiply", "NMul")])
            a, qa, _ = self.nexp(d + 1)
            b, qb, _ = self.nexp(d + 1)
            return (f"{f}({a}, {b})", f"({ctor} {qa} {qb})", "float")
        s, qs = self.sexp(d + 1)
        return (f"length({s})", f"(NLen {qs})", "int")

    def sexp(self, d=0, allow_lit=True):
        r = self.rng
        c = r.random()
        if d >= 2 or c < 0.45:
            k = r.random()
            if k < 0.3 and allow_lit:
                w = r.choice(WORDS)
                return (f'"{w}"', f"(SLit {ulit(w)})")
            if k < 0.85 or not self.svars:
                i = r.choice([3, 4])
                return (f"#{HDR[i]}", f"(SHdr {i}%nat)")
            v = r.choice(self.svars)
            return (f"@s{v}", f"(SVar {v})")
        if c < 0.6:
            s, q = self.sexp(d + 1, allow_lit=False)
            return (f"lower({s})", f"(SLower {q})")
        if c < 0.75:
            s, q = self.sexp(d + 1, allow_lit=False)
            return (f"upper({s})", f"(SUpper {q})")
        a, qa = self.sexp(d + 1)
        b, qb = self.sexp(d + 1)
        return (f"concat({a}, {b})", f"(SConcat {qa} {qb})")

    def bexp(self, d=0, top=False):
        r = self.rng
        c = r.random()
        if d >= 2:
            c = c * 0.8
        if c < 0.3:
            f = r.choice(list(OPS))
            if OPS[f] == "Lt":
                self.uses_lt = True
            a, qa, _ = self.nexp(d + 1)
            b, qb, _ = self.nexp(d + 1)
            if r.random() < 0.3:
                b, qb = a, qa        # equal operands on purpose
            return (f"{f}({a}, {b})", f"(BCmp {OPS[f]} {qa} {qb})")
        if c < 0.36:
            f = r.choice(["gt", "lt", "gte", "lte"])
            if OPS[f] == "Lt":
                self.uses_lt = True
            a, qa = self.sexp(d + 1, allow_lit=False)
            b, qb = self.sexp(d + 1)
            return (f"{f}({a}, {b})", f"(BCmpS {OPS[f]} {qa} {qb})")
        if c < 0.43:
            a, qa, ka = self.nexp(d + 1, allow_var=False)
            b, qb, kb = self.nexp(d + 1, allow_var=False)
            # (a cell is text: equals() reads both sides as numbers when it can, whatever their types; half of the time the cell is converted first)
            if ka == "str" and r.random() < 0.5:
                a, qa = f"int({a})", f"(NInt {qa})"
            if kb == "str" and r.random() < 0.5:
                b, qb = f"int({b})", f"(NInt {qb})"
            return (f"{r.choice(['eq', 'equals'])}({a}, {b})", f"(BEq {qa} {qb})")
        if c < 0.5:
            a, qa, ka = self.nexp(d + 1, allow_lit=False)
            b, qb, kb = self.nexp(d + 1)
            if "float" in (ka, kb) and "str" in (ka, kb) and r.random() < 0.5:      # "15" == 15.0 is False ('15' != '15.0' and "15" != 15.0): modelled; half of the time converted first
                if ka == "str":
                    a, qa = f"int({a})", f"(NInt {qa})"
                else:
                    b, qb = f"int({b})", f"(NInt {qb})"
            return (f"{a} == {b}", f"(BEqEq {qa} {qb})")
        if c < 0.55:
            a, qa = self.sexp(d + 1, allow_lit=False)
            b, qb = self.sexp(d + 1)
            return (f"{a} == {b}", f"(BEqEqS {qa} {qb})")
        if c < 0.6:
            x, qx, _ = self.nexp(d + 1)
            a, qa, _ = self.nexp(d + 1)
            b, qb, _ = self.nexp(d + 1)
            return (f"between({x}, {a}, {b})", f"(BBetween {qx} {qa} {qb})")
        if c < 0.64 and self.anyvars:
            # a bare variable as a condition: true when it holds anything but None (0, 0.0 and "" exist)
            t, v = r.choice(self.anyvars)
            return (t, f"(BVarSet {v})")
        if c < 0.655 and not self.textonly:
            # all() / missing(): every header has a value on the line (as many cells as headers, none blank) / not so
            return r.choice([("all()", f"(BAllCells {len(HDR)}%nat)"), ("missing()", f"(BNot (BAllCells {len(HDR)}%nat))")])
        if c < 0.66:
            # empty() with several arguments: true only when every one of them is empty
            cols = r.sample([5, 5, 3, 4], r.choice([2, 3]))
            q = f"(BEmpty {cols[-1]}%nat)"
            for i in reversed(cols[:-1]):
                q = f"(BAnd (BEmpty {i}%nat) {q})"
            return ("empty(" + ", ".join(f"#{HDR[i]}" for i in cols) + ")", q)
        if c < 0.72:
            i = r.choice([5, 5, 3])
            k = r.choice(["exists", "empty", "bare"])
            return {"exists": (f"exists(#{HDR[i]})", f"(BExists {i}%nat)"), "empty": (f"empty(#{HDR[i]})", f"(BEmpty {i}%nat)"), "bare": (f"#{HDR[i]}", f"(BBare {i}%nat)")}[k]
        if c < 0.78:
            s, qs = self.sexp(d + 1, allow_lit=False)
            opts = r.sample(WORDS, r.choice([1, 2, 3]))
            sep = r.choice(["|", "|", " | ", "| ", " |"])      # blanks around the pipes: each option is trimmed
            text = sep.join(opts)
            return (f'in({s}, "{text}")', f"(BIn {qs} {listlit(text.split('|'), ulit)})")
        if c < 0.83:
            s, qs = self.sexp(d + 1, allow_lit=False)
            p = r.choice(["a", "A", "x", "z", "ab", "Q"])
            return (f'starts_with({s}, "{p}")', f"(BStarts {qs} {ulit(p)})")
        if c < 0.88:
            b, qb = self.bexp(d + 1)
            return (f"not({b})", f"(BNot {qb})")
        if c < 0.93:
            a, qa = self.bexp(d + 1)
            b, qb = self.bexp(d + 1)
            if r.random() < 0.35:      # and() / or() take any number of arguments, evaluated left to right
                x, qx = self.bexp(d + 1)
                return (f"and({a}, {b}, {x})", f"(BAnd {qa} (BAnd {qb} {qx}))")
            return (f"and({a}, {b})", f"(BAnd {qa} {qb})")
        if c < 0.98:
            a, qa = self.bexp(d + 1)
            b, qb = self.bexp(d + 1)
            if r.random() < 0.35:
                x, qx = self.bexp(d + 1)
                return (f"or({a}, {b}, {x})", f"(BOr {qa} (BOr {qb} {qx}))")
            return (f"or({a}, {b})", f"(BOr {qa} {qb})")
        return r.choice([("yes()", "BYes"), ("no()", "BNo")])

    def action(self, conditional):
        r = self.rng
        c = r.random()
        if c < 0.35:
            e, qe, kind = self.nexp(1)
            if e == "count()":      # "@x = count()" implies onmatch (look-ahead over the other components): outside CORE
                e, qe = "int(count())", "(NInt NCount)"
            v = self.next_var
            self.next_var += 1
            if not conditional:
                self.pending = ("n", v, kind)
            self.pending_any = (f"@v{v}", v)
            return (f"@v{v} = {e}", f"(AssignN {v} {qe})")
        if c < 0.5:
            e, qe = self.sexp(1)
            v = self.next_var
            self.next_var += 1
            if not conditional:
                self.pending = ("s", v, None)
            self.pending_any = (f"@s{v}", v)
            return (f"@s{v} = {e}", f"(AssignS {v} {qe})")
        if c < 0.75:
            e, qe, _ = self.nexp(1)
            if r.random() < 0.3:      # push_distinct(): stacks 5 and 6 are written by nothing else
                k = r.choice([5, 6])
                return (f'push_distinct("k{k}", {e})', f"(PushD {k} {qe})")
            k = r.choice([1, 2])
            return (f'push("k{k}", {e})', f"(PushN {k} {qe})")
        if c < 0.88:
            e, qe = self.sexp(1)
            k = r.choice([3, 4])
            return (f'push("k{k}", {e})', f"(PushS {k} {qe})")
        v = self.next_var
        self.next_var += 1
        k = r.choice([1, 2, 3, 4])
        self.pending_any = (f"@p{v}", v)
        return (f'@p{v} = pop("k{k}")', f"(Pop {v} {k})")

    def agg(self, conditional):
        """a bookkeeping function or a tracking-keyed assignment: (text, coq agg term)"""
        r = self.rng
        v = self.next_var
        self.next_var += 1
        h = r.choice([3, 4])
        k = r.random()
        if k < 0.06 and getattr(self, "AND", False) and not self.textonly:
            # a qualified assignment (no onmatch): written and voted as the assignment table of C14 says; AND mode only
            names = r.sample(["latch", "onchange", "increase", "decrease", "notnone"], r.choice([1, 1, 2]))
            if "increase" in names and "decrease" in names:
                names.remove("decrease")
            if r.random() < 0.2:
                names.append("nocontrib")
            if "increase" in names or "decrease" in names or r.random() < 0.5:
                i = r.choice([1, 2])
                e, qe = f"int(#{HDR[i]})", f"(NInt (NHdr {i}%nat))"
            else:
                i = r.choice([3, 4, 5])
                e, qe = f"#{HDR[i]}", f"(NHdr {i}%nat)"
            flag = lambda n: "true" if n in names else "false"
            qs = f"(Assign.mkQ false {flag('latch')} {flag('onchange')} {flag('increase')} {flag('decrease')} {flag('notnone')} false {flag('nocontrib')})"
            if r.random() < 0.4:      # ... under a tracking key: decided over, and written to, the value held under that key
                key = r.choice(["a", "b", "tot"])
                return (f"@d{v}.{key}." + ".".join(names) + f" = {e}", f"(AssignQK {qs} {v} {ulit(key)} {qe})")
            return (f"@v{v}." + ".".join(names) + f" = {e}", f"(AssignQ {qs} {v} {qe})")
        if k < 0.07 and not conditional:
            # tally() with two arguments: one store per argument (skipped for a blank value) and one under the values joined by '|';
            # the second argument is the optional column x (absent in short rows, sometimes empty)
            return (f"tally(#{HDR[h]}, #x)", ("MULTI", [f"(CAgg (TallyS {h}%nat))", "(CAgg (TallyS 5%nat))", f"(CAgg (TallyC {h}%nat 5%nat))"]))
        if k < 0.18:
            return (f"tally(#{HDR[h]})", f"(Tally {h}%nat)")
        if k < 0.36:
            return (f"first.d{v}(#{HDR[h]})", f"(First {v} {h}%nat)")
        if k < 0.5:
            n = r.choice([2, 3])
            return (f"every.d{v}(#{HDR[h]}, {n})", f"(Every {v} {h}%nat {n})")
        if k < 0.64:
            if not conditional:
                self.pending = ("n", v, "int")
            k2 = r.random()
            if k2 < 0.2 and not conditional:
                # the VALUE of counter(): the count after this click, compared with a number
                n = r.choice([1, 2, 5])
                tgt = n * r.choice([1, 2, 3])
                return (f"counter.v{v}({n}) == {tgt}", f"(CounterEq {v} {n} {tgt})")
            if k2 < 0.35:
                # @v = count.d(cond): counts, on every evaluated line, the lines per answer of cond; not an onmatch assignment
                w = self.next_var
                self.next_var += 1
                b, qb = self.bexp(1)
                while qb.startswith("(BBare") or qb.startswith("(BVarSet"):
                    b, qb = self.bexp(1)
                return (f"@v{v} = count.d{w}({b})", f"(CountIf {v} {w} {qb})")
            if r.random() < 0.4:      # the increment is an expression evaluated on every line
                e, qe, _ = self.nexp(1, allow_lit=False)
                return (f"counter.v{v}({e})", f"(CounterE {v} {qe})")
            n = r.choice([1, 2, 5])
            return (f"counter.v{v}({n})", f"(Counter {v} {n})")
        if k < 0.76:
            e, qe, _ = self.nexp(1, allow_lit=False)
            if not conditional:
                self.pending = ("n", v, "float")
            return (f"sum.v{v}({e})", f"(Sum {v} {qe})")
        if k < 0.88:
            e, qe, _ = self.nexp(1, allow_lit=False)
            return (f"subtotal.d{v}(#{HDR[h]}, {e})", f"(Subtotal {v} {h}%nat {qe})")
        e, qe, kind = self.nexp(1)
        if e == "count()":
            e, qe = "int(count())", "(NInt NCount)"
        key = r.choice(["a", "b", "tot"])
        if not conditional:
            self.pending = ("k", v, (key, kind))
        return (f"@d{v}.{key} = {e}", f"(AssignK {v} {ulit(key)} {qe})")

    def comp(self):
        r = self.rng
        self.pending = None
        self.pending_any = None
        c = r.random()
        if self.aggs and c < 0.3:
            if r.random() < 0.7:
                a, qa = self.agg(False)
                if isinstance(qa, tuple):
                    out = (a, qa)          # one text component, several model components (all vote yes)
                else:
                    out = (a, f"(CAct (Agg {qa}))" if (qa.startswith("(AssignK ") or qa.startswith("(CountIf")) else f"(CAgg {qa})")
            else:
                b, qb = self.bexp(1)
                a, qa = self.agg(True)
                out = (f"{b} -> {a}", f"(CWhen {qb} (Agg {qa}))")
        elif c < 0.5:
            b, qb = self.bexp(0, top=True)
            out = (b, f"(CB {qb})")
        elif c < 0.8:
            a, qa = self.action(False)
            out = (a, f"(CAct {qa})")
        else:
            b, qb = self.bexp(1)
            a, qa = self.action(True)
            out = (f"{b} -> {a}", f"(CWhen {qb} {qa})")
        if self.pending:
            kind, v, k = self.pending
            if kind == "k":
                self.kvars.append((v, k[0], k[1]))
            else:
                (self.nvars if kind == "n" else self.svars).append((v, k) if kind == "n" else v)
        if self.pending_any:
            self.anyvars.append(self.pending_any)
        return out


TEXT_SCANS = ["*", "0*", "0-3", "0+2+5", "*", "0-4", "0*"]


def gen_program(rng, ncomp=None):
    textonly = rng.random() < 0.2
    AND = rng.random() < 0.75
    g = G(rng, textonly=textonly)
    g.AND = AND
    comps = [g.comp() for _ in range(ncomp or rng.choice([1, 2, 2, 3, 3, 4, 5, 6]))]
    if rng.random() < 0.15:
        # a stack that is pushed on every line and popped on some: push ... cond -> pop (same stack)
        k = rng.choice([1, 2])
        saved = (g.nvars, g.svars)
        g.nvars, g.svars, savedk, g.kvars, saveda, g.anyvars = [], [], g.kvars, [], g.anyvars, []      # the push goes to a random earlier position: it must not read a variable assigned after it
        e, qe, _ = g.nexp(1)
        g.nvars, g.svars = saved
        g.kvars = savedk
        g.anyvars = saveda
        b, qb = g.bexp(1)
        v = g.next_var
        g.next_var += 1
        comps.insert(rng.randrange(len(comps) + 1), (f'push("k{k}", {e})', f"(CAct (PushN {k} {qe}))"))
        comps.append((f'{b} -> @p{v} = pop("k{k}")', f"(CWhen {qb} (Pop {v} {k}))"))
    if not textonly and rng.random() < 0.12:
        # mod() over a numeric column (cells may be empty: mod() raises, the component declines the line)
        h, k, r = rng.choice([1, 2]), rng.choice([2, 3, -2, 5]), rng.choice([0, 0, 1, -1])
        hn = HDR[h]
        comps.insert(rng.randrange(len(comps) + 1), rng.choice([(f"mod(#{hn}, {k}) == {r}", f"(CMod false {h}%nat ({k}) ({r}))"),
                                                                 (f"not(above(mod(#{hn}, {k}), {r}))", f"(CMod true {h}%nat ({k}) ({r}))")]))
    cw = rng.random() < 0.1
    scan = rng.choice(TEXT_SCANS if textonly else SCANS)
    return {"comps": comps, "AND": AND, "cw": cw, "scan": scan, "uses_lt": g.uses_lt, "textonly": textonly}


def corner_programs():
    """fixed csvpaths that are in every run, whatever the generator draws: a bare variable holding 0 / 0.0 / "" (it exists),
    the VALUE of counter(), and '@v = count.d(cond)' on lines that do not match"""
    P = lambda comps, scan="1*", AND=True, rows=None: {"comps": comps, "AND": AND, "cw": False, "scan": scan, "uses_lt": False, "textonly": False, "rows": rows}
    # numeric cells left empty: add(), int(), sum() and counter() read an empty cell as 0 (subtract()/multiply() raise, comparisons and
    # equality fall back to text: not in the CORE model, so empty numeric cells appear only here)
    E = [HDR[:], ["r1", "", "5", "a", "b"], ["r2", "3", "", "a", "b"], ["r3", "", "", "q", "b"], ["r4", "2", "2", "a", "q"], ["r5", "10", "", "a", "b"]]
    Z0 = [HDR[:], ["r1", "0", "0", "a", "b"], ["r2", "3", "0", "a", "b"], ["r3", "0", "7", "q", "b"], ["r4", "2", "2", "a", "q"]]
    A = [HDR[:], ["r1", "1", "2", "a", "b", "z"], ["r2", "1", "2", "a", "b", "z", "extra"], ["r3", "1", "2", "a", "b"], ["r4", "1", "2", "a", " ", "z"], ["r5", "0", "2", "a", "b", "0"]]
    # records that lack their numeric cells: a missing cell is None — not above / below anything, 0 to add() and int(), pushed as None
    S = [HDR[:], ["r1", "4"], ["r2"], ["r3", "2", "2", "a", "b"], ["r4", "0"]]
    N3 = [HDR[:], ["r1", "4", "9", "a", "b"], ["r2", "3", "1", "a", "b"], ["r3", "200", "7", "q", "b"], ["r4", "2", "2", "a", "q"]]
    Q = lambda **k: "(Assign.mkQ false %s %s %s %s %s false %s)" % tuple("true" if k.get(n) else "false" for n in ("latch", "onchange", "increase", "decrease", "notnone", "nocontrib"))
    INC = [HDR[:]] + [[f"r{i}", str(v), str(9 - v), "a", "b"] for i, v in enumerate([0, 1, 2, 2, 5, 5, 3, 5, 7], 1)]
    # mod() over cells that are numbers (negative too), empty, blank, text, or not there
    M = [HDR[:], ["r1", "12", "7", "a", "b"], ["r2", "7", "12", "a", "b"], ["r3", "", "4", "a", "b"], ["r4", "-3", "", "a", "b"], ["r5", "  ", "0", "a", "b"], ["r6"],
         ["r7", "0", "-4", "a", "b"], ["r8", "abc", "9", "a", "b"], ["r9", "30"]]
    F0 = [HDR[:], ["r1", "1", "2", "t", "u"], ["r2", "3", "4", "a", "b"], ["r3", "5", "6", "t", "a"], ["r4", "7", "8", "a", "t"]]
    DP = [HDR[:], ["r1", "1", "5", "a", "b"], ["r2", "9", "7", "a", "b"], ["r3", "2", "7", "a", "b"], ["r4", "9", "5", "a", "b"], ["r5", "1", "5", "a", "b"], ["r6", "7", "9", "a", "b"], ["r7", "3", "7", "a", "b"]]
    return [
        # qualified assignments under a tracking key: the latch holds the first value, onchange objects to a repeat, the other key is kept
        P([("@d1.a.latch = int(#n)", f"(CAgg (AssignQK {Q(latch=True)} 1 {ulit('a')} (NInt (NHdr 1))))"), ("@d1.b = int(#m)", f"(CAct (Agg (AssignK 1 {ulit('b')} (NInt (NHdr 2)))))")], rows=INC),
        P([("@d2.tot.onchange = int(#n)", f"(CAgg (AssignQK {Q(onchange=True)} 2 {ulit('tot')} (NInt (NHdr 1))))")], rows=INC),
        P([("@d3.b = int(#m)", f"(CAct (Agg (AssignK 3 {ulit('b')} (NInt (NHdr 2)))))"), ("@d3.a.increase = int(#n)", f"(CAgg (AssignQK {Q(increase=True)} 3 {ulit('a')} (NInt (NHdr 1))))")], rows=INC),
        # push_distinct() asks the STACK whether the value is on it: a value popped off may be pushed again; another component's pushes count
        P([('push_distinct("k5", #m)', "(CAct (PushD 5 (NHdr 2)))"), ('gt(#n, 5) -> @p1 = pop("k5")', "(CWhen (BCmp Gt (NHdr 1) (NLit 5)) (Pop 1 5))")], rows=DP),
        P([('push("k6", #m)', "(CAct (PushN 6 (NHdr 2)))"), ('push_distinct("k6", #n)', "(CAct (PushD 6 (NHdr 1)))"), ('gt(#n, 8) -> @p2 = pop("k6")', "(CWhen (BCmp Gt (NHdr 1) (NLit 8)) (Pop 2 6))")], rows=DP),
        # ... reading the current value creates {key: None} when the variable does not exist yet, whether or not anything is then written
        P([("@d1.a.notnone = #x", f"(CAgg (AssignQK {Q(notnone=True)} 1 {ulit('a')} (NHdr 5)))")], rows=S),
        P([("@d2.tot.increase.nocontrib = int(#m)", f"(CAgg (AssignQK {Q(increase=True, nocontrib=True)} 2 {ulit('tot')} (NInt (NHdr 2))))"), ("@d2.b = 1", f"(CAct (Agg (AssignK 2 {ulit('b')} (NLit 1))))")], rows=Z0),
        # count.d(cond) keeps its two counts under the keys True / False: @d.False reads the count of the lines where the condition failed
        P([("@v5 = count.d6(gt(#n, 2))", "(CAct (Agg (CountIf 5 6 (BCmp Gt (NHdr 1) (NLit 2)))))"), ("@v7 = @d6.False", f"(CAct (AssignN 7 (NVarK 6 {ulit('False')})))"),
           ('push("k1", @d6.True)', f"(CAct (PushN 1 (NVarK 6 {ulit('True')})))"), ('push("k2", @d6.False)', f"(CAct (PushN 2 (NVarK 6 {ulit('False')})))")]),
        # first(): a value first seen on line 0 (the header row, scanned) and seen again later keeps line 0
        P([("first.d1(#t)", "(CAgg (First 1 3%nat))"), ("yes()", "(CB BYes)")], scan="0*", rows=F0),
        P([("mod(#n, 2) == 0", "(CMod false 1%nat 2 0)")], rows=M),
        P([("not(above(mod(#n, 2), 0))", "(CMod true 1%nat 2 0)")], rows=M),
        P([("mod(#m, 3) == 1", "(CMod false 2%nat 3 1)"), ("no()", "(CB BNo)")], rows=M, AND=False),
        P([("mod(#n, -2) == -1", "(CMod false 1%nat (-2) (-1))"), ("@v1 = count_lines()", "(CAct (AssignN 1 NCountLines))")], rows=M),
        P([("mod(#m, 2) == 0", "(CMod false 2%nat 2 0)")], rows=E),
        # qualified assignments (the table of C14 inside a whole csvpath): increase over a column that repeats its running maximum,
        # latch whose first value is 0, onchange, decrease, notnone over a column some records lack
        P([("@v1.increase = int(#n)", f"(CAgg (AssignQ {Q(increase=True)} 1 (NInt (NHdr 1))))")], rows=INC),
        P([("@v1.latch = int(#n)", f"(CAgg (AssignQ {Q(latch=True)} 1 (NInt (NHdr 1))))"), ("@v2.decrease = int(#m)", f"(CAgg (AssignQ {Q(decrease=True)} 2 (NInt (NHdr 2))))")], rows=INC),
        P([("@v1.onchange = int(#n)", f"(CAgg (AssignQ {Q(onchange=True)} 1 (NInt (NHdr 1))))"), ("@v3.notnone.nocontrib = #x", f"(CAgg (AssignQ {Q(notnone=True, nocontrib=True)} 3 (NHdr 5)))")], rows=INC),
        # and() / or() with three arguments: the third one counts
        P([("and(gt(#n, 0), gt(#m, 0), gt(#n, 100))", "(CB (BAnd (BCmp Gt (NHdr 1) (NLit 0)) (BAnd (BCmp Gt (NHdr 2) (NLit 0)) (BCmp Gt (NHdr 1) (NLit 100)))))")], rows=N3),
        P([("or(gt(#n, 1000), gt(#m, 1000), gt(#n, 100))", "(CB (BOr (BCmp Gt (NHdr 1) (NLit 1000)) (BOr (BCmp Gt (NHdr 2) (NLit 1000)) (BCmp Gt (NHdr 1) (NLit 100)))))")], rows=N3),
        P([("lt(#m, 1)", "(CB (BCmp Lt (NHdr 2) (NLit 1)))")], rows=S),
        P([("gt(#m, 1)", "(CB (BCmp Gt (NHdr 2) (NLit 1)))"), ("gte(1, #m)", "(CB (BCmp Gte (NLit 1) (NHdr 2)))")], rows=S, AND=False),
        P([("above(add(#n, #m), 3)", "(CB (BCmp Gt (NAdd (NHdr 1) (NHdr 2)) (NLit 3)))"), ("@v1 = add(#m, 1)", "(CAct (AssignN 1 (NAdd (NHdr 2) (NLit 1))))")], rows=S),
        P([("gt(int(#m), 1)", "(CB (BCmp Gt (NInt (NHdr 2)) (NLit 1)))"), ('push("k1", #m)', "(CAct (PushN 1 (NHdr 2)))")], rows=S, AND=False),
        P([("empty(#m)", "(CB (BEmpty 2%nat))"), ("@v2 = #m", "(CAct (AssignN 2 (NHdr 2)))")], rows=S),
        # all() / missing(): as many cells as headers, none blank — a longer record, a shorter one, a blank cell
        P([("all()", f"(CB (BAllCells {len(HDR)}%nat))")], rows=A),
        P([("missing()", f"(CB (BNot (BAllCells {len(HDR)}%nat)))")], rows=A),
        P([("all()", f"(CB (BAllCells {len(HDR)}%nat))")]),
        # eq() / equals() is the function form of '==': a cell holding 0 equals the number 0
        P([("eq(#n, 0)", "(CB (BEq (NHdr 1) (NLit 0)))")], rows=Z0),
        P([("equals(add(#n, 0), #m)", "(CB (BEq (NAdd (NHdr 1) (NLit 0)) (NHdr 2)))"), ("#n == 0", "(CB (BEqEq (NHdr 1) (NLit 0)))")], rows=Z0, AND=False),
        P([("above(add(#n, #m), 4)", "(CB (BCmp Gt (NAdd (NHdr 1) (NHdr 2)) (NLit 4)))")], rows=E),
        P([("@v1 = add(#n, 1)", "(CAct (AssignN 1 (NAdd (NHdr 1) (NLit 1))))"), ("gt(int(#m), 1)", "(CB (BCmp Gt (NInt (NHdr 2)) (NLit 1)))")], rows=E),
        P([("sum.v2(#n)", "(CAgg (Sum 2 (NHdr 1)))"), ("counter.v3(#m)", "(CAgg (CounterE 3 (NHdr 2)))")], rows=E),
        P([("@v1 = 0", "(CAct (AssignN 1 (NLit 0)))"), ("@v1", "(CB (BVarSet 1))")]),
        P([("@v3 = subtract(#n, #n)", "(CAct (AssignN 3 (NSub (NHdr 1) (NHdr 1))))"), ("@v3", "(CB (BVarSet 3))")]),
        P([("@v1 = 0", "(CAct (AssignN 1 (NLit 0)))"), ("@v1", "(CB (BVarSet 1))"), ("no()", "(CB BNo)")], AND=False),
        P([("counter.v4(1) == 2", "(CAgg (CounterEq 4 1 2))")]),
        P([("counter.v4(5) == 10", "(CAgg (CounterEq 4 5 10))"), ("yes()", "(CB BYes)")], scan="1-4"),
        P([("@v5 = count.d6(gt(#n, 2))", "(CAct (Agg (CountIf 5 6 (BCmp Gt (NHdr 1) (NLit 2)))))"), ("no()", "(CB BNo)")]),
        P([("@v5 = count.d6(gt(#n, 2))", "(CAct (Agg (CountIf 5 6 (BCmp Gt (NHdr 1) (NLit 2)))))"), ("gt(#m, 3)", "(CB (BCmp Gt (NHdr 2) (NLit 3)))")], scan="2*"),
    ]


def empties_ok(prog):
    """an empty numeric cell makes subtract() / multiply() raise: files for csvpaths that use neither may have empty n / m cells
    (add(), int(), sum(), counter() read '' as 0; comparisons, between() and the equalities fall back to text)"""
    text = " ".join(c[0] for c in prog["comps"])
    return not any(f in text for f in ("subtract(", "multiply("))


def gen_rows(rng, echo=False, empties=False):
    """echo: some data rows repeat the header row's own t / u cells (values first seen on line 0 recur);
    empties: some n / m cells are empty"""
    rows = [HDR[:]]
    if echo and rng.random() < 0.25:
        rows = [[]] * rng.choice([1, 2]) + rows       # the file begins with blank lines (only for csvpaths that may scan the header row)
    for i in range(1, rng.choice([1, 2, 4, 6, 8, 10, 12])):
        if rng.random() < 0.12:
            rows.append([])
            continue
        n = rng.choice(NUMS)
        m = n if rng.random() < 0.3 else rng.choice(NUMS)
        row = [f"r{i}", str(n), str(m), rng.choice(WORDS), rng.choice(WORDS)]
        if empties:
            if rng.random() < 0.15:
                row[1] = ""
            if rng.random() < 0.15:
                row[2] = ""
        if echo and rng.random() < 0.4:
            row[rng.choice([3, 4])] = rng.choice(["t", "u"])
        if rng.random() < 0.6:
            row.append(rng.choice(XS))
        rows.append(row)
    if rng.random() < 0.12:
        rows.append([])
    return rows


def text_of(prog, fname):
    mode = []
    if not prog["AND"]:
        mode.append("logic-mode: OR")
    if prog["cw"]:
        mode.append("return-mode: no-matches")
    cm = ("~" + " ".join(mode) + " :~ ") if mode else ""
    return f"{cm}${fname}[{prog['scan']}][ " + " ".join(c[0] for c in prog["comps"]) + " ]"


def val_lit(v):
    if v is None:
        return "VNone"
    if isinstance(v, bool):
        return "VNone"
    if isinstance(v, int):
        return f"(VI {z(v)})"
    if isinstance(v, float):
        if v != int(v):
            raise ValueError("non-integral float %r" % v)
        return f"(VF {z(int(v))})"
    return f"(VS {ulit(v)})"


def impl(job):
    prog, rows, fname = job
    from csvpath import CsvPath
    gen.write_rows(fname, rows)
    out = {"exc": None, "text": text_of(prog, fname)}
    try:
        with Quiet():
            p = CsvPath()
            # errors raise — except where the csvpath uses mod(), whose meaning on a non-numeric cell IS "an error, the component declines"
            p.config.csvpath_errors_policy = ["collect"] if "mod(" in out["text"] else ["raise", "collect"]
            p.parse(out["text"])
            lines = p.collect()
        sc = p.scanner
        out.update({"lines": [list(l) for l in lines], "vars": {k: v for k, v in p.variables.items()}, "scan": int(p.scan_count), "match": int(p.match_count),
                    "scanner": {"these": list(sc.these), "from": sc.from_line, "to": sc.to_line, "all": bool(sc.all_lines)}})
        json.dumps(out["vars"])
    except Exception as ex:  # noqa
        out["exc"] = type(ex).__name__ + ": " + str(ex)[:120]
    finally:
        try:
            os.remove(fname)
        except OSError:
            pass
    return out


def case_lit(job, o):
    prog, rows, _ = job
    flat = []
    for c in prog["comps"]:
        flat += c[1][1] if isinstance(c[1], tuple) else [c[1]]
    comps = listlit(flat, lambda q: q)
    rl = listlit(rows, lambda r: listlit(r, ulit))
    if o["exc"]:
        return f"mkC01 sc0 {blit(prog['AND'])} {blit(prog['cw'])} {comps} {rl} true [] [] [] [] 0 0"
    s = o["scanner"]
    sc = f"(mkSc {listlit(s['these'])} {optlit(s['from'])} {optlit(s['to'])} {blit(s['all'])})"
    pv, st, dc = [], [], []
    for k, v in o["vars"].items():
        if isinstance(v, dict):
            vid = 99 if k == "tally" else (100 + HDR.index(k[len("tally_"):]) if k.startswith("tally_") else int(k[1:]))
            dc.append(f"({vid}, {listlit(list(v.items()), lambda kv: '(' + ulit(str(kv[0])) + ', ' + val_lit(kv[1]) + ')')})")
        elif k.startswith("k"):
            st.append(f"({k[1:]}, {listlit(list(v), val_lit)})")
        else:
            pv.append(f"({k[1:]}, {val_lit(v)})")
    return (f"mkC01 {sc} {blit(prog['AND'])} {blit(prog['cw'])} {comps} {rl} false {listlit(o['lines'], lambda r: listlit(r, ulit))} [{'; '.join(pv)}] [{'; '.join(st)}] [{'; '.join(dc)}] "
            f"{o['scan']} {o['match']}")


def describe(job, o):
    prog, rows, _ = job
    return {"csvpath": o.get("text"), "rows": rows, "impl": {"exception": o["exc"], "lines": o.get("lines"), "variables": o.get("vars"), "scan_count": o.get("scan"), "match_count": o.get("match")}}
