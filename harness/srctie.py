"""The translator tie for the scanner's pure core (C02, C13): Scanner.includes and Scanner.is_last are translated from the
source of the tree under test (harness/py2v.py) and must still be proved equal to the hand-written model
(coq/Scan/ScanSrcEq.v: includes_src_eq, is_last_src_eq).  When the regenerated text equals the checked-in coq/Scan/ScanSrc.v
the proofs built by `make setup` stand; otherwise the equivalence file is re-compiled against the regenerated definitions."""
import os
import subprocess

import py2v
from common import REPO

COQ = os.environ.get("VERIF_COQ", "/verif/coq")


TIES = {
    # which -> (what, translate(), checked-in generated file, equivalence file, its import line, the replacement, theorems)
    "scanner": ("Scanner.includes / Scanner.is_last (csvpath/scanning/scanner.py)", lambda: py2v.translate(os.path.join(REPO, "csvpath", "scanning", "scanner.py")),
                ("Scan", "ScanSrc.v"), ("Scan", "ScanSrcEq.v"), "From V Require Import Scan.ScanModel Scan.PySem Scan.ScanSrc.",
                "From V Require Import Scan.ScanModel Scan.PySem.\nFrom Tie Require Import ScanSrc.", "includes_src_eq, is_last_src_eq"),
    "errors": ("ErrorCommsManager.do_i_* / ErrorHandler._handle_if (csvpath/util/error.py)", lambda: __import__("err2v").translate(REPO),
               ("Match", "ErrSrc.v"), ("Match", "ErrSrcEq.v"), "From V Require Import Scan.PySem Match.ErrEv Match.ErrSrc Match.Errors.",
               "From V Require Import Scan.PySem Match.ErrEv Match.Errors.\nFrom Tie Require Import ErrSrc.", "do_i_*_src_eq, handle_if_src_eq"),
    "assign": ("Equality._do_assignment_new_impl / _latch_and_onchange / _set_variable_if (csvpath/matching/productions/equality.py)",
               lambda: __import__("asg2v").translate(os.path.join(REPO, "csvpath", "matching", "productions", "equality.py")),
               ("Match", "AsgSrc.v"), ("Match", "AsgSrcEq.v"), "From V Require Import Match.Assign Match.QSem Match.AsgSrc.",
               "From V Require Import Match.Assign Match.QSem.\nFrom Tie Require Import AsgSrc.", "set_variable_if_src_eq, latch_and_onchange_src_eq, do_assignment_src_eq"),
    "runstep": ("CsvPath._consider_line / raise_match_count_if (csvpath/csvpath.py), LineMonitor.is_last_line_and_blank (csvpath/util/line_monitor.py)",
                lambda: __import__("run2v").translate(REPO),
                ("Run", "RunSrc.v"), ("Run", "RunSrcEq.v"), "From V Require Import Scan.ScanModel Scan.PySem Scan.ScanSrc Scan.ScanSrcEq Run.RunLoop Run.RunSem Run.RunSrc.",
                "From V Require Import Scan.ScanModel Scan.PySem Scan.ScanSrc Scan.ScanSrcEq Run.RunLoop Run.RunSem.\nFrom Tie Require Import RunSrc.", "consider_line_src_eq"),
    "aggregate": ("Result.is_valid / ResultsManager.is_valid / ResultsRegistrar.all_valid (csvpath/managers/results/*.py)",
                  lambda: __import__("agg2v").translate(REPO),
                  ("Mgr", "AggSrc.v"), ("Mgr", "AggSrcEq.v"), "From V Require Import Scan.PySem Mgr.Aggregate Mgr.AggSrc.",
                  "From V Require Import Scan.PySem Mgr.Aggregate.\nFrom Tie Require Import AggSrc.", "rm_is_valid_src_eq, all_valid_src_eq"),
    "adjudicate": ("Matcher.matches (csvpath/matching/matcher.py)", lambda: __import__("mat2v").translate(REPO),
                   ("Match", "AdjSrc.v"), ("Match", "AdjSrcEq.v"), "From V Require Import Scan.PySem Run.RunSem Match.Adjudicate Match.AdjSrc.",
                   "From V Require Import Scan.PySem Run.RunSem Match.Adjudicate.\nFrom Tie Require Import AdjSrc.", "matches_loop_src_eq, matches_src_eq"),
}


def check(ctx, which="scanner"):
    """-> dict(status: 'identical' | 'reproved' | 'untranslatable' | 'unproved', detail)"""
    what, translate, gen, eqf, imp, imp_new, thms = TIES[which]
    try:
        text = translate()
    except py2v.Unsupported as ex:
        return {"status": "untranslatable", "detail": f"the translator cannot translate {what} any more: " + str(ex)[:300]}
    except Exception as ex:  # noqa
        return {"status": "untranslatable", "detail": type(ex).__name__ + ": " + str(ex)[:300]}
    with open(os.path.join(COQ, *gen), encoding="utf-8") as fh:
        committed = fh.read()
    if text.strip() == committed.strip():
        return {"status": "identical", "detail": f"regenerated {'/'.join(gen)} is the checked-in one; {'/'.join(eqf)}o ({thms}) built by the full .vo build"}
    d = os.path.join(ctx.scratch, "tie_" + which)
    os.makedirs(d, exist_ok=True)
    with open(os.path.join(d, gen[1]), "w", encoding="utf-8") as fh:
        fh.write(text)
    with open(os.path.join(COQ, *eqf), encoding="utf-8") as fh:
        eq = fh.read()
    if imp not in eq:
        return {"status": "unproved", "detail": "import line of " + eqf[1] + " not found"}
    eq = eq.replace(imp, imp_new)
    with open(os.path.join(d, eqf[1]), "w", encoding="utf-8") as fh:
        fh.write(eq)
    for f in (gen[1], eqf[1]):
        try:
            r = subprocess.run(["timeout", "300", "coqc", "-Q", COQ, "V", "-Q", d, "Tie", os.path.join(d, f)], capture_output=True, text=True)
        except Exception as ex:  # noqa
            return {"status": "unproved", "detail": f"coqc {f}: {type(ex).__name__}"}
        if r.returncode != 0:
            return {"status": "unproved", "detail": f"the source of {what} changed and coq/{'/'.join(eqf)} no longer checks against the regenerated definitions ({f}): "
                                                    + (r.stderr or r.stdout)[-400:], "generated": text[:3000]}
    return {"status": "reproved", "detail": f"the source of {what} changed textually; the regenerated definitions are still proved equal to the model ({eqf[1]} re-compiled)"}
