"""The translator tie for the scanner's pure core (C02, C13): Scanner.includes and Scanner.is_last are translated from the
source of the tree under test (harness/py2v.py) and must still be proved equal to the hand-written model
(coq/Scan/ScanSrcEq.v: includes_src_eq, is_last_src_eq).  When the regenerated text equals the checked-in coq/Scan/ScanSrc.v
the proofs built by `make setup` stand; otherwise the equivalence file is re-compiled against the regenerated definitions."""
import os
import subprocess

import py2v
from common import REPO

COQ = os.environ.get("VERIF_COQ", "/verif/coq")


def check(ctx):
    """-> dict(status: 'identical' | 'reproved' | 'untranslatable' | 'unproved', detail)"""
    src = os.path.join(REPO, "csvpath", "scanning", "scanner.py")
    try:
        text = py2v.translate(src)
    except py2v.Unsupported as ex:
        return {"status": "untranslatable", "detail": "harness/py2v.py cannot translate Scanner.includes / Scanner.is_last any more: " + str(ex)[:300]}
    except Exception as ex:  # noqa
        return {"status": "untranslatable", "detail": type(ex).__name__ + ": " + str(ex)[:300]}
    with open(os.path.join(COQ, "Scan", "ScanSrc.v"), encoding="utf-8") as fh:
        committed = fh.read()
    if text.strip() == committed.strip():
        return {"status": "identical", "detail": "regenerated Scan/ScanSrc.v is the checked-in one; Scan/ScanSrcEq.vo (includes_src_eq, is_last_src_eq) built by the full .vo build"}
    d = os.path.join(ctx.scratch, "tie")
    os.makedirs(d, exist_ok=True)
    with open(os.path.join(d, "ScanSrc.v"), "w", encoding="utf-8") as fh:
        fh.write(text)
    with open(os.path.join(COQ, "Scan", "ScanSrcEq.v"), encoding="utf-8") as fh:
        eq = fh.read()
    eq = eq.replace("From V Require Import Scan.ScanModel Scan.PySem Scan.ScanSrc.", "From V Require Import Scan.ScanModel Scan.PySem.\nFrom Tie Require Import ScanSrc.")
    with open(os.path.join(d, "ScanSrcEq.v"), "w", encoding="utf-8") as fh:
        fh.write(eq)
    for f in ("ScanSrc.v", "ScanSrcEq.v"):
        try:
            r = subprocess.run(["timeout", "300", "coqc", "-Q", COQ, "V", "-Q", d, "Tie", os.path.join(d, f)], capture_output=True, text=True)
        except Exception as ex:  # noqa
            return {"status": "unproved", "detail": f"coqc {f}: {type(ex).__name__}"}
        if r.returncode != 0:
            return {"status": "unproved", "detail": f"the source of Scanner.includes / Scanner.is_last changed and coq/Scan/ScanSrcEq.v no longer checks against the regenerated definitions ({f}): "
                                                    + (r.stderr or r.stdout)[-400:], "generated": text[:3000]}
    return {"status": "reproved", "detail": "the source of Scanner.includes / Scanner.is_last changed textually; the regenerated definitions are still proved equal to the model (ScanSrcEq.v re-compiled)"}
