"""C10 — every run gets its own run directory and never touches an earlier run's results.

Deciding method: Coq theorems (Props/C10.v): the ".N" search of get_run_dir provably returns an
unused name (pigeonhole), so over ANY history (new/reused instance, same second, after an abort)
the chosen directories are pairwise distinct, under their own name, single-writer (C10_fresh);
24-hour names order chronologically and ':last'/':first' return extremal names (insertion-sort
proof).  Tie to /repo: histories of real named-paths runs with an injected clock (same second, +1s,
12:59:59->13:00:00, 23:59:59->00:00:00; two groups; new/reused CsvPaths; serial and by-line
methods; optional aborted run): the directory each run wrote to, a hash snapshot of the whole
archive before/after every run and the resolution of '$g.results.<prefix>:last/:first.<id>' are
compared with the model and with the property by the Coq kernel; the strftime/strptime format
strings are read from the source."""
import ast
import datetime as _dt
import os
import re

import groups
from common import blit, coq_bad, known_open, listlit, pmap

SIG_D6 = "reused-instance-keeps-run-dir"
SIG_D7 = "run-dir-12-hour-clock"

MENU = [(2026, 3, 14, 12, 59, 58), (2026, 3, 14, 12, 59, 59), (2026, 3, 14, 13, 0, 0), (2026, 3, 14, 13, 0, 1),
        (2026, 3, 14, 23, 59, 59), (2026, 3, 15, 0, 0, 0), (2026, 3, 15, 0, 0, 1), (2026, 3, 15, 1, 0, 0)]

_NOW = [None]


class FakeDateTime(_dt.datetime):
    @classmethod
    def now(cls, tz=None):
        t = _NOW[0]
        return _dt.datetime(*t, tzinfo=tz) if t else _dt.datetime.now(tz)


def set_clock(t):
    import csvpath.csvpaths as m
    m.datetime = FakeDateTime
    _NOW[0] = tuple(t)


def parse_dir(run_dir):
    """archive/<g>/<stamp>[.N] -> (group index, [y,m,d,H,M,S], suffix or None)"""
    parts = run_dir.replace("\\", "/").split("/")
    g, name = parts[-2], parts[-1]
    m = re.match(r"^(\d+)-(\d+)-(\d+)_(\d+)-(\d+)-(\d+)(?:\.(\d+))?$", name)
    if not m:
        raise ValueError("unexpected run dir name " + run_dir)
    return (gname(g), [int(x) for x in m.groups()[:6]], None if m.group(7) is None else int(m.group(7)))


def inspect(paths, run, o):
    out = {"last": None, "first": None, "listing": []}
    try:
        out["listing"] = [n for n in os.listdir(os.path.join("archive", run["pathsname"]))]
    except OSError:
        pass
    for key in ("last", "first"):
        try:
            p = paths.file_manager.get_named_file(f"${run['pathsname']}.results.2026:{key}.a")
            out[key] = os.path.dirname(os.path.dirname(p))
        except Exception as ex:  # noqa
            out[key] = "ERR " + type(ex).__name__ + ": " + str(ex)[:80]
    return out


def gen_history(rng, hid, n=None):
    n = n or rng.choice([2, 2, 3, 3, 4, 5])
    idx = sorted(rng.choice(range(len(MENU))) for _ in range(n))
    if rng.random() < 0.4:
        k = rng.randrange(len(MENU) - 1)
        idx = sorted([k] * rng.choice([2, 3]) + idx[: max(0, n - 2)])[:n]       # several runs in one second
    runs = []
    for i, ti in enumerate(idx):
        runs.append({"method": rng.choice(["collect_paths", "collect_paths", "collect_by_line", "fast_forward_paths", "next_paths"]),
                     "pathsname": f"g{rng.choice([0, 0, 1])}", "filename": "f", "new_instance": (i == 0) or rng.random() < 0.45, "clock": MENU[ti],
                     "abort": False})
    if rng.random() < 0.3:
        # an aborted run somewhere before the end: group gx aborts (member b raises on a line under a raise policy)
        k = rng.randrange(len(runs) - 1) if len(runs) > 1 else 0
        runs[k]["pathsname"] = "gx"
        runs[k]["abort"] = True
    rows = [["id", "a"], ["r1", "1"], ["r2", "2"], ["r3", "3"]]
    members = ['~id: a~ $[*][ yes() ]', '~id: b~ $[1*][ @x = count() ]']
    return {"id": hid, "files": {"f": rows},
            "groups": {"g0": members, "g1": members, "gx": ['~id: a~ $[*][ yes() ]', '~id: b validation-mode: raise~ $[*][ eq(line_number(), 2) -> @x = int("zz") ]']},
            "runs": runs, "snapshot": True, "set_clock": set_clock, "inspect": inspect, "paths_policy": ["raise", "collect"], "policy": ["collect", "print"]}


def gname(n):
    return {"g0": 0, "g1": 1, "gx": 2}[n]


def formats_in_source(pkg):
    """T10: the format strings the model was written against, read from the source (code only: ast)"""
    out = {"strftime": set(), "strptime": set()}
    for rel in ("csvpath/managers/results/result_serializer.py", "csvpath/managers/results/results_manager.py"):
        tree = ast.parse(open(os.path.join(pkg, rel)).read())
        for node in ast.walk(tree):
            if isinstance(node, ast.Call) and isinstance(node.func, ast.Attribute) and node.func.attr == "strftime":
                out["strftime"] |= {a.value for a in node.args if isinstance(a, ast.Constant) and isinstance(a.value, str)}
            if isinstance(node, ast.Constant) and isinstance(node.value, str) and re.fullmatch(r"%Y-%m-%d_%[HI]-%M-%S(\.%f)?", node.value) and rel.endswith("results_manager.py"):
                out["strptime"].add(node.value)
    return {k: sorted(v) for k, v in out.items()}


def run(ctx):
    rng = ctx.rng
    quick = ctx.tier == "quick"
    jobs = [gen_history(rng, i) for i in range(110 if quick else 2500)]
    # a few fixed critical histories first (corpus)
    fixed = [
        [("g0", True, 1, "collect_paths"), ("g0", False, 2, "collect_paths")],                       # reused instance, next second, across 13:00
        [("g0", True, 1, "collect_paths"), ("g1", False, 1, "collect_paths")],                       # reused instance, other group, same second
        [("g0", True, 1, "collect_paths"), ("g0", True, 1, "collect_paths"), ("g0", True, 1, "collect_by_line")],   # same second, new instances
        [("g0", True, 4, "collect_paths"), ("g0", True, 5, "collect_paths"), ("g0", True, 7, "collect_paths")],     # across midnight and 01:00
        [("g0", True, 0, "collect_paths"), ("g0", True, 3, "collect_paths")],                        # 12:59:58 then 13:00:01
    ]
    for k, h in enumerate(fixed):
        j = gen_history(rng, 100000 + k, n=2)
        j["runs"] = [{"method": m, "pathsname": g, "filename": "f", "new_instance": ni, "clock": MENU[ti], "abort": False} for g, ni, ti, m in h]
        jobs.insert(k, j)
    res = pmap(ctx, groups.run_history, jobs, chunksize=2)
    lits, idx, stale = [], [], []
    for i, (j, r) in enumerate(zip(jobs, res)):
        raised = bool(r["setup_exc"]) or any(o["exc"] and not run_["abort"] for o, run_ in zip(r["runs"], j["runs"])) or len(r["runs"]) != len(j["runs"])
        runs_l = listlit(j["runs"], lambda x: f"(mkRun {gname(x['pathsname'])} {blit(x['new_instance'])} (mkTime {' '.join(str(v) for v in x['clock'])}) {blit(x['abort'])})")
        chosen, touched, lasts, firsts, listings = [], [], [], [], []
        try:
            for o, run_ in zip(r["runs"], j["runs"]):
                ms = o.get("members") or []
                if not ms:
                    raise ValueError("run left no results")
                g, st, sfx = parse_dir(ms[0]["run_dir"])
                chosen.append(f"({g}, mkDir {listlit(st)} {'None' if sfx is None else '(Some %d%%nat)' % sfx})")
                before, after = o["before"], o["after"]
                touched.append(any(p != "archive/manifest.json" and after.get(p) != h for p, h in before.items()))
                names = []
                for nm in (o.get("inspect") or {}).get("listing", []):
                    if re.match(r"^\d+-\d+-\d+_\d+-\d+-\d+(\.\d+)?$", nm):
                        _, st3, sfx3 = parse_dir("archive/g0/" + nm)
                        names.append(f"mkDir {listlit(st3)} {'None' if sfx3 is None else '(Some %d%%nat)' % sfx3}")
                listings.append("[" + "; ".join(names) + "]")
                # a run that kept no data (fast_forward / next without collect) is still the group's latest run: ':last' must not
                # quietly resolve to an older run that did keep data
                vlast = (o.get("inspect") or {}).get("last")
                if vlast and not vlast.startswith("ERR") and run_["method"] not in ("collect_paths", "collect_by_line") and not run_["abort"] \
                        and os.path.basename(os.path.normpath(vlast)).split(".")[0] != os.path.basename(os.path.normpath(ms[0]["run_dir"])).split(".")[0]:      # (another second: how ':last' orders the runs of one second is not C10's subject)
                    stale.append({"history": i, "run": len(chosen) - 1, "method": run_["method"], "latest_run_dir": ms[0]["run_dir"], "last_resolved_to": vlast})
                for key, acc in (("last", lasts), ("first", firsts)):
                    v = (o.get("inspect") or {}).get(key)
                    group_runs = [x for x in j["runs"][: len(chosen)] if x["pathsname"] == run_["pathsname"]]
                    usable = v and not v.startswith("ERR") and all(x["method"] in ("collect_paths", "collect_by_line") and not x["abort"] for x in group_runs)
                    if usable:
                        g2, st2, sfx2 = parse_dir(v)
                        acc.append(f"(Some ({g2}, mkDir {listlit(st2)} {'None' if sfx2 is None else '(Some %d%%nat)' % sfx2}))")
                    else:
                        acc.append("None")
        except Exception as ex:  # noqa
            raised = True
            r["harness_note"] = type(ex).__name__ + ": " + str(ex)
        if raised:
            lits.append(f"mkC10 {runs_l} true [] [] [] [] []")
        else:
            lits.append(f"mkC10 {runs_l} false [{'; '.join(chosen)}] {listlit(touched, blit)} [{'; '.join(lasts)}] [{'; '.join(firsts)}] [{'; '.join(listings)}]")
        idx.append(i)
    preds = ["c10_spec", "c10_resolve_agree", "c10_agree false false", "c10_agree true false", "c10_agree false true", "c10_agree true true"]
    bad = coq_bad(ctx, "c10", "Mgr.RunDirs Harness.C10Cmp", "c10case", lits, preds, chunk=200)
    fmts = formats_in_source(ctx.pkg)
    fmt_ok = fmts["strftime"] == ["%Y-%m-%d_%H-%M-%S"] and set(fmts["strptime"]) == {"%Y-%m-%d_%H-%M-%S", "%Y-%m-%d_%H-%M-%S.%f"}

    def case(i):
        j, r = jobs[i], res[i]
        return {"runs": [{k: x[k] for k in ("method", "pathsname", "new_instance", "clock", "abort")} for x in j["runs"]],
                "impl": {"setup_exc": r["setup_exc"], "note": r.get("harness_note"),
                         "per_run": [{"exc": o["exc"], "run_dir": (o.get("members") or [{}])[0].get("run_dir"), "resolve": o.get("inspect"),
                                      "changed_earlier_files": sorted(p for p, h in o["before"].items() if p != "archive/manifest.json" and o["after"].get(p) != h)[:6]}
                                     for o in r["runs"]]}}
    # ':last' / ':first' resolved WHILE a run is in progress: a group run whose file name is a results reference to another group,
    # started in the same second as (or the second after) that group's latest run, on the same or a new instance
    V1 = [["id", "a"], ["old1", "1"], ["old2", "2"]]
    V2 = [["id", "a"], ["new1", "7"], ["new2", "8"], ["new3", "9"]]
    rjobs = []
    for k in range(12 if quick else 120):
        t1 = rng.randrange(len(MENU) - 2)
        t2 = t1 + 1
        t3 = t2 + rng.choice([0, 0, 1])
        key = rng.choice(["last", "last", "first"])
        rjobs.append({"id": 200000 + k, "files": {"f": V1, "f2": V2}, "groups": {"g0": ['~id: a~ $[*][ yes() ]'], "gr": ['~id: a~ $[*][ yes() ]', '~id: b~ $[1*][ @n = count() ]']},
                      # three CsvPaths instances A, B, C: the referenced group's runs and the referring run may each be on an instance used before
                      "runs": [{"method": "collect_paths", "pathsname": "g0", "filename": "f", "inst": "A", "new_instance": True, "clock": MENU[t1]},
                               {"method": rng.choice(["collect_paths", "collect_by_line"]), "pathsname": "g0", "filename": "f2", "inst": rng.choice(["A", "B"]), "new_instance": False, "clock": MENU[t2]},
                               {"method": rng.choice(["collect_paths", "collect_by_line"]), "pathsname": "gr", "filename": f"$g0.results.2026:{key}.a", "inst": rng.choice(["A", "B", "C"]),
                                "new_instance": False, "clock": MENU[t3]}],
                      "set_clock": set_clock, "paths_policy": ["raise", "collect"], "policy": ["collect", "print"], "key": key})
    rres = pmap(ctx, groups.run_history, rjobs, chunksize=2)
    rfail = []
    for j, r in zip(rjobs, rres):
        want = V2 if j["key"] == "last" else V1
        o = r["runs"][2] if len(r["runs"]) == 3 else None
        got = None if (o is None or o["exc"] or not o.get("members")) else o["members"][0]["lines"]
        if r["setup_exc"] or got != want:
            rfail.append({"runs": [{k2: x[k2] for k2 in ("method", "pathsname", "filename", "inst", "clock")} for x in j["runs"]],
                          "expected_lines": want, "read": got, "exc": r["setup_exc"] or (o and o["exc"])})
    if stale:
        k = stale[0]["history"]
        ctx.violation("last-skips-dataless-run", {"what": "':last' resolved to an OLDER run's data although the group's most recent run (which kept no data.csv) is the last one: "
                                                          "the reference should fail, not answer with stale data", "case": dict(stale[0], runs=[{k2: x[k2] for k2 in ("method", "pathsname", "new_instance", "clock", "abort")} for x in jobs[k]["runs"]]),
                                                  "histories": len({x["history"] for x in stale})})
    if rfail:
        ctx.violation("resolve-in-run", {"what": "a run whose file name is a ':last' / ':first' results reference to another group did not read that group's latest / earliest run "
                                                 "(the reference is resolved while the run is in progress; here in the same second as, or the second after, the referenced run)",
                                         "case": rfail[0], "scenarios": len(rfail)})
    spec_bad = sorted(bad["c10_spec"])
    clean_bad = bad["c10_agree false false"]
    explained = {"12h": bad["c10_agree false false"] - bad["c10_agree true false"] if clean_bad else set(),
                 "reuse": bad["c10_agree false false"] - bad["c10_agree false true"] if clean_bad else set(),
                 "both": bad["c10_agree false false"] - bad["c10_agree true true"] if clean_bad else set()}
    d7 = [i for i in spec_bad if i in explained["12h"] or (i in explained["both"] and i not in explained["reuse"])]
    d6 = [i for i in spec_bad if i in explained["reuse"] or (i in explained["both"] and i not in explained["12h"])]
    # a history can show both defects
    d6 = [i for i in spec_bad if i in explained["reuse"] or i in explained["both"]] if True else d6
    d7 = [i for i in spec_bad if i in explained["12h"] or i in explained["both"]]
    if not fmt_ok and "%I" in "".join(fmts["strftime"]):
        d7 = d7 or spec_bad[:1]
    other = [i for i in spec_bad if i not in d6 and i not in d7]
    if d6:
        i = min(d6, key=lambda k: len(jobs[k]["runs"]))
        if known_open(ctx.pid, SIG_D6):
            ctx.known(f"{SIG_D6}: {len(d6)} histories this run")
        else:
            ctx.violation("reuse", {"what": "a reused CsvPaths instance (or one whose previous run aborted) writes the next run into the previous run's directory — even of another named-paths "
                                            "name (the implementation agrees with the model only with deviation switch reuse on; theorem C10_fresh is for the clean model, witness C10_reuse_refuted)",
                                    "case": case(i), "histories": len(d6)})
    if d7:
        i = min(d7, key=lambda k: len(jobs[k]["runs"]))
        if known_open(ctx.pid, SIG_D7):
            ctx.known(f"{SIG_D7}: {len(d7)} histories this run")
        else:
            ctx.violation("12h", {"what": "run directories are named with a 12-hour clock: afternoon runs sort before morning runs and ':last' picks the wrong run "
                                          "(model agrees only with deviation switch 12h on; witness C10_12h_refuted)", "case": case(i), "histories": len(d7), "format_strings_in_source": fmts})
    if other:
        i = min(other, key=lambda k: len(jobs[k]["runs"]))
        ctx.violation("rundirs", {"what": "a run did not get a fresh directory under its own name, or changed an earlier run's files, or ':last'/':first' did not resolve to the latest/earliest run",
                                  "case": case(i), "histories": len(other)})
    elif not spec_bad and not rfail and (clean_bad or not fmt_ok or bad["c10_resolve_agree"]):
        pool = clean_bad or bad["c10_resolve_agree"]
        i = min(pool, key=lambda k: len(jobs[k]["runs"])) if pool else 0
        ctx.violation("correspondence", {"what": "correspondence Mgr/RunDirs.v vs csvpaths.py/result_serializer.py no longer checks (Harness/C10Cmp.c10_agree / c10_resolve_agree" +
                                                 ("" if fmt_ok else "; the strftime/strptime format strings in the source changed: %r" % fmts) + "); theorems C10_* are about the model only",
                                         "disagreeing_case": case(i)}, no_input=True)
    ctx.coverage.update({
        "resolve_in_run_scenarios": len(rjobs), "evaluations": len(jobs) + len(rjobs), "distinct_nontrivial": len({repr(case(i)["runs"]) for i in range(len(jobs)) if len(jobs[i]["runs"]) >= 2 and not res[i]["setup_exc"]}),
        "rule": "5 fixed critical histories + random histories of 2-5 runs drawn from {2 named-paths groups (+1 aborting group)} x {new, reused instance} x {collect_paths, collect_by_line, "
                "fast_forward_paths, next_paths} x an injected clock (non-decreasing picks from 8 instants: 12:59:58, 12:59:59, 13:00:00, 13:00:01, 23:59:59, next day 00:00:00, 00:00:01, 01:00:00; 40% with "
                "several runs in one second; 30% with an aborted run before the end); after every run: run dir, sha-256 snapshot of the whole archive vs the previous one, ':last'/':first' resolution. "
                "Non-trivial = distinct history with >= 2 runs.",
        "samples": [case(0), case(len(jobs) - 1)],
        "runs_executed": sum(len(j["runs"]) for j in jobs), "format_strings_in_source": fmts, "format_strings_as_modelled": fmt_ok,
        "traces_validated_against_impl": len(jobs) - len(clean_bad),
        "correspondence": f"clean model == implementation on {len(jobs) - len(clean_bad)}/{len(jobs)} histories (12h switch: {len(jobs) - len(bad['c10_agree true false'])}, reuse switch: {len(jobs) - len(bad['c10_agree false true'])}, both: {len(jobs) - len(bad['c10_agree true true'])})",
        "spec_failures": len(spec_bad), "resolver_disagreements": len(bad["c10_resolve_agree"]),
    })


def replay(ctx, payload):
    c = payload.get("case") or payload.get("disagreeing_case")
    import random
    j = gen_history(random.Random(1), 0, n=2)
    j["runs"] = [dict(x, filename="f") for x in c["runs"]]
    r = groups.run_history(j)
    for o in r["runs"]:
        print(o["exc"], (o.get("members") or [{}])[0].get("run_dir"), o.get("inspect"))
    return 0
