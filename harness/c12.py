"""C12 — named-paths groups round-trip and select by identity.

Deciding method: Coq theorems (Props/C12.v): for any number of non-blank, separator-free csvpaths
the modelled str.split of the stored group file finds exactly the members (C12_split) and
get_named_paths returns them in order up to surrounding whitespace (C12_roundtrip); selection by
identity (C12_select); manifest rule (C12_manifest).  Tie to /repo: generated groups (outer
comments with id/name metadata, inner comments, newlines, odd whitespace) are stored and read
back with the real PathsManager; the group file text, get_named_paths, the identities and the
'#id', '$name.csvpaths.id', ':to', ':from' selections are compared with the model and with the
property by the Coq kernel; histories of add / re-add / replace / remove / new instance on two
names are compared with the manifest model."""
import hashlib
import itertools
import json
import os
import shutil

import gen
from common import CONFIG_INI, Quiet, coq_bad, listlit, oulit, pmap, ulit

IDKEYS = ["id", "Id", "ID", "name", "Name", "NAME"]
IDVALS = ["a", "b", "c", "p1", "first-one", "x_2", "B", "my path", "line check 2", "first", "foo", "from", "to", "bar"]      # an identity may be several words


def gen_path(rng, k):
    pr = gen.gen_prog(rng, "", control=False, modes=False)
    body = pr["text"]
    # inner comments / newlines between components
    if rng.random() < 0.5:
        body = body.replace("[ ", "[ ~ inner %d ~ " % k, 1)
    if rng.random() < 0.5:
        body = body.replace(" ]", "\n   ]", 1).replace("] [", "]\n[", 1) if False else body.replace(" ]", "\n ]", 1)
    r = rng.random()
    comment = ""
    want = ""
    if r < 0.7:
        fields = []
        ks = rng.sample(IDKEYS, rng.choice([1, 1, 1, 2]))
        vals = {}
        for key in ks:
            vals[key] = rng.choice(IDVALS)
            fields.append(f"{key}: {vals[key]}")
        want = vals[min(ks, key=IDKEYS.index)]          # documented precedence id > Id > ID > name > Name > NAME
        if rng.random() < 0.4:
            fields.insert(rng.randrange(len(fields) + 1), "description: some text, here")
        comment = "~ " + " ".join(fields) + " ~" + rng.choice([" ", "\n", "\n\n  "])
    elif r < 0.8:
        comment = "~ just words ~ "
    lead = rng.choice(["", "", " ", "\n", "\t "])
    trail = rng.choice(["", "", " ", "\n", "  \n"])
    return lead + comment + body + trail, want


def group_impl(job):
    gid, plist, wants = job
    from csvpath import CsvPaths
    home = os.getcwd()
    d = os.path.join(home, f"p{gid}")
    shutil.rmtree(d, ignore_errors=True)
    os.makedirs(d)
    os.chdir(d)
    out = {"exc": None}
    try:
        with open("config.ini", "w") as fh:
            fh.write(CONFIG_INI)
        with Quiet():
            paths = CsvPaths()
            pm = paths.paths_manager
            pm.add_named_paths(name="g", paths=list(plist))
            with open(os.path.join(pm.named_paths_home("g"), "group.csvpaths"), encoding="utf-8") as fh:
                out["file"] = fh.read()
            paths = CsvPaths()
            pm = paths.paths_manager
            got = pm.get_named_paths("g")
            out["got"] = list(got)
            ids = []
            try:
                for t in pm.get_identified_paths_in("g"):
                    ids.append(t[0])
            except Exception as ex:  # noqa
                ids = None
                out["ids_exc"] = type(ex).__name__
            out["ids"] = ids
            sel = []
            for i in sorted({x for x in wants if x}):
                one, to, frm = None, [], []
                try:
                    one = pm.get_named_paths(f"g#{i}")
                    ref = pm.get_named_paths(f"$g.csvpaths.{i}")
                    if ref != one:
                        raise ValueError("'g#%s' and '$g.csvpaths.%s' differ" % (i, i))
                    to = pm.get_named_paths(f"g#{i}:to")
                    frm = pm.get_named_paths(f"g#{i}:from")
                    if pm.get_named_paths(f"$g.csvpaths.{i}:to") != to or pm.get_named_paths(f"$g.csvpaths.{i}:from") != frm:
                        raise ValueError("'g#%s:to/:from' and '$g.csvpaths.%s:to/:from' differ" % (i, i))
                except ValueError:
                    raise
                except Exception:  # noqa  (not found -> InputException)
                    one = None
                sel.append((i, one[0] if one else None, list(to), list(frm)))
            out["sel"] = sel
    except Exception as ex:  # noqa
        out["exc"] = type(ex).__name__ + ": " + str(ex)[:160]
    finally:
        os.chdir(home)
        shutil.rmtree(d, ignore_errors=True)
    return out


def hist_impl(job):
    hid, ops, pool = job
    from csvpath import CsvPaths
    digest = {hashlib.sha256(("".join(f"\n\n---- CSVPATH ----\n\n{p}" for p in pl)).encode()).hexdigest(): len("".join(f"\n\n---- CSVPATH ----\n\n{p}" for p in pl))
              for pl in pool}
    home = os.getcwd()
    d = os.path.join(home, f"ph{hid}")
    shutil.rmtree(d, ignore_errors=True)
    os.makedirs(d)
    os.chdir(d)
    out = {"exc": None, "obs": []}
    try:
        with open("config.ini", "w") as fh:
            fh.write(CONFIG_INI)
        with Quiet():
            paths = CsvPaths()
            for o in ops:
                pm = paths.paths_manager
                if o[0] == "add":
                    pm.add_named_paths(name=f"n{o[1]}", paths=list(pool[o[2]]))
                elif o[0] == "rem":
                    pm.remove_named_paths(f"n{o[1]}")
                else:
                    paths = CsvPaths()
                    pm = paths.paths_manager
                obs = []
                for n in (0, 1):
                    hm = pm.named_paths_home(f"n{n}") if pm.has_named_paths(f"n{n}") else None
                    if hm is None:
                        obs.append((-1, []))
                        continue
                    with open(os.path.join(hm, "group.csvpaths"), encoding="utf-8") as fh:
                        cur = len(fh.read())
                    mp = os.path.join(hm, "manifest.json")
                    man = json.load(open(mp)) if os.path.exists(mp) else []
                    obs.append((cur, [digest.get(e["fingerprint"], -2) for e in man]))
                out["obs"].append(obs)
    except Exception as ex:  # noqa
        out["exc"] = type(ex).__name__ + ": " + str(ex)[:160]
    finally:
        os.chdir(home)
        shutil.rmtree(d, ignore_errors=True)
    return out


def run(ctx):
    rng = ctx.rng
    quick = ctx.tier == "quick"
    groups_, wants_ = [], []
    for i in range(400 if quick else 8000):
        n = rng.choice([1, 2, 3, 4, 5])
        ms = [gen_path(rng, k) for k in range(n)]
        groups_.append([m[0] for m in ms])
        wants_.append([m[1] for m in ms])
    gres = pmap(ctx, group_impl, [(i, g, w) for i, (g, w) in enumerate(zip(groups_, wants_))], chunksize=8)
    lits, idx = [], []
    for i, (plist, o) in enumerate(zip(groups_, gres)):
        if o["exc"]:
            continue
        ids = o["ids"] if o["ids"] is not None else []
        sel = listlit(o["sel"], lambda t: f"({ulit(t[0])}, {oulit(t[1])}, {listlit(t[2], ulit)}, {listlit(t[3], ulit)})")
        lits.append(f"mkC12 {listlit(plist, ulit)} {listlit(wants_[i], ulit)} {ulit(o['file'])} {listlit(o['got'], ulit)} {listlit(ids, oulit)} {sel}")
        idx.append(i)
    bad = coq_bad(ctx, "c12", "Csv.CsvModel Data.DataModel Mgr.PathsStore Harness.C12Cmp", "c12case", lits, ["c12_agree", "c12_spec"], chunk=150)
    # histories
    pool = []
    while len(pool) < 5:
        pl = [gen_path(rng, k)[0] for k in range(rng.choice([1, 2, 3]))]
        L = len("".join(f"\n\n---- CSVPATH ----\n\n{p}" for p in pl))
        if all(L != len("".join(f"\n\n---- CSVPATH ----\n\n{p}" for p in q)) for q in pool):
            pool.append(pl)
    alpha = [("add", n, k) for n in (0, 1) for k in range(3)] + [("rem", 0), ("rem", 1), ("new",)]
    hists = [list(t) for n in (1, 2, 3) for t in itertools.product(alpha, repeat=n)] if not quick else \
            [list(t) for n in (1, 2) for t in itertools.product(alpha, repeat=n)]
    big_alpha = [("add", n, k) for n in (0, 1) for k in range(5)] + [("rem", 0), ("rem", 1), ("new",)]
    for _ in range(300 if quick else 4000):
        hists.append([rng.choice(big_alpha) for _ in range(rng.choice([3, 4, 5]))])
    hres = pmap(ctx, hist_impl, [(i, h, pool) for i, h in enumerate(hists)], chunksize=8)
    hlits = []
    for h, o in zip(hists, hres):
        ops = listlit(h, lambda t: f"(PAdd {t[1]} {listlit(pool[t[2]], ulit)})" if t[0] == "add" else (f"(PRemove {t[1]})" if t[0] == "rem" else "PNew"))
        obs = listlit(o["obs"] if not o["exc"] else [], lambda ob: listlit(ob, lambda t: f"({t[0]}, {listlit(t[1])})"))
        hlits.append(f"mkC12H {ops} {obs}")
    hbad = coq_bad(ctx, "c12h", "Csv.CsvModel Data.DataModel Mgr.PathsStore Harness.C12Cmp", "c12hist", hlits, ["c12h_agree"], chunk=60)

    # source-derived: the marker constants of paths_manager.py against the model's MARKER
    import ast
    msrc = {"exact": [], "joined": [], "other": []}
    try:
        tree = ast.parse(open(os.path.join(ctx.pkg, "csvpath", "managers", "paths", "paths_manager.py"), encoding="utf-8").read())
        for node in ast.walk(tree):
            if isinstance(node, ast.Constant) and isinstance(node.value, str) and "CSVPATH" in node.value and len(node.value) < 40:
                v = node.value
                (msrc["exact"] if not v.startswith("\n") and not v.endswith("\n") else msrc["joined"]).append(v)
        mbad = coq_bad(ctx, "c12s", "Csv.CsvModel Data.DataModel Mgr.PathsStore Harness.C12Cmp", "c12src",
                       [f"mkC12S {listlit(msrc['exact'], ulit)} {listlit(msrc['joined'], ulit)}"], ["c12_marker_agree"], chunk=5)["c12_marker_agree"]
    except Exception as ex:  # noqa
        msrc["error"] = type(ex).__name__ + ": " + str(ex)[:120]
        mbad = {0}

    def gcase(k):
        i = idx[k]
        return {"level": "group", "paths_added": groups_[i], "identities_written": wants_[i], "impl": gres[i]}

    def hcase(i):
        return {"level": "history", "operations": hists[i], "pool_sizes": [len(p) for p in pool], "impl": hres[i],
                "observation_format": "after each op, per name n0,n1: (length of group file or -1, manifest fingerprints as group-file lengths)"}
    excs = [i for i, o in enumerate(gres) if o["exc"]]
    spec_bad = sorted(bad["c12_spec"])
    if spec_bad or excs:
        c = gcase(spec_bad[0]) if spec_bad else {"level": "group", "paths_added": groups_[excs[0]], "identities_written": wants_[excs[0]], "impl": gres[excs[0]]}
        ctx.violation("roundtrip", {"what": "get_named_paths / selection by identity does not return the csvpaths that were added" if spec_bad else "adding or reading back a generated group raised",
                                    "case": c, "failures": len(spec_bad) + len(excs)})
    elif hbad["c12h_agree"]:
        i = min(hbad["c12h_agree"], key=lambda k: len(hists[k]))
        ctx.violation("manifest", {"what": "the group's manifest does not gain exactly one entry per change of content (none for an identical re-add), or the stored group differs",
                                   "case": hcase(i), "failures": len(hbad["c12h_agree"])})
    elif mbad:
        ctx.violation("correspondence", {"what": "the marker constants in paths_manager.py no longer equal the model's MARKER / the separator the model writes between members "
                                                 "(Harness/C12Cmp.c12_marker_agree); theorems C12_* are about the model only", "disagreeing_case": msrc}, no_input=True)
    elif bad["c12_agree"]:
        ctx.violation("correspondence", {"what": "correspondence Mgr/PathsStore.v (+ Meta/MetaModel.v for identities) vs PathsManager no longer checks (Harness/C12Cmp.c12_agree); theorems C12_* are about the model only",
                                         "disagreeing_case": gcase(sorted(bad["c12_agree"])[0])}, no_input=True)
    ctx.coverage.update({
        "evaluations": len(groups_) + len(hists), "marker_constants_from_source": msrc,
        "distinct_nontrivial": len({repr(g) for g, o in zip(groups_, gres) if not o["exc"] and len(g) >= 2 and o.get("sel")}),
        "rule": "groups of 1-5 generated csvpaths with outer comments (id/Id/ID/name/Name/NAME in any combination, extra fields, or plain words), inner comments, newlines and odd "
                "surrounding whitespace; stored with add_named_paths, read back by a fresh instance: group file text, get_named_paths, identities, '#id', '$g.csvpaths.id', ':to', ':from'. "
                "Histories: all sequences up to length 2 (quick) / 3 (thorough) over add(2 names x 3 lists), remove(2), new instance, plus random ones of length 3-5 over 5 lists. "
                "Non-trivial = distinct group of >= 2 members with at least one identity selection.",
        "samples": [gcase(0), hcase(len(hists) - 1)],
        "groups": len(groups_), "groups_judged": len(idx), "selections": sum(len(o.get("sel") or []) for o in gres), "histories": len(hists),
        "traces_validated_against_impl": len(idx) - len(bad["c12_agree"]) + len(hists) - len(hbad["c12h_agree"]),
        "correspondence": f"model == implementation on {len(idx) - len(bad['c12_agree'])}/{len(idx)} groups and {len(hists) - len(hbad['c12h_agree'])}/{len(hists)} histories",
    })


def replay(ctx, payload):
    c = payload.get("case") or payload.get("disagreeing_case")
    if c["level"] == "group":
        print(group_impl((0, c["paths_added"], c.get("identities_written", []))))
    else:
        print(c)
    return 0
