"""Shared machinery of the checks: scratch copy of /repo's working tree, Coq build and
evaluation, evidence / replay / known-findings handling.

Run by /venv/bin/python (the interpreter the repository itself uses).  Nothing here
writes to /repo; everything a check leaves behind is under /verif.
"""
import fcntl
import hashlib
import json
import os
import random
import re
import shutil
import subprocess
import sys
import time

VERIF = os.path.dirname(os.path.dirname(os.path.abspath(__file__)))
REPO = os.environ.get("VERIF_REPO", "/repo")
COQ = os.path.join(VERIF, "coq")
OUT = os.environ.get("VERIF_OUT", VERIF)   # where replays/ and evidence/ go (tools/seedtest.sh redirects them so that a seed run never overwrites the real evidence)
GUARD = "CSVPATH_VERIF"

CONFIG_INI = """[csvpath_files]
extensions = txt, csvpath, csvpaths
[csv_files]
extensions = txt, csv, tsv, dat, tab, psv, ssv
[errors]
csvpath = collect, fail, print
csvpaths = raise, collect
[logging]
csvpath = error
csvpaths = error
log_file = logs/csvpath.log
log_files_to_keep = 2
log_file_size = 52428800
[config]
path =
[functions]
imports =
[cache]
path = cache
[results]
archive = archive
transfers = transfers
[inputs]
files = inputs/named_files
csvpaths = inputs/named_paths
on_unmatched_file_fingerprints = halt
"""

FORBIDDEN = re.compile(
    r"\b(Admitted|admit|Axiom|Axioms|Parameter|Parameters|Conjecture|Conjectures|Hypothesis|Hypotheses|Variable|Variables)\b"
    r"|Unset\s+Guard|bypass_check|type-in-type|impredicative-set|Admit\s+Obligations"
)


class Ctx:
    """One run of one check."""

    def __init__(self, pid, tier, seed):
        self.pid = pid
        self.tier = tier
        self.seed = seed
        self.t0 = time.time()
        self.rng = random.Random(seed)
        self.scratch = None
        self.pkg = None
        self.violations = []      # (replay path, tail words)
        self.known_lines = []
        self.coverage = {}
        self.assumptions = []
        self.notes = []
        self.src_hashes = {}

    # ---------------------------------------------------------------- scratch
    def clear_replays(self):
        import glob
        for f in glob.glob(os.path.join(OUT, "replays", f"{self.pid}-*.json")):
            os.remove(f)

    def setup_scratch(self):
        """Copy /repo's *working tree* package to a scratch dir, make it the csvpath that gets
        imported, and run from a private working directory with a private relative config."""
        base = os.environ.get("VERIF_SCRATCH_BASE", "/tmp")
        self.scratch = os.path.join(base, f"verif-{self.pid}-{os.getpid()}")
        shutil.rmtree(self.scratch, ignore_errors=True)
        os.makedirs(os.path.join(self.scratch, "pkg"))
        subprocess.run(
            ["rsync", "-a", "--exclude", "__pycache__", os.path.join(REPO, "csvpath"),
             os.path.join(self.scratch, "pkg") + "/"], check=True)
        self.pkg = os.path.join(self.scratch, "pkg")
        for root, _, files in os.walk(os.path.join(self.pkg, "csvpath")):
            for f in files:
                if f.endswith(".py") and f != "parsetab.py":
                    p = os.path.join(root, f)
                    with open(p, "rb") as fh:
                        self.src_hashes[os.path.relpath(p, self.pkg)] = hashlib.sha256(fh.read()).hexdigest()
        self.new_workdir("w0")
        # PLY rewrites csvpath/scanning/parsetab.py on first use when its signature differs; do that
        # once, before any parallel worker can see a half-written file
        with open("warm.csv", "w") as fh:
            fh.write("a\n1\n")
        subprocess.run([sys.executable, "-c", "from csvpath import CsvPath; p=CsvPath(); p.parse('$warm.csv[*][yes()]'); p.collect()"],
                       env=dict(os.environ, PYTHONPATH=self.pkg, CSVPATH_CONFIG_PATH="config.ini", PYTHONHASHSEED="0"),
                       capture_output=True, timeout=120)
        os.environ[GUARD] = "1"
        os.environ["PYTHONHASHSEED"] = "0"
        sys.path.insert(0, self.pkg)
        for k in [k for k in sys.modules if k == "csvpath" or k.startswith("csvpath.")]:
            del sys.modules[k]

    def new_workdir(self, name, config=CONFIG_INI):
        d = os.path.join(self.scratch, name)
        shutil.rmtree(d, ignore_errors=True)
        os.makedirs(d)
        with open(os.path.join(d, "config.ini"), "w") as fh:
            fh.write(config)
        os.chdir(d)
        os.environ["CSVPATH_CONFIG_PATH"] = "config.ini"
        return d

    def tree_digest(self):
        h = hashlib.sha256()
        for k in sorted(self.src_hashes):
            h.update(k.encode() + b"\0" + self.src_hashes[k].encode() + b"\n")
        return h.hexdigest()

    def cleanup(self):
        os.chdir(VERIF)
        if self.scratch:
            shutil.rmtree(self.scratch, ignore_errors=True)

    # ---------------------------------------------------------------- coq
    def coq_build(self, props_file):
        """Full .vo build of the Coq project (under a lock), forbidden-word scan, and a fresh
        compilation of Props/<id>.v whose Print Assumptions output is captured."""
        res = {"ok": False, "log": "", "obligations": 0, "discharged": 0, "assumptions": [], "theorems": []}
        lock = open(os.path.join(VERIF, ".build.lock"), "w")
        fcntl.flock(lock, fcntl.LOCK_EX)
        try:
            bad = scan_forbidden()
            if bad:
                res["log"] = "forbidden constructs in the development:\n" + "\n".join(bad)
                return res
            p = subprocess.run(["make", "-C", VERIF, "coq"], capture_output=True, text=True, timeout=3000)
            res["log"] = (p.stdout + p.stderr)[-4000:]
            build_ok = p.returncode == 0
        finally:
            fcntl.flock(lock, fcntl.LOCK_UN)
            lock.close()
        src = open(os.path.join(COQ, props_file)).read()
        thms = re.findall(r"^\s*(?:Theorem|Corollary|Example|Lemma)\s+(\w+)", src, re.M)
        res["theorems"] = thms
        res["obligations"] = len(thms)
        if not build_ok:
            # how far does the property file itself get?
            res["discharged"] = 0
            return res
        p = subprocess.run(["coqc", "-Q", ".", "V", "-w", "-notation-overridden,-deprecated-hint-without-locality",
                            props_file, "-o", os.path.join(self.scratch or "/tmp", os.path.basename(props_file) + "o")],
                           cwd=COQ, capture_output=True, text=True, timeout=1200)
        out = p.stdout + p.stderr
        if p.returncode != 0:
            res["log"] = out[-4000:]
            m = re.search(r"line (\d+)", out)
            if m:
                upto = int(m.group(1))
                lines = src.split("\n")[:upto]
                res["discharged"] = max(0, len(re.findall(r"^\s*(?:Theorem|Corollary|Example|Lemma)\s+(\w+)", "\n".join(lines), re.M)) - 1)
            return res
        res["discharged"] = len(thms)
        res["ok"] = True
        # Print Assumptions blocks
        blocks = re.split(r"\n(?=Closed under the global context|Axioms:|Section Variables:)", "\n" + out)
        res["assumptions"] = [b.strip()[:600] for b in blocks if b.strip()]
        return res

    def coq_eval(self, name, text, timeout=1800):
        """Evaluate a generated file with coqc (kernel vm_compute) and return its output."""
        d = os.path.join(self.scratch, "coqcases")
        os.makedirs(d, exist_ok=True)
        path = os.path.join(d, name + ".v")
        with open(path, "w") as fh:
            fh.write(text)
        p = subprocess.run(["coqc", "-Q", COQ, "V", "-w", "-notation-overridden,-deprecated-hint-without-locality", path],
                           cwd=d, capture_output=True, text=True, timeout=timeout)
        if p.returncode != 0:
            raise RuntimeError("coqc failed on generated cases: " + (p.stdout + p.stderr)[-3000:])
        return p.stdout

    # ---------------------------------------------------------------- results
    def replay_path(self, tag):
        os.makedirs(os.path.join(OUT, "replays"), exist_ok=True)
        return os.path.join(OUT, "replays", f"{self.pid}-{tag}.json")

    def violation(self, tag, payload, no_input=False):
        path = self.replay_path(tag)
        payload = dict(payload)
        payload.setdefault("property", self.pid)
        payload["tree_digest"] = self.tree_digest()
        with open(path, "w") as fh:
            json.dump(payload, fh, indent=1, default=str)
        self.violations.append((path, " no-failing-input-found" if no_input else ""))

    def known(self, what):
        self.known_lines.append(f"KNOWN-FINDING: property={self.pid} {what}")

    def finish(self, level="proof"):
        ev = {
            "property_id": self.pid,
            "tier": self.tier,
            "seed": self.seed,
            "level": level,
            "coverage": self.coverage,
            "assumptions": self.assumptions,
            "wall_s": round(time.time() - self.t0, 2),
            "violations": len(self.violations),
            "tree_digest": self.tree_digest(),
            "notes": self.notes,
        }
        os.makedirs(os.path.join(OUT, "evidence"), exist_ok=True)
        with open(os.path.join(OUT, "evidence", f"{self.pid}.json"), "w") as fh:
            json.dump(ev, fh, indent=1, default=str)
        for l in self.known_lines:
            print(l)
        for path, tail in self.violations:
            print(f"VIOLATION property={self.pid} replay={path}{tail}")
        sys.stdout.flush()
        return 1 if self.violations else 0


def scan_forbidden():
    """No Admitted/admit/Axiom/Parameter/Conjecture, no Variable/Hypothesis outside a Section,
    no disabled kernel checks anywhere in the development."""
    bad = []
    for root, _, files in os.walk(COQ):
        for f in files:
            if not f.endswith(".v"):
                continue
            p = os.path.join(root, f)
            depth = 0
            text = open(p).read()
            text = re.sub(r"\(\*.*?\*\)", lambda m: "\n" * m.group(0).count("\n"), text, flags=re.S)
            for i, line in enumerate(text.split("\n"), 1):
                if re.match(r"\s*Section\s+\w+", line):
                    depth += 1
                elif re.match(r"\s*End\s+\w+", line) and depth > 0:
                    depth -= 1
                for m in FORBIDDEN.finditer(line):
                    w = m.group(0)
                    if w.startswith(("Variable", "Hypothes")) and depth > 0:
                        continue
                    bad.append(f"{os.path.relpath(p, VERIF)}:{i}: {w}")
    return bad


def load_known():
    p = os.path.join(VERIF, "known_findings.json")
    if not os.path.exists(p):
        return {"open": [], "fixed": []}
    return json.load(open(p))


def known_open(pid, signature):
    for e in load_known().get("open", []):
        if e["property"] == pid and e["signature"] == signature:
            return e
    return None


def parse_zlist(out):
    """Parse the outputs of successive `Eval vm_compute in (… : list Z)` commands."""
    res = []
    for m in re.finditer(r"=\s*(\[.*?\]|nil)\s*:\s*list Z", out, re.S):
        res.append([int(x) for x in re.findall(r"-?\d+", m.group(1))])
    return res


# ---------------------------------------------------------------- Coq literals
def zlit(n):
    return str(n) if n >= 0 else f"({n})"


def blit(b):
    return "true" if b else "false"


def optlit(o, f=zlit):
    return "None" if o is None else f"(Some {f(o)})"


def listlit(xs, f=zlit):
    return "[" + "; ".join(f(x) for x in xs) + "]"


def strlit(s):
    """Python str -> list Z of code points."""
    return listlit([ord(c) for c in s])


def chunks(l, n):
    for i in range(0, len(l), n):
        yield l[i:i + n]


# ---------------------------------------------------------------- parallel implementation runs
_WORKER_READY = False


def _worker_init(scratch):
    global _WORKER_READY
    d = os.path.join(scratch, f"wk{os.getpid()}")
    os.makedirs(d, exist_ok=True)
    with open(os.path.join(d, "config.ini"), "w") as fh:
        fh.write(CONFIG_INI)
    os.chdir(d)
    os.environ["CSVPATH_CONFIG_PATH"] = "config.ini"
    import warnings
    warnings.simplefilter("ignore")
    _WORKER_READY = True


def pmap(ctx, func, items, procs=None, chunksize=8):
    """Run func over items in forked workers, each in its own working directory."""
    import multiprocessing as mp
    procs = procs or int(os.environ.get("VERIF_PROCS", "14"))
    if len(items) < 8 or procs <= 1:
        _worker_init(ctx.scratch)
        return [func(x) for x in items]
    mpctx = mp.get_context("fork")
    with mpctx.Pool(procs, initializer=_worker_init, initargs=(ctx.scratch,)) as pool:
        return pool.map(func, items, chunksize=chunksize)


class Quiet:
    """Silence stdout/stderr at file-descriptor level (csvpath prints from many places)."""

    def __enter__(self):
        sys.stdout.flush(); sys.stderr.flush()
        self.o, self.e = os.dup(1), os.dup(2)
        self.n = os.open(os.devnull, os.O_WRONLY)
        os.dup2(self.n, 1); os.dup2(self.n, 2)
        return self

    def __exit__(self, *a):
        sys.stdout.flush(); sys.stderr.flush()
        os.dup2(self.o, 1); os.dup2(self.e, 2)
        os.close(self.o); os.close(self.e); os.close(self.n)
        return False


# ---------------------------------------------------------------- generic Coq-side judging
def coq_bad(ctx, name, imports, ctype, lits, preds, chunk=300, par=8):
    """Evaluate boolean Coq predicates over a list of case literals with vm_compute (in parallel
    coqc processes); returns {pred: set(indices of cases where it is false)}."""
    import concurrent.futures as cf
    header = ("From Coq Require Import ZArith List Bool.\nFrom V Require Import Harness.Cmp " + imports +
              ".\nImport ListNotations.\nOpen Scope Z_scope.\n")
    parts = list(chunks(list(enumerate(lits)), chunk))

    def one(arg):
        n, part = arg
        text = header + f"Definition cases : list {ctype} := [\n " + ";\n ".join(l for _, l in part) + "].\n" + \
            "".join(f"Eval vm_compute in (bad ({p}) cases).\n" for p in preds)
        outs = parse_zlist(ctx.coq_eval(f"{name}{n}", text))
        if len(outs) != len(preds):
            raise RuntimeError("unexpected coqc output for " + name)
        return [(p, {part[i][0] for i in o}) for p, o in zip(preds, outs)]
    res = {p: set() for p in preds}
    with cf.ThreadPoolExecutor(max_workers=par) as ex:
        for r in ex.map(one, list(enumerate(parts))):
            for p, s in r:
                res[p] |= s
    return res


def ulit(s):
    """Python str or None -> Coq ustring / option ustring literal helpers"""
    return listlit([ord(c) for c in s])


def oulit(s):
    return "None" if s is None else f"(Some {ulit(s)})"


class Capture:
    """Redirect stdout (fd 1) to a temp file and stderr to /dev/null; .text has what was written."""

    def __init__(self, path):
        self.path = path
        self.text = ""

    def __enter__(self):
        sys.stdout.flush(); sys.stderr.flush()
        self.o, self.e = os.dup(1), os.dup(2)
        self.f = os.open(self.path, os.O_WRONLY | os.O_CREAT | os.O_TRUNC)
        self.n = os.open(os.devnull, os.O_WRONLY)
        os.dup2(self.f, 1); os.dup2(self.n, 2)
        return self

    def __exit__(self, *a):
        sys.stdout.flush(); sys.stderr.flush()
        os.dup2(self.o, 1); os.dup2(self.e, 2)
        os.close(self.o); os.close(self.e); os.close(self.n); os.close(self.f)
        with open(self.path, "r", errors="replace") as fh:
            self.text = fh.read()
        os.remove(self.path)
        return False
