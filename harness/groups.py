"""Real CsvPaths runs (named files, named paths, the six run methods) in a private working
directory, with everything a check may want to look at: the members' in-memory results, what the
run method yielded/raised, ResultsManager answers and a snapshot of the archive tree.
Shared by C04 (aggregate verdict), C08, C09, C10, C18, C20."""
import csv
import hashlib
import json
import os
import shutil

from common import CONFIG_INI, Quiet

METHODS = ["collect_paths", "fast_forward_paths", "next_paths", "collect_by_line", "fast_forward_by_line", "next_by_line"]


def snapshot(root="archive"):
    """relative path -> sha256 of the bytes, for every file under root"""
    snap = {}
    for d, _, files in os.walk(root):
        for f in files:
            p = os.path.join(d, f)
            with open(p, "rb") as fh:
                snap[os.path.relpath(p, ".")] = hashlib.sha256(fh.read()).hexdigest()
    return snap


def idx_of(line):
    if not line:
        return -1
    try:
        return int(str(line[0])[1:]) if str(line[0]).startswith("r") else (0 if line[0] == "id" else -2)
    except Exception:
        return -2


def member_obs(r):
    c = r.csvpath
    lines = None
    try:
        ls = r.lines
        if ls is None:
            lines = None
        elif isinstance(ls, (list, tuple)):
            lines = [list(l) for l in ls]
        elif hasattr(ls, "next"):
            lines = [list(l) for l in ls.next()]
        else:
            lines = [list(l) for l in ls.sink]
    except Exception as ex:  # noqa
        lines = "ERR " + type(ex).__name__
    return {
        "identity": c.identity, "lines": lines, "unmatched": [list(l) for l in (r.unmatched or [])] if r.unmatched is not None else None,
        "vars": json.dumps(c.variables, sort_keys=True, default=str), "is_valid": bool(c.is_valid), "result_is_valid": bool(r.is_valid),
        "errors": sorted({(e.line_count if isinstance(e.line_count, int) else -1) for e in (r.errors or [])}), "error_count": len(r.errors or []),
        "printouts": list(r.printouts or []) if not isinstance(r.printouts, dict) else dict(r.printouts),
        "scan_count": int(c.scan_count), "match_count": int(c.match_count), "stopped": bool(c.stopped), "completed": bool(c.completed),
        "calls": list(getattr(c, "_verif_calls", [])), "cwnm": bool(c.collect_when_not_matched), "will_run": bool(c.will_run),
        "scanner": None if c.scanner is None else {"these": list(c.scanner.these), "from": c.scanner.from_line, "to": c.scanner.to_line, "all": bool(c.scanner.all_lines)},
        "headers": [f"{h}" for h in (c.headers or [])],
        "run_dir": r.run_dir, "instance_dir": getattr(r, "instance_dir", None), "started": c.run_started_at is not None,
        "pln": (c.line_monitor.physical_line_number if c.line_monitor else None), "dlc": (c.line_monitor.data_line_count if c.line_monitor else None),
    }


def instrument(paths):
    """record every member's matcher answers (line, vote, stopped, advance, match_count) as runloop.real_run does"""
    orig = paths.csvpath

    def make():
        c = orig()
        calls = []
        om = c.matches

        def wrapped(line):
            r = om(line)
            calls.append((c.line_monitor.physical_line_number, bool(r), bool(c.stopped), int(c.advance_count), int(c.match_count)))
            return r
        c.matches = wrapped
        c._verif_calls = calls
        return c
    paths.csvpath = make


def do_run(paths, run):
    """run one method on a CsvPaths instance; returns observation dict"""
    m = run["method"]
    kw = {"pathsname": run["pathsname"], "filename": run["filename"]}
    for k in ("if_all_agree", "collect_when_not_matched"):
        if k in run and "by_line" in m:
            kw[k] = run[k]
    out = {"method": m, "exc": None, "yielded": None}
    try:
        if m.startswith("next"):
            y = []
            for line in getattr(paths, m)(**kw):
                y.append([x for x in line if isinstance(x, str)])
            out["yielded"] = y
        else:
            ret = getattr(paths, m)(**kw)
            if m == "collect_by_line":
                out["yielded"] = [[x for x in line if isinstance(x, str)] for line in (ret or [])]
    except Exception as ex:  # noqa
        out["exc"] = type(ex).__name__ + ": " + str(ex)[:120]
    try:
        rs = paths.results_manager.get_named_results(run["pathsname"]) or []
        out["members"] = [member_obs(r) for r in rs]
        out["rm_is_valid"] = bool(paths.results_manager.is_valid(run["pathsname"]))
    except Exception as ex:  # noqa
        out["members"] = []
        out["rm_exc"] = type(ex).__name__ + ": " + str(ex)[:120]
    return out


def run_history(job):
    """job = {id, files: {name: rows}, groups: {name: [csvpath,...]}, runs: [{method, pathsname, filename, new_instance}], policy: optional,
              snapshot: bool, delimiter/quotechar optional, keep: bool}"""
    from csvpath import CsvPaths
    home = os.getcwd()
    d = os.path.join(home, f"g{job['id']}")
    shutil.rmtree(d, ignore_errors=True)
    os.makedirs(d)
    os.chdir(d)
    res = {"runs": [], "setup_exc": None}
    try:
        with open("config.ini", "w") as fh:
            fh.write(job.get("config", CONFIG_INI))
        with Quiet():
            def new():
                p = CsvPaths(**{k: job[k] for k in ("delimiter", "quotechar") if k in job})
                if job.get("policy") is not None:
                    p.config.csvpath_errors_policy = list(job["policy"])
                if job.get("paths_policy") is not None:
                    p.config.csvpaths_errors_policy = list(job["paths_policy"])
                return p
            paths = new()
            for name, rows in job["files"].items():
                with open(f"{name}.csv", "w", newline="", encoding="utf-8") as fh:
                    csv.writer(fh).writerows(rows)
                paths.file_manager.add_named_file(name=name, path=f"{name}.csv")
            for name, ps in job["groups"].items():
                paths.paths_manager.add_named_paths(name=name, paths=list(ps))
            insts = {}
            for run in job["runs"]:
                if run.get("inst") is not None:          # named instances: a history may go back to an instance it used earlier
                    if run["inst"] not in insts:
                        insts[run["inst"]] = new()
                    paths = insts[run["inst"]]
                elif run.get("new_instance"):
                    paths = new()
                if job.get("record"):
                    instrument(paths)
                if "clock" in run and job.get("set_clock"):
                    job["set_clock"](run["clock"])
                before = snapshot() if job.get("snapshot") else None
                inputs_before = snapshot("inputs") if job.get("snapshot_inputs") else None
                o = do_run(paths, run)
                if inputs_before is not None:
                    o["inputs_before"] = inputs_before
                if job.get("snapshot"):
                    o["before"], o["after"] = before, snapshot()
                if job.get("inspect"):
                    o["inspect"] = job["inspect"](paths, run, o)
                res["runs"].append(o)
    except Exception as ex:  # noqa
        res["setup_exc"] = type(ex).__name__ + ": " + str(ex)[:160]
    finally:
        os.chdir(home)
        if not job.get("keep"):
            shutil.rmtree(d, ignore_errors=True)
    return res
