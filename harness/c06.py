"""C06 — lines are delivered as they are in the file; headers are the first data line.

Deciding method: Coq theorems Props/C06.v (csv round trip for every dialect and all CR-free
rows, composed with the run loop for [*][yes()] and with the header functions).  Tie to /repo:
on every run real csv.writer output, real CsvPath.collect() lines, CsvPath.headers and the
values of #index/#name on every line are compared, by the Coq kernel, with the model
(Harness/C06Cmp.c06_agree) and with the property itself (c06_spec)."""
import csv
import os
import re

from common import Quiet, coq_bad, known_open, listlit, oulit, pmap, ulit  # noqa

TRUSTED_EXTRA = [
    "Python's csv.writer/csv.reader and text-mode open() are modelled by Csv/CsvModel.v (QUOTE_MINIMAL writer, universal newlines, the reader's state machine) and compared with the real ones on every generated file of this run",
]
SIG_EMPTY = "empty-file-crash"

ALPHA = ["a", "b", "x", "Z", "0", "1", "7", " ", " ", ",", ";", "|", "\t", '"', "'", "\n", "`", "é", "ß", "中",
         "\U0001F600", "é", "\x00", "\x0b", "\x0c", "\x1c", "\x85", " ", " ", "　", "-", "_", ".", "#", "$", "~", "\\"]
TIDY = ["a", "b", "c", "a b", "x_1", "n-2", "A", "a", "b", "Id"]
DECOR = ["", "", "", " ", ";", ",", "|", "\t", "`", "  ", " "]


def gen_cell(rng):
    r = rng.random()
    if r < 0.12:
        return ""
    if r < 0.3:
        return str(rng.choice([0, 1, 5, 10, 12, 100, -3]))
    n = rng.choice([1, 1, 2, 2, 3, 4, 6])
    return "".join(rng.choice(ALPHA) for _ in range(n))


def gen_file(rng):
    nrec = rng.choice([0, 1, 2, 3, 4, 5, 6, 8, 10, 12])
    rows = []
    tidy = rng.random() < 0.6
    first = True
    for _ in range(nrec):
        if rng.random() < 0.18:
            rows.append([])
            continue
        w = rng.choice([1, 1, 2, 3, 3, 4, 5, 6])
        if first and tidy:
            row = [rng.choice(DECOR) + rng.choice(TIDY) + rng.choice(DECOR) for _ in range(w)]
        else:
            row = [gen_cell(rng) for _ in range(w)]
        first = False
        rows.append(row)
    if rng.random() < 0.1:
        rows.append([])
    d = rng.choice([",", ",", ";", "|", "\t"])
    q = rng.choice(['"', '"', "'"])
    return rows, d, q


NAME_OK = re.compile(r"^[A-Za-z][A-Za-z0-9_ -]*$")


def clean_py(h):
    """only used to choose which names to probe; the judging is done in Coq"""
    h = h.strip()
    for c in ";,|\t`":
        h = h.replace(c, "")
    return h


def probes_for(rows, rng):
    width = max([len(r) for r in rows] + [0])
    idx = sorted(set([0, 1, width - 1 if width else 0, width, width + 1]))
    idx = [i for i in idx if i >= 0][:5]
    names = []
    hdr = next((r for r in rows if r), [])
    for h in hdr:
        c = clean_py(h)
        if NAME_OK.match(c) and c == c.strip() and c not in names:
            names.append(c)
    names = names[:4] + ["zzz"]
    return [("i", i) for i in idx] + [("n", n) for n in names]


def impl(job):
    rows, d, q, probes, fname = job
    from csvpath import CsvPath
    with open(fname, "w", newline="", encoding="utf-8") as fh:
        csv.writer(fh, delimiter=d, quotechar=q).writerows(rows)
    with open(fname, "r", newline="", encoding="utf-8") as fh:
        text = fh.read()
    out = {"text": text, "exc": None, "lines": [], "headers": [], "vals": [[] for _ in probes]}
    try:
        comps = []
        for k, (kind, v) in enumerate(probes):
            ref = f"#{v}" if kind == "i" else (f'#"{v}"' if " " in v else f"#{v}")
            comps.append(f'push("p{k}", {ref})')
        with Quiet():
            p = CsvPath(delimiter=d, quotechar=q)
            p.config.csvpath_errors_policy = ["raise", "collect"]
            p.parse(f"${fname}[*][ " + " ".join(comps) + " ]")
            lines = p.collect()
        out["lines"] = [list(l) for l in lines]
        out["headers"] = list(p.headers)
        out["vals"] = [list(p.variables.get(f"p{k}", [])) for k in range(len(probes))]
        for vs in out["vals"]:
            for v in vs:
                if v is not None and not isinstance(v, str):
                    raise TypeError("non-string header value %r" % (v,))
    except Exception as ex:  # noqa
        out["exc"] = type(ex).__name__ + ": " + str(ex)[:100]
        out["lines"], out["headers"], out["vals"] = [], [], [[] for _ in probes]
    finally:
        try:
            os.remove(fname)
        except OSError:
            pass
    return out


GROUP_CFG = None


def gen_group_job(rng, i):
    """a named-paths group in which one member rewrites its own lines/headers (append / reset_headers / replace / collect projection) between
    members that do not: the read-only members must still see the file as it is, in this run and in a later run"""
    rows, _, _ = gen_file(rng)
    while not any(rows):
        rows, _, _ = gen_file(rng)
    rows = [[c.replace("\x00", "0") for c in r] for r in rows]
    w = rng.choice(['append("extra", "x")', 'append("extra", count())', 'reset_headers()', 'collect(0)', 'replace(0, "zz")', 'yes()'])
    members = ['~id: ro0~ $[*][ yes() ]', f'~id: w~ $[*][ {w} ]', '~id: ro1~ $[*][ yes() ]']
    rng.shuffle(members)
    runs = [{"method": "collect_paths", "pathsname": "g", "filename": "f", "new_instance": False},
            {"method": rng.choice(["collect_paths", "collect_by_line"]), "pathsname": "g", "filename": "f", "new_instance": rng.random() < 0.5}]
    return {"id": i, "files": {"f": rows}, "groups": {"g": members}, "runs": runs, "policy": ["collect", "print"], "rewriter": w}


def rows_lit(rows):
    return listlit(rows, lambda r: listlit(r, ulit))


def case_lit(job, o):
    rows, d, q, probes, _ = job
    pl = listlit(probes, lambda p: f"(ByIndex {p[1]}%nat)" if p[0] == "i" else f"(ByName {ulit(p[1])})")
    vl = listlit(o["vals"], lambda vs: listlit(vs, oulit))
    return (f"mkC06 (mkDialect {ord(d)} {ord(q)}) {rows_lit(rows)} {ulit(o['text'])} {'true' if o['exc'] else 'false'} "
            f"{rows_lit(o['lines'])} {listlit(o['headers'], ulit)} {pl} {vl}")


def describe(job, o):
    rows, d, q, probes, _ = job
    return {"rows": rows, "delimiter": d, "quotechar": q, "probes": probes,
            "impl": {"exception": o["exc"], "lines": o["lines"], "headers": o["headers"], "values": o["vals"]},
            "expected_lines": [r for r in rows if r]}


def run(ctx):
    rng = ctx.rng
    n = 1200 if ctx.tier == "quick" else 40000
    jobs = []
    for i in range(n):
        rows, d, q = gen_file(rng)
        jobs.append((rows, d, q, probes_for(rows, rng), f"c06_{i}.csv"))
    res = pmap(ctx, impl, jobs, chunksize=16)
    lits = [case_lit(j, o) for j, o in zip(jobs, res)]
    bad = coq_bad(ctx, "c06", "Csv.CsvModel Data.DataModel Harness.C06Cmp", "c06case", lits, ["c06_agree", "c06_spec"], chunk=250)
    spec_bad, agree_bad = sorted(bad["c06_spec"]), sorted(bad["c06_agree"])
    empty = [i for i in spec_bad if not any(jobs[i][0]) and res[i]["exc"]]          # no non-blank record at all
    other = [i for i in spec_bad if i not in empty]
    if empty:
        c = describe(jobs[empty[0]], res[empty[0]])
        if known_open(ctx.pid, SIG_EMPTY):
            ctx.known(f"{SIG_EMPTY}: a file with no records makes collect() raise ({c['impl']['exception']}); {len(empty)} cases this run")
        else:
            ctx.violation("empty-file", {"what": "a file without records is not 'read as it is' (no lines, no headers): collect() raises",
                                         "case": c, "cases_this_run": len(empty)})
    if other:
        ctx.violation("spec", {"what": "returned lines / headers / header values differ from the file's records",
                               "case": describe(jobs[other[0]], res[other[0]]), "more": [describe(jobs[i], res[i]) for i in other[1:4]]})
    elif [i for i in agree_bad if i not in empty]:
        i = [i for i in agree_bad if i not in empty][0]
        ctx.violation("correspondence", {"what": "correspondence Csv/CsvModel.v + Data/DataModel.v vs csv.writer / CsvPath.collect / headers no longer checks (Harness/C06Cmp.c06_agree); theorems C06_* are about the model only",
                                         "disagreeing_case": describe(jobs[i], res[i])}, no_input=True)
    # named-paths groups: members that do not rewrite still see the file as it is, next to a member that does
    import io
    import groups
    gjobs = [gen_group_job(rng, i) for i in range(40 if ctx.tier == "quick" else 1200)]
    gres = pmap(ctx, groups.run_history, gjobs, chunksize=2)
    glits, gsrc, gfail = [], [], []
    for j, r in zip(gjobs, gres):
        if r["setup_exc"]:
            gfail.append({"kind": "setting up the group raised", "job": {k: j[k] for k in ("files", "groups")}, "exc": r["setup_exc"]})
            continue
        buf = io.StringIO(newline="")
        csv.writer(buf).writerows(j["files"]["f"])
        for ri, o in enumerate(r["runs"]):
            if o["exc"]:
                gfail.append({"kind": "the group run raised", "group": j["groups"]["g"], "rows": j["files"]["f"], "run": ri, "exc": o["exc"]})
                continue
            for m in o["members"]:
                if not str(m["identity"]).startswith("ro") or not isinstance(m["lines"], list):
                    continue
                fake = {"text": buf.getvalue(), "exc": None, "lines": m["lines"], "headers": m["headers"], "vals": []}
                glits.append(case_lit((j["files"]["f"], ",", '"', [], None), fake))
                gsrc.append((j, ri, o["method"], m))
    gbad = sorted(coq_bad(ctx, "c06g", "Csv.CsvModel Data.DataModel Harness.C06Cmp", "c06case", glits, ["c06_spec"], chunk=250)["c06_spec"]) if glits else []
    # every member's collected lines (the rewriter's too) against the model of the record hand-over (Mgr/LinePass.v)
    KIND = {'append("extra", "x")': f"(RwAppend ustring {ulit('x')})", 'reset_headers()': "(RwResetHeaders ustring)", 'collect(0)': "(RwCollect0 ustring)",
            'replace(0, "zz")': f"(RwReplace0 ustring {ulit('zz')})", 'yes()': "(RwNone ustring)"}
    mlits, msrc = [], []
    for j, r in zip(gjobs, gres):
        if r["setup_exc"] or j["rewriter"] not in KIND:
            continue
        recs = [row for row in j["files"]["f"] if row]
        for ri, o in enumerate(r["runs"]):
            if o["exc"] or len(o["members"]) != 3 or not all(isinstance(m["lines"], list) for m in o["members"]):
                continue
            kinds = ["(RwNone ustring)" if str(m["identity"]).startswith("ro") else KIND[j["rewriter"]] for m in o["members"]]
            mlits.append(f"mkC06G [{'; '.join(kinds)}] {'true' if 'by_line' in o['method'] else 'false'} {rows_lit(recs)} {listlit([m['lines'] for m in o['members']], rows_lit)}")
            msrc.append((j, ri, o))
    mbad = coq_bad(ctx, "c06m", "Csv.CsvModel Data.DataModel Mgr.LinePass Harness.C06Cmp", "c06gcase", mlits, ["c06g_agree false", "c06g_agree true"], chunk=100) if mlits else {"c06g_agree false": set(), "c06g_agree true": set()}
    m_shared = sorted(i for i in mbad["c06g_agree false"] if i not in mbad["c06g_agree true"])
    m_other = sorted(i for i in mbad["c06g_agree false"] if i in mbad["c06g_agree true"])
    if m_shared and not gbad:
        j, ri, o = msrc[m_shared[0]]
        gfail.append({"kind": "in a breadth-first run the members are handed the record as rewritten / projected by the members before them (the implementation agrees with Mgr/LinePass.v only "
                              "with deviation switch q_share on: fixed finding D28 is back; witness C06_byline_shared_refuted)", "group": j["groups"]["g"], "rows": j["files"]["f"], "run": ri,
                      "method": o["method"], "collected": {m["identity"]: m["lines"][:4] for m in o["members"]}})
    for i in gbad:
        j, ri, meth, m = gsrc[i]
        gfail.append({"kind": "a member that rewrites nothing did not get the file's records / first-record headers in a named-paths run where another member rewrites its own",
                      "group": j["groups"]["g"], "rows": j["files"]["f"], "run": ri, "method": meth, "member": m["identity"], "headers_seen": m["headers"], "lines_seen": m["lines"][:4]})
    if gfail:
        ctx.violation("group", {"what": gfail[0]["kind"], "case": gfail[0], "more": gfail[1:3], "failures": len(gfail)})
    elif m_other:
        j, ri, o = msrc[m_other[0]]
        ctx.violation("correspondence", {"what": "correspondence Mgr/LinePass.v vs next_by_line / collect_paths no longer checks (Harness/C06Cmp.c06g_agree): what the members of a group with a "
                                                 "rewriting member collected; theorems C06_byline_* are about the model only",
                                         "disagreeing_case": {"group": j["groups"]["g"], "rows": j["files"]["f"], "run": ri, "method": o["method"],
                                                              "collected": {m["identity"]: m["lines"][:4] for m in o["members"]}}}, no_input=True)
    nontriv = {repr(j[:3]) for j, o in zip(jobs, res) if not o["exc"] and len(o["lines"]) >= 2 and
               any(any(ch in c for ch in (j[1], j[2], "\n")) for r in j[0] for c in r)}
    ctx.coverage.update({
        "evaluations": len(jobs), "distinct_nontrivial": len(nontriv),
        "rule": "files of 0-12 records x 0-6 cells from a hostile alphabet (delimiters, both quote chars, LF, NUL, VT, FF, NEL, LS, NBSP, astral, combining), "
                "blank records anywhere, 5 delimiters x 2 quote chars, written by real csv.writer, run by real CsvPath(delimiter,quotechar).collect() with one push(#index / #name) "
                "per probe; 60% of files have an identifier-like (decorated) header row so that #name probes exist. Non-trivial = distinct file with >= 2 returned lines and a cell "
                "containing the delimiter, the quote char or LF.",
        "samples": [describe(jobs[0], res[0]), describe(jobs[len(jobs) // 2], res[len(jobs) // 2])],
        "group_runs": sum(len(r["runs"]) for r in gres), "group_member_comparisons": len(glits), "group_runs_against_linepass_model": len(mlits),
        "group_rule": "named-paths groups of two read-only members and one member that rewrites its own lines/headers (append, reset_headers, collect(0), replace) in random order, run twice "
                      "(serial, then serial or breadth-first, same or new CsvPaths): the read-only members' lines and headers against the file by c06_spec",
        "traces_validated_against_impl": len(jobs) - len(agree_bad),
        "correspondence": f"model == implementation on {len(jobs) - len(agree_bad)} of {len(jobs)} files",
        "spec_failures": len(spec_bad), "empty_file_cases": sum(1 for j in jobs if not any(j[0])),
        "dialects": {f"{j[1]!r}{j[2]!r}": 0 for j in jobs}.__len__(),
        "name_probes": sum(1 for j in jobs for p in j[3] if p[0] == "n"), "index_probes": sum(1 for j in jobs for p in j[3] if p[0] == "i"),
    })


def replay(ctx, payload):
    c = payload.get("case") or payload.get("disagreeing_case")
    o = impl((c["rows"], c["delimiter"], c["quotechar"], [tuple(p) for p in c["probes"]], "replay_c06.csv"))
    print("rows      :", c["rows"])
    print("impl now  :", o["exc"] or (o["lines"], o["headers"], o["vals"]))
    print("expected  :", c["expected_lines"])
    return 0 if (not o["exc"] and o["lines"] == c["expected_lines"]) else 1
