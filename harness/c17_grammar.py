"""C17, source-derived part of the tie: the character classes of the match grammar's name terminals are read from
LarkParser.GRAMMAR (the text in csvpath/matching/lark_parser.py of the tree under test), evaluated with Python's re on a
range of code points, and compared by the Coq kernel with the model's predicates (Match/Syntax.v: idc, hqc, is_letter,
is_digit, wsc).  A change to a terminal's class is then a disagreement on a named character, not something a random tree
has to stumble on."""
import re

CODES = list(range(0, 0x180)) + [0x3b1, 0x4e2d, 0x2028, 0xa0, 0x2003]


def classes():
    from csvpath.matching.lark_parser import LarkParser
    g = LarkParser.GRAMMAR
    out = {}

    def rule(name):
        m = re.search(r"^\s*" + re.escape(name) + r"\s*:\s*(.*)$", g, re.M)
        if not m:
            raise ValueError("terminal not found in GRAMMAR: " + name)
        return m.group(1)

    def char_classes(text):
        # the bracket expressions of the regex literals on that line, in order
        return re.findall(r"\[(?:\\.|[^\]\\])*\]", text)
    hdr = char_classes(rule("HEADER"))
    var = char_classes(rule("VARIABLE"))
    ref = char_classes(rule("REFERENCE"))
    fun = char_classes(rule("function"))
    if len(hdr) != 2 or len(var) != 1 or len(ref) != 1 or len(fun) != 2:
        raise ValueError(f"unexpected shape of the name terminals: {hdr} {var} {ref} {fun}")
    out["header"], out["header_quoted"], out["variable"], out["reference"], out["function_first"], out["function_rest"] = hdr[0], hdr[1], var[0], ref[0], fun[0], fun[1]
    table = {k: [bool(re.fullmatch(v, chr(c))) for c in CODES] for k, v in out.items()}
    # whitespace ignored between tokens: %import common.WS
    ws = re.compile(r"[ \t\f\r\n]")
    if "%import common.WS" not in g or "%ignore WS" not in g:
        raise ValueError("the grammar no longer ignores common.WS")
    table["ws"] = [bool(ws.fullmatch(chr(c))) for c in CODES]
    return out, table
