"""C05 — errors in match components are handled exactly as the error policy says.

Deciding method: Coq theorem C05_outcome (Props/C05.v) over the model of
ErrorHandler._handle_if / ErrorCommsManager / validation-mode for all 64 policies x all
validation-mode settings x every prior state.  Tie to /repo: (a) the real
ErrorHandler.handle_error is called directly for every policy x validation-mode comment x prior
(valid, stopped) and compared with model and property by the Coq kernel; (b) real csvpaths with an
error-provoking component (5 kinds + the blank-final-record path) on chosen lines are run under
every policy and a set of validation modes and judged against the property's statement."""
import collections
import itertools
import os

import gen
from common import Quiet, blit, coq_bad, known_open, optlit, pmap

FL = ["raise", "collect", "stop", "fail", "print", "quiet"]
SIG_QUIET = "quiet-policy-crashes"
SIG_LASTS = "lasts-errors-untrapped"


def pol_lit(pol):
    return "(mkPol " + " ".join(blit(f in pol) for f in FL) + ")"


def vm_text(vm):
    """vm: dict flag -> None/True/False for raise, print, stop, fail"""
    parts = [(k if v else "no-" + k) for k, v in vm.items() if v is not None]      # incl. match / no-match
    return ("validation-mode: " + ", ".join(parts) + " :") if parts else ""


def vm_lit(vm):
    o = lambda b: "None" if b is None else f"(Some {blit(b)})"
    return f"(mkVm {o(vm['raise'])} {o(vm['print'])} {o(vm['stop'])} {o(vm['fail'])} {o(vm.get('match'))})"


def eff(vm, pol, k):
    return vm[k] if vm[k] is not None else (k in pol)


# ---------------------------------------------------------------- (a) the handler, called directly
def kernel_batch(batch):
    from csvpath import CsvPath
    from csvpath.util.error import ErrorHandler
    from csvpath.util.printer import TestPrinter
    from csvpath.matching.util.exceptions import MatchException
    with open("k05.csv", "w") as fh:
        fh.write("a\n1\n2\n")
    out = []
    with Quiet():
        for vm, cases in batch:
            c = CsvPath()
            tp = TestPrinter()
            c.add_printer(tp)
            t = vm_text(vm)
            c.parse((f"~{t}~ " if t else "") + "$k05.csv[*][yes()]")
            c.collect()
            for pol, valid0, stopped0 in cases:
                c.config.csvpath_errors_policy = list(pol)
                c._errors = [] if hasattr(c, "_errors") else None
                c.errors.clear() if c.errors else None
                n0 = len(c.errors or [])
                c.is_valid = True
                c._is_valid = valid0
                c.stopped = stopped0
                tp.lines.clear()
                kind = 0
                try:
                    ErrorHandler(csvpath=c, error_collector=c).handle_error(ValueError("boom"))
                except MatchException:
                    kind = 1
                except Exception:
                    kind = 2
                out.append((kind, len(c.errors or []) - n0, bool(c.stopped), bool(c.is_valid), len(tp.lines)))
    return out


# ---------------------------------------------------------------- (b) real runs
KINDS = {"pyexc": '@s = int(#a)', "argtype": '@s = add(#a, 1)', "rule": '@s = substring(#b, int(#n))',
         "nested": 'yes() -> @t = add(#a, 2)', "rhs": '@q = subtract(int(#a), 1)', "lasts": 'last.nocontrib() -> @s = int("zz")', "skipafter": '@s = int(#a) skip() yes()',
         "stopafter": '@s = int(#a) eq.nocontrib(#b, "y") -> stop() yes()',
         # the error is in the condition of a when/do whose action is fail(): a condition that raised did not come out true, the action does not run
         "whenfail": 'lt(int(#a), -5) -> fail()',
         # two errors on one line: add() reports its non-numeric argument, gt() that it cannot continue over an invalid child — each is handled
         "nested2": 'gt(add(#a, 1), 0)',
         # two nested faults under one parent: add() and subtract() each report theirs, gt() that it cannot continue — three errors
         "nested3": 'gt(add(#a, 1), subtract(#a, 1))',
         # one nested fault under a parent used for its value: exactly one error (the parent sees a failed argument, not a missing one)
         "nestedval": '@v = add(add(#a, 1), 2)'}
# the errors one offending line raises (each is handled: one record under 'collect', one message under 'print')
PER_LINE = {"whenfail": 2, "nested2": 2, "nested3": 3, "nestedval": 1}      # (-5: lt() answers <= — open finding D1 — and a cell may hold 0)


def run_impl(job):
    kind, pol, vm, offending, fname = job[:5]
    zero = len(job) > 5 and job[5]        # a file without a header row, scanned from line 0, cells addressed by index
    from csvpath import CsvPath
    from csvpath.util.printer import TestPrinter
    rows = [] if zero else [["a", "b", "n"]]
    for i in range(0 if zero else 1, 5):
        rows.append(["zz", "y", "-1"] if i in offending else [str(i), "x", "1"])
    if kind == "lasts":
        rows.append([])
    gen.write_rows(fname, rows)
    out = {"exc": None}
    try:
        t = vm_text(vm)
        comp = KINDS[kind].replace("#a", "#0").replace("#b", "#1").replace("#n", "#2") if zero else KINDS[kind]
        text = (f"~{t}~ " if t else "") + f'${fname}[{"*" if zero else "1*"}][ push("seen", line_number()) {comp} ]'
        out["text"] = text
        with Quiet():
            c = CsvPath()
            tp = TestPrinter()
            c.add_printer(tp)
            c.config.csvpath_errors_policy = list(pol)
            lines = None
            try:
                lines = c.collect(text)
            except Exception as ex:  # noqa
                out["exc"] = type(ex).__name__
        out.update({"lines": None if lines is None else [l[0] for l in lines], "error_lines": sorted({e.line_count for e in (c.errors or [])}), "error_counts": sorted(collections.Counter(e.line_count for e in (c.errors or [])).items()),
                    "valid": bool(c.is_valid), "printed": len(tp.lines), "seen": list(c.variables.get("seen", [])), "stopped": bool(c.stopped)})
    except Exception as ex:  # noqa
        out["exc"] = "SETUP " + type(ex).__name__ + str(ex)[:60]
    finally:
        try:
            os.remove(fname)
        except OSError:
            pass
    return out


def expected(kind, pol, vm, offending, zero=False):
    """the property's statement, for these program shapes"""
    R, S, F, P, C = eff(vm, pol, "raise"), eff(vm, pol, "stop"), eff(vm, pol, "fail"), eff(vm, pol, "print"), "collect" in pol
    lo = 0 if zero else 1
    M = vm.get("match") is True          # validation-mode: match - a line whose component raised matches all the same
    name = (lambda i: "zz" if (M and i in offending) else str(i))
    if kind == "lasts":
        # the only error is on the frozen extra evaluation of the blank final record (line 5)
        return {"exc": "MatchException" if R else None, "lines": None if R else [str(i) for i in range(lo, 5)],
                "error_lines": [5] if C else [], "valid": not F, "printed": P, "seen": list(range(lo, 5))}
    first = min(offending)
    upto = list(range(lo, first + 1))
    if R:
        return {"exc": "MatchException", "lines": None, "error_lines": [first] if C else [], "valid": not F, "printed": P, "seen": upto}
    if S:
        return {"exc": None, "lines": [name(i) for i in upto if M or i not in offending], "error_lines": [first] if C else [], "valid": not F, "printed": P, "seen": upto}
    return {"exc": None, "lines": [name(i) for i in range(lo, 5) if M or i not in offending], "error_lines": sorted(offending) if C else [], "valid": not F, "printed": P,
            "seen": list(range(lo, 5))}


_expected = expected


def expected(kind, pol, vm, offending, zero=False):  # noqa: F811
    e = _expected(kind, pol, vm, offending, zero)
    if kind == "skipafter" and e["lines"] is not None:
        e["lines"] = []          # a skip() after the offending component: no line matches; the error is handled all the same
    if kind == "whenfail" and e["lines"] is not None:
        # the condition is false on every other line (a when/do votes its condition), so no line matches (validation-mode: match is not combined with this kind)
        e["lines"] = []
    e["per_line"] = PER_LINE.get(kind)        # judged for the kinds whose number of errors per line is stated above (not under validation-mode: match, where evaluation goes on)
    if vm.get("match") is True:
        e["per_line"] = None
    R, S = eff(vm, pol, "raise"), eff(vm, pol, "stop")
    # the lines whose errors are handled before the run ends: with raise only the first error of the first line (not judged), with stop the first line
    e["handled_lines"] = None if (R or kind == "lasts") else (1 if S else len(offending))
    if R:
        e["per_line"] = None
    if kind == "stopafter":
        # a later component of the offending line stops the run (stop() is not the last component, so that line is not returned):
        # the error raised before the stop is handled all the same
        lo, first = (0 if zero else 1), min(offending)
        e["seen"] = list(range(lo, first + 1))
        if e["lines"] is not None:
            e["lines"] = [str(i) for i in range(lo, first)]
        if e["error_lines"]:
            e["error_lines"] = [first]
    return e


def judge(o, e):
    if o["exc"] != e["exc"]:
        return "exception reaches the caller iff 'raise'"
    if o["error_lines"] != e["error_lines"]:
        return "an error record with the line number is collected iff 'collect'"
    if o["valid"] != e["valid"]:
        return "is_valid becomes False iff 'fail'"
    if (o["printed"] > 0) != e["printed"]:
        return "the message is sent to the printers iff 'print'"
    if e.get("per_line") and o.get("error_counts") is not None:
        # every error of a line is handled, not only the first: one record each under 'collect', one message each under 'print'
        if [list(x) for x in o["error_counts"]] != [[l, e["per_line"]] for l in e["error_lines"]]:
            return "every error raised on a line is collected (one record each) iff 'collect'"
        if e["printed"] and e["handled_lines"] is not None and o["printed"] != e["per_line"] * e["handled_lines"]:
            return "every error raised on a line is sent to the printers (one message each) iff 'print'"
    if o["seen"] != e["seen"]:
        return "the run stops at that line iff 'stop'"
    if o["lines"] != e["lines"]:
        return "the offending line does not match; other lines are unaffected"
    return None


def subsets():
    for r in range(len(FL) + 1):
        for c in itertools.combinations(FL, r):
            yield c


def run(ctx):
    rng = ctx.rng
    quick = ctx.tier == "quick"
    # (a)
    vms = [dict(zip(["raise", "print", "stop", "fail"], v)) for v in itertools.product([None, True, False], repeat=4)]
    batch, kcases = [], []
    for vm in vms:
        cases = [(pol, v0, s0) for pol in subsets() for v0, s0 in ([(True, False)] if quick else [(True, False), (False, False), (True, True), (False, True)])]
        batch.append((vm, cases))
        kcases += [(vm, pol, v0, s0) for pol, v0, s0 in cases]
    groups = [batch[i:i + 6] for i in range(0, len(batch), 6)]
    kres = [r for g in pmap(ctx, kernel_batch, groups, chunksize=1) for r in g]
    klits = [f"mkC05K {pol_lit(pol)} {vm_lit(vm)} {blit(v0)} {blit(s0)} {r[0]} {r[1]} {blit(r[2])} {blit(r[3])} {r[4]}"
             for (vm, pol, v0, s0), r in zip(kcases, kres)]
    kbad = coq_bad(ctx, "c05k", "Match.Errors Harness.C05Cmp", "c05k", klits, ["c05k_agree false", "c05k_agree true", "c05k_spec"], chunk=2000)

    def kcase(i):
        vm, pol, v0, s0 = kcases[i]
        return {"level": "handler", "policy": list(pol), "validation_mode": vm_text(vm), "valid_before": v0, "stopped_before": s0,
                "impl": dict(zip(["outcome(0 ok,1 MatchException,2 other)", "records_collected", "stopped", "is_valid", "printed"], kres[i]))}
    # (b)
    RVMS = [dict.fromkeys(["raise", "print", "stop", "fail"])]
    RVMS += [dict(RVMS[0], **d) for d in ({"raise": False, "stop": False}, {"raise": True, "print": True}, {"fail": True, "stop": True}, {"print": False, "fail": False})]
    # validation-mode: match / no-match (the line whose component raised matches / does not match)
    RVMS += [dict(RVMS[0], **d) for d in ({"match": True}, {"match": True, "raise": False, "stop": True}, {"match": False})]
    OFF = [{1}, {2}, {4}, {1, 2, 3, 4}, {2, 3}]
    rjobs = []
    for kind in KINDS:
        for pol in subsets():
            for vm in RVMS:
                offs = [rng.choice(OFF)] if quick else OFF
                if kind == "lasts":
                    offs = [set()]
                if kind in ("whenfail", "nested2", "nested3") and vm.get("match") is True:
                    continue
                for off in offs:
                    rjobs.append((kind, pol, vm, off))
    if quick:
        rjobs = [j for j in rjobs if j[0] != "lasts" or rng.random() < 0.5]
    # the same over a file without a header row scanned from line 0 (an error on line 0 is an error like any other)
    OFF0 = [{0}, {0, 2}, {3}, {0, 1, 2, 3, 4}]
    zjobs = []
    for kind in KINDS:
        for pol in subsets():
            for vm in (RVMS[:2] if quick else RVMS):
                if kind in ("nested2", "nested3") and vm.get("match") is True:
                    continue          # (as above: a condition component, not an assignment — validation-mode: match does not lift its vote)
                for off in ([rng.choice(OFF0)] if quick else OFF0):
                    zjobs.append((kind, pol, vm, set() if kind == "lasts" else off))
    if quick:
        zjobs = [j for j in zjobs if rng.random() < 0.5]
    rjobs = [j + (f"c05_{i}.csv", False) for i, j in enumerate(rjobs)] + [j + (f"c05z_{i}.csv", True) for i, j in enumerate(zjobs)]
    rres = pmap(ctx, run_impl, rjobs, chunksize=16)
    rfail = []
    for i, (j, o) in enumerate(zip(rjobs, rres)):
        why = judge(o, expected(j[0], j[1], j[2], j[3], j[5]))
        if why:
            rfail.append((i, why))

    def rcase(i, why=None):
        kind, pol, vm, off = rjobs[i][:4]
        return {"level": "run", "csvpath": rres[i].get("text"), "error_kind": kind, "policy": list(pol), "validation_mode": vm_text(vm), "offending_lines": sorted(off),
                "impl": rres[i], "expected": expected(kind, pol, vm, off, rjobs[i][5]), "headerless_from_line_0": rjobs[i][5], "violated_clause": why}
    quiet_fail = [(i, w) for i, w in rfail if "quiet" in rjobs[i][1] and rres[i]["exc"] == "AttributeError"]
    lasts_fail = [(i, w) for i, w in rfail if rjobs[i][0] == "lasts" and (i, w) not in quiet_fail]
    other = [(i, w) for i, w in rfail if (i, w) not in quiet_fail and (i, w) not in lasts_fail]
    k_quiet = [i for i in kbad["c05k_spec"] if "quiet" in kcases[i][1] and i not in kbad["c05k_agree true"]]
    k_other = [i for i in sorted(kbad["c05k_spec"]) if i not in k_quiet]
    if quiet_fail or k_quiet:
        c = rcase(*quiet_fail[0]) if quiet_fail else kcase(k_quiet[0])
        if known_open(ctx.pid, SIG_QUIET):
            ctx.known(f"{SIG_QUIET}: any error under a policy containing 'quiet' dies with AttributeError ({len(quiet_fail)} runs, {len(k_quiet)} handler calls)")
        else:
            ctx.violation("quiet", {"what": "a policy containing 'quiet' makes every handled error die with AttributeError whatever the other flags say "
                                            "(the implementation agrees with the model only with deviation switch quiet_crashes on; C05_quiet_refuted)", "case": c,
                                    "runs": len(quiet_fail), "handler_calls": len(k_quiet)})
    if lasts_fail:
        c = rcase(*lasts_fail[0])
        if known_open(ctx.pid, SIG_LASTS):
            ctx.known(f"{SIG_LASTS}: {c['csvpath']} ({len(lasts_fail)} runs)")
        else:
            ctx.violation("lasts", {"what": "an error raised while the last() components run on a blank final record bypasses the error policy", "case": c, "runs": len(lasts_fail)})
    if other or k_other:
        c = rcase(*other[0]) if other else kcase(k_other[0])
        ctx.violation("policy", {"what": "error handling differs from the configured policy / validation-mode: " + (other[0][1] if other else "handler outcome"), "case": c,
                                 "more": [rcase(*t) for t in other[1:4]], "failures": len(other) + len(k_other)})
    elif not (quiet_fail or k_quiet or lasts_fail) and kbad["c05k_agree false"]:
        ctx.violation("correspondence", {"what": "correspondence Match/Errors.v vs ErrorHandler._handle_if no longer checks (Harness/C05Cmp.c05k_agree); theorem C05_outcome is about the model only",
                                         "disagreeing_case": kcase(sorted(kbad["c05k_agree false"])[0])}, no_input=True)
    # the translator tie: ErrorCommsManager.do_i_* / ErrorHandler._handle_if as written in the source of the tree under test, regenerated and
    # (when the text differs from the checked-in Match/ErrSrc.v) re-proved equal to the model
    import srctie
    tie = srctie.check(ctx, "errors")
    if tie["status"] in ("untranslatable", "unproved") and not ctx.violations:
        ctx.violation("source-tie", {"what": "the translation of ErrorCommsManager.do_i_* / ErrorHandler._handle_if from csvpath/util/error.py is no longer proved equal to the model: theorem handle_if_src_eq (C05_handle_source, C05_decisions_source) "
                                             "does not check against the source of this tree; the generated cases of this run found no input on which the property fails",
                                     "theorem": "handle_if_src_eq (C05_handle_source, C05_decisions_source)", "tie": tie}, no_input=True)
    ctx.coverage.update({
        "evaluations": len(kcases) + len(rjobs), "distinct_nontrivial": len({(j[0], j[1], vm_text(j[2]), tuple(sorted(j[3]))) for j, o in zip(rjobs, rres) if o.get("error_lines") or o["exc"]}),
        "rule": "handler: all 64 policies x all 81 validation-mode comments (raise/print/stop/fail each absent, set, negated) x prior (valid, stopped) states (quick: 1, thorough: 4), real "
                "ErrorHandler.handle_error on a parsed CsvPath; runs: 9 error kinds (the condition of 'cond -> fail()' raising, Python exception, argument type, function rule, right of '->', nested, last() on a blank final record, error followed by skip() on the same line, error followed by a non-final stop() on the same line) "
                "x 64 policies x 5 validation modes x offending-line sets {first, second, last, all, middle two} (quick: one set each), and again over a file without a header row scanned from line 0 with offending sets {0}, {0,2}, {3}, all, real collect() with a TestPrinter. Non-trivial = "
                "distinct run in which an error was recorded or raised.",
        "samples": [kcase(0), rcase(len(rjobs) // 3)],
        "handler_calls": len(kcases), "runs": len(rjobs), "run_failures": len(rfail), "handler_spec_failures": len(kbad["c05k_spec"]),
        "traces_validated_against_impl": len(kcases) - len(kbad["c05k_agree false"]),
        "correspondence": f"clean model == handler on {len(kcases) - len(kbad['c05k_agree false'])}/{len(kcases)} calls (with switch quiet_crashes on: {len(kcases) - len(kbad['c05k_agree true'])})",
        "exhaustive": not quick,
    })
    ctx.coverage["source_tie"] = {"status": tie["status"], "detail": tie["detail"][:400]}


def replay(ctx, payload):
    c = payload.get("case") or payload.get("disagreeing_case")
    print(c)
    if c["level"] == "run":
        vm = dict.fromkeys(["raise", "print", "stop", "fail"])
        for part in c["validation_mode"].replace("validation-mode:", "").replace(":", "").split(","):
            part = part.strip()
            if part:
                vm[part.replace("no-", "")] = not part.startswith("no-")
        o = run_impl((c["error_kind"], tuple(c["policy"]), vm, set(c["offending_lines"]), "replay_c05.csv", bool(c.get("headerless_from_line_0"))))
        print("impl now:", o)
        return 0 if judge(o, c["expected"]) is None else 1
    return 0
