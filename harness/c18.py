"""C18 — a run that aborts still leaves a truthful, readable record.

Deciding method: Coq theorems (Props/C18.v) over an event model of the except paths of the run
methods, for every abort point (member, line) and any group size: the exception reaches the
caller, the run manifest never says complete, the aborting member is saved with the aborting error
and its line number, earlier members keep complete results.  Tie to /repo: the property's own
quantifier is enumerated on the real code: every (member, line) abort point of groups of 1-3
csvpaths over files of up to 6 records, for the three serial methods and two breadth-first ones;
the abort is provoked by a component that raises on that line under validation-mode raise; the
record left on disk (directories, readable JSON, errors.json lines, manifests), a snapshot of the
named-files and named-paths stores and one further run on the same instance are compared with the
model and the property by the Coq kernel."""
import itertools
import json
import os

import groups
from common import CONFIG_INI, blit, coq_bad, known_open, listlit, pmap

SIG_D13 = "abort-on-last-scanned-line-completed-true"
CFG = CONFIG_INI.replace("csvpath = collect, fail, print", "csvpath = collect, print")
METHODS = ["collect_paths", "fast_forward_paths", "next_paths", "collect_by_line", "next_by_line"]


def inspect(paths, run, o):
    """what is on record for the run that just ended (aborted or not)"""
    out = {"members": [], "status": None, "run_dir": None}
    base = os.path.join("archive", run["pathsname"])
    try:
        dirs = sorted(os.listdir(base), key=lambda d: os.path.getmtime(os.path.join(base, d)))
        rd = os.path.join(base, dirs[-1])
        out["run_dir"] = rd
        rm = json.load(open(os.path.join(rd, "manifest.json")))
        out["status"] = rm.get("status")
        for ident in run["identities"]:
            d = os.path.join(rd, ident)
            rec = {"dir": False, "completed": None, "error_lines": []}
            if os.path.isdir(d):
                try:
                    json.load(open(os.path.join(d, "meta.json")))
                    json.load(open(os.path.join(d, "vars.json")))
                    errs = json.load(open(os.path.join(d, "errors.json")))
                    rec["dir"] = True
                    rec["error_lines"] = sorted({e.get("line_count") for e in errs if isinstance(e.get("line_count"), int)})
                except Exception as ex:  # noqa
                    rec["unreadable"] = type(ex).__name__
                mp = os.path.join(d, "manifest.json")
                if os.path.exists(mp):
                    try:
                        rec["completed"] = json.load(open(mp)).get("completed")
                    except Exception as ex:  # noqa
                        rec["unreadable"] = "manifest " + type(ex).__name__
            out["members"].append(rec)
    except Exception as ex:  # noqa
        out["exc"] = type(ex).__name__ + ": " + str(ex)[:100]
    out["stores"] = groups.snapshot("inputs")
    return out


def make_job(jid, n, i, line, nrec, method, scans, kind="expr", next_method="collect_paths", vmode="raise"):
    """kind expr: the abort is an error inside a match component under validation-mode raise; kind limit: an exception raised
    outside the match components (the collect() function names a header that record [line] does not have)"""
    members = []
    for k in range(n):
        if k == i and kind == "limit":
            members.append(f'~id: m{k} validation-mode: {vmode}~ $[{scans[k]}][ push("s", line_number()) collect("id", "a") ]')
        elif k == i:
            members.append(f'~id: m{k} validation-mode: {vmode}~ $[{scans[k]}][ push("s", line_number()) eq(line_number(), {line}) -> @x = int("zz") ]')
        else:
            members.append(f'~id: m{k}~ $[{scans[k]}][ push("s", line_number()) ]')
    rows = [["id", "a"]] + [([f"r{j}"] if (kind == "limit" and j == line) else [f"r{j}", str(j)]) for j in range(1, nrec)]
    ids = [f"m{k}" for k in range(n)]
    return {"id": jid, "files": {"f": rows}, "groups": {"g": members, "ok": ['~id: m0~ $[*][ yes() ]', '~id: m1~ $[1*][ @c = count() ]']},
            "runs": [{"method": method, "pathsname": "g", "filename": "f", "new_instance": True, "identities": ids},
                     {"method": next_method, "pathsname": "ok", "filename": "f", "new_instance": False, "identities": ["m0", "m1"]}],
            "config": CFG, "inspect": inspect, "snapshot_inputs": True, "meta": {"n": n, "i": i, "line": line, "nrec": nrec, "method": method, "scans": scans, "kind": kind, "next_method": next_method, "vmode": vmode}}


def last_line(scan, nrec):
    if scan == "*":
        return nrec - 1
    if scan.endswith("*"):
        return nrec - 1
    a, b = scan.split("-")
    return min(int(b), nrec - 1)


def run(ctx):
    rng = ctx.rng
    quick = ctx.tier == "quick"
    points = []
    for n in (1, 2, 3):
        for i in range(n):
            for nrec in (3, 5, 6):
                for line in range(0, nrec):
                    for method in METHODS:
                        points.append((n, i, line, nrec, method))
    if quick:
        rng.shuffle(points)
        points = points[:260]
        points.append((2, 0, 2, 3, "collect_paths"))      # the witness of the open finding abort-on-last-scanned-line-completed-true, in every run
    else:
        points = points * 4          # every abort point under four random choices of the members' scan windows
    jobs = []
    for jid, (n, i, line, nrec, method) in enumerate(points):
        scans = [rng.choice(["*", "*", "1*", f"0-{nrec - 2}", "0-1", "1-2"]) for _ in range(n)]
        # the aborting member must reach its abort line
        if line == 0 and scans[i] == "1*":
            scans[i] = "*"
        if "-" in scans[i]:
            a, b = (int(v) for v in scans[i].split("-"))
            if not a <= line <= b:
                scans[i] = "*"
        # (breadth-first runs too have members with other scan windows: one whose scan ended before the abort keeps its complete result)
        # (the breadth-first methods trim lines elsewhere and do not raise here: the out-of-component abort is for the serial methods)
        # (of the breadth-first methods only collect_by_line trims collected lines and can raise here)
        kind = "limit" if (line >= 1 and ("by_line" not in method or method == "collect_by_line") and rng.random() < 0.4) else "expr"
        # the error policy of the aborting member: raise alone, or raise together with stop / fail / collect / print (the library's own default order)
        vmode = rng.choice(["raise", "raise", "raise, stop", "raise, collect, stop, fail, print", "raise, fail", "stop, raise"])
        jobs.append(make_job(jid, n, i, line, nrec, method, scans, kind, rng.choice(METHODS), vmode))      # the further run on the same instance uses any of the methods
    res = pmap(ctx, groups.run_history, jobs, chunksize=2)
    lits, broken = [], []
    for j, r in zip(jobs, res):
        m = j["meta"]
        if r["setup_exc"] or len(r["runs"]) != 2:
            broken.append((j, r))
            lits.append(None)
            continue
        o, o2 = r["runs"]
        ins, ins2 = o["inspect"], o2["inspect"]
        byline = "by_line" in m["method"]
        mems = ins.get("members") or []
        ml = listlit(mems, lambda x: f"(mkC18M {blit(x['dir'])} {'None' if x['completed'] is None else '(Some ' + blit(bool(x['completed'])) + ')'} {listlit(x['error_lines'])})")
        stores_ok = o.get("inputs_before") == ins.get("stores") == ins2.get("stores")      # named-files / named-paths stores: before the aborted run == after it == after the next run
        next_ok = (o2["exc"] is None and ins2.get("status") == "complete" and ins2.get("run_dir") != ins.get("run_dir")
                   and all(x["dir"] and x["completed"] is True for x in (ins2.get("members") or [{"dir": False, "completed": None}])))
        lasts = [last_line(s, m["nrec"]) for s in m["scans"]]
        lits.append(f"mkC18 {blit(byline)} {m['n']}%nat {m['i']}%nat {m['line']} {listlit(lasts)} {blit(bool(o['exc']))} {blit(ins.get('status') == 'complete')} {ml} "
                    f"{blit(stores_ok)} {blit(next_ok)}")
    idx = [k for k, l in enumerate(lits) if l is not None]
    bad = coq_bad(ctx, "c18", "Mgr.Abort Harness.C18Cmp", "c18case", [lits[k] for k in idx], ["c18_agree", "c18_spec"], chunk=300)
    spec_bad = [idx[k] for k in sorted(bad["c18_spec"])]
    agree_bad = [idx[k] for k in sorted(bad["c18_agree"])]

    def case(k):
        j, r = jobs[k], res[k]
        return {"abort_point": j["meta"], "group": j["groups"]["g"], "impl": {"exception": r["runs"][0]["exc"] if r["runs"] else None, "record": (r["runs"][0]["inspect"] if r["runs"] else None) and
                                                                                    {kk: vv for kk, vv in r["runs"][0]["inspect"].items() if kk != "stores"},
                                                                                    "next_run": (r["runs"][1]["exc"], {kk: vv for kk, vv in r["runs"][1]["inspect"].items() if kk != "stores"}) if len(r["runs"]) > 1 else None}}
    d13 = [k for k in spec_bad if k not in agree_bad and jobs[k]["meta"]["line"] == last_line(jobs[k]["meta"]["scans"][jobs[k]["meta"]["i"]], jobs[k]["meta"]["nrec"])]
    other = [k for k in spec_bad if k not in d13]
    if d13:
        if known_open(ctx.pid, SIG_D13):
            ctx.known(f"{SIG_D13}: an abort on the last line of the member's scan leaves its manifest saying completed: true ({len(d13)} abort points this run; witness C18_abort_on_last_line_refuted)")
        else:
            ctx.violation("completed-on-last-line", {"what": "an abort on the last line of the aborting member's scan leaves its manifest saying completed: true", "case": case(d13[0]), "abort_points": len(d13)})
    if other or broken:
        c = case(other[0]) if other else {"abort_point": broken[0][0]["meta"], "impl": broken[0][1]}
        ctx.violation("abort-record", {"what": "an aborted run did not leave the truthful, readable record the property describes (exception to the caller; aborting member saved with the error and "
                                               "its line, completed false; earlier members complete; run manifest not complete; stores unchanged; next run archives normally)",
                                       "case": c, "abort_points": len(other) + len(broken)})
    elif agree_bad and not d13:
        ctx.violation("correspondence", {"what": "correspondence Mgr/Abort.v vs the except paths of csvpaths.py no longer checks (Harness/C18Cmp.c18_agree); theorems C18_* are about the model only",
                                         "disagreeing_case": case(agree_bad[0])}, no_input=True)
    elif agree_bad:
        extra = [k for k in agree_bad if k not in d13]
        if extra:
            ctx.violation("correspondence", {"what": "correspondence Mgr/Abort.v vs csvpaths.py no longer checks (Harness/C18Cmp.c18_agree)", "disagreeing_case": case(extra[0])}, no_input=True)
    ctx.coverage.update({
        "evaluations": len(jobs) * 2, "distinct_nontrivial": len({repr(j["meta"]) for j in jobs}),
        "rule": "abort points (member index i of n in 1..3, line 0..nrec-1, nrec in {3,5,6}) x {collect_paths, fast_forward_paths, next_paths, collect_by_line, next_by_line} "
                "(quick: 260 random points of the 840; thorough: all, each under four random choices of scan windows), random scan windows for the members; abort = 'eq(line_number(), L) -> @x = int(\"zz\")' under validation-mode raise (alone or with stop/fail/collect/print), or (30% of the points with L >= 1) an exception raised outside the match components: collect(\"id\", \"a\") on a record L that lacks the header; then one "
                "further run (any of the five methods) of another group on the same instance. Non-trivial = every distinct abort point.",
        "samples": [case(0)], "exhaustive": not quick, "abort_points": len(jobs),
        "traces_validated_against_impl": len(idx) - len(agree_bad), "spec_failures": len(spec_bad), "on_last_scanned_line": len(d13),
        "correspondence": f"event model == implementation on {len(idx) - len(agree_bad)}/{len(idx)} aborted runs",
    })


def replay(ctx, payload):
    c = payload.get("case") or payload.get("disagreeing_case")
    m = c["abort_point"]
    r = groups.run_history(make_job(0, m["n"], m["i"], m["line"], m["nrec"], m["method"], m["scans"], m.get("kind", "expr"), m.get("next_method", "collect_paths")))
    for o in r["runs"]:
        print(o["exc"], {k: v for k, v in o["inspect"].items() if k != "stores"})
    return 0
