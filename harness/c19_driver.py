"""Runs a sequence of (csvpath, file) jobs in ONE process and prints their result tuples as JSON.
Started by harness/c19.py as a subprocess: a fresh interpreter is the point.
argv: <package dir> <work dir> <jobs.json>   jobs: [{text, rows, fname, how, delimiter?}]  how in direct|paths|newpaths"""
import csv
import json
import os
import sys


def main():
    pkg, work, jf = sys.argv[1:4]
    sys.path.insert(0, pkg)
    os.chdir(work)
    os.environ["CSVPATH_CONFIG_PATH"] = "config.ini"
    devnull = os.open(os.devnull, os.O_WRONLY)
    out = os.dup(1)
    os.dup2(devnull, 1)
    os.dup2(devnull, 2)
    import warnings
    warnings.simplefilter("ignore")
    from csvpath import CsvPath, CsvPaths
    from csvpath.util.printer import TestPrinter
    jobs = json.load(open(jf))
    res = []
    paths = None
    for j in jobs:
        r = {"exc": None}
        try:
            with open(j["fname"], "w", newline="", encoding="utf-8") as fh:
                csv.writer(fh).writerows(j["rows"])
            if j["how"] == "direct":
                c = CsvPath()
            else:
                if paths is None or j["how"] == "newpaths":
                    paths = CsvPaths()
                c = paths.csvpath()
            tp = TestPrinter()
            c.add_printer(tp)
            c.config.csvpath_errors_policy = ["collect", "print"]
            c.parse(j["text"])
            lines = c.collect()
            r.update({"lines": [list(l) for l in lines], "vars": json.loads(json.dumps(c.variables, sort_keys=True, default=str)), "printouts": list(tp.lines),
                      "errors": sorted({e.line_count for e in (c.errors or [])}), "is_valid": bool(c.is_valid), "scan_count": int(c.scan_count),
                      "match_count": int(c.match_count), "headers": list(c.headers or []), "stopped": bool(c.stopped)})
        except Exception as ex:  # noqa
            r["exc"] = type(ex).__name__ + ": " + str(ex)[:120]
        res.append(r)
    os.dup2(out, 1)
    sys.stdout.write(json.dumps(res))
    sys.stdout.flush()


if __name__ == "__main__":
    main()
