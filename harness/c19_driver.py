"""Runs a sequence of (csvpath, file) jobs in ONE process and prints their result tuples as JSON.
Started by harness/c19.py as a subprocess: a fresh interpreter is the point.
argv: <package dir> <work dir> <jobs.json>   jobs: [{text, rows, fname, how, delimiter?}]  how in direct|paths|newpaths"""
import csv
import json
import os
import sys


def main():
    pkg, work, jf = sys.argv[1:4]
    sys.path.insert(0, pkg)
    os.chdir(work)
    os.environ["CSVPATH_CONFIG_PATH"] = "config.ini"
    devnull = os.open(os.devnull, os.O_WRONLY)
    out = os.dup(1)
    os.dup2(devnull, 1)
    os.dup2(devnull, 2)
    import warnings
    warnings.simplefilter("ignore")
    from csvpath import CsvPath, CsvPaths
    from csvpath.util.printer import TestPrinter
    jobs = json.load(open(jf))
    res = []
    paths = None
    for j in jobs:
        r = {"exc": None}
        try:
            if os.path.dirname(j["fname"]):
                os.makedirs(os.path.dirname(j["fname"]), exist_ok=True)
            with open(j["fname"], "w", newline="", encoding="utf-8") as fh:
                csv.writer(fh).writerows(j["rows"])
            if j["how"] == "group":
                # the job as a one-member named-paths group, always under the same group name, run by collect_paths on the shared instance:
                # what the results manager holds for the group afterwards is this run and nothing else
                if paths is None:
                    paths = CsvPaths()
                orig = getattr(paths, "_verif_orig", None) or paths.csvpath
                paths._verif_orig = orig
                made = []

                def mk():
                    c0 = orig()
                    tp0 = TestPrinter()
                    c0.add_printer(tp0)
                    c0.config.csvpath_errors_policy = ["collect", "print"]
                    made.append((c0, tp0))
                    return c0
                paths.csvpath = mk
                fid = f"f{len(res)}"
                paths.file_manager.add_named_file(name=fid, path=j["fname"])
                paths.paths_manager.add_named_paths(name="g", paths=[j["text"].replace("$" + j["fname"], "$", 1)])
                paths.collect_paths(pathsname="g", filename=fid)
                rs = paths.results_manager.get_named_results("g")
                c, tp = made[-1]
                try:
                    lines = [list(l) for l in rs[-1].lines.next()]
                except Exception:  # noqa  (a run that collected nothing keeps no data file)
                    lines = []
                r.update({"lines": lines, "vars": json.loads(json.dumps(c.variables, sort_keys=True, default=str)), "printouts": list(tp.lines),
                          "errors": sorted({e.line_count for e in (rs[-1].errors or [])}), "is_valid": bool(c.is_valid), "scan_count": int(c.scan_count),
                          "match_count": int(c.match_count), "headers": list(c.headers or []), "stopped": bool(c.stopped), "n_results": len(rs)})
                res.append(r)
                continue
            if j["how"] == "direct":
                c = CsvPath()
            else:
                if paths is None or j["how"] == "newpaths":
                    paths = CsvPaths()
                c = paths.csvpath()
            tp = TestPrinter()
            c.add_printer(tp)
            c.config.csvpath_errors_policy = ["collect", "print"]
            c.parse(j["text"])
            lines = c.collect()
            r.update({"lines": [list(l) for l in lines], "vars": json.loads(json.dumps(c.variables, sort_keys=True, default=str)), "printouts": list(tp.lines),
                      "errors": sorted({e.line_count for e in (c.errors or [])}), "is_valid": bool(c.is_valid), "scan_count": int(c.scan_count),
                      "match_count": int(c.match_count), "headers": list(c.headers or []), "stopped": bool(c.stopped), "n_results": 1})
        except Exception as ex:  # noqa
            r["exc"] = type(ex).__name__ + ": " + str(ex)[:120]
        res.append(r)
    os.dup2(out, 1)
    sys.stdout.write(json.dumps(res))
    sys.stdout.flush()


if __name__ == "__main__":
    main()
