"""C02 — the scan part selects exactly the lines it denotes.

Deciding method: Coq theorems Props/C02.v (C02_includes, C02_is_last_sound, C02_run) about the
hand-written model Scan/ScanModel.v + Run/RunLoop.v; the model is tied to /repo by a
correspondence check: the real Scanner (parse, includes, is_last) and real CsvPath.collect()
runs are compared, case by case, with the model evaluated by the Coq kernel (vm_compute)."""
import itertools
import json
import os

from common import (Quiet, blit, chunks, known_open, listlit, optlit, parse_zlist, pmap, zlit)

SIG_D3 = "scan-zero-bound-truthiness"


# ------------------------------------------------------------------ shapes
TRUSTED_EXTRA = [
    "harness/py2v.py (fail-closed translator of Scanner.includes / Scanner.is_last from the source under test into coq/Scan/ScanSrc.v) and coq/Scan/PySem.v (CPython's ==, <, and/or, in, len, max, truthiness on int/None/bool/list as a deep embedding with an absorbing error value)",
]
def shape_str(sh):
    k = sh[0]
    if k == "All":
        return "*"
    if k == "From":
        return f"{sh[1]}*"
    if k == "Range":
        return f"{sh[1]}-{sh[2]}"
    return "+".join(str(i[1]) if i[0] == "One" else f"{i[1]}-{i[2]}" for i in sh[1])


def item_lit(i):
    return f"(One {zlit(i[1])})" if i[0] == "One" else f"(Rng {zlit(i[1])} {zlit(i[2])})"


def shape_lit(sh):
    k = sh[0]
    if k == "All":
        return "All"
    if k == "From":
        return f"(From {zlit(sh[1])})"
    if k == "Range":
        return f"(Range {zlit(sh[1])} {zlit(sh[2])})"
    return f"(Items {item_lit(sh[1][0])} {listlit(sh[1][1:], item_lit)})"


def ast_lit(sh):
    def num(n):
        return f"(TNum {zlit(n)})"
    k = sh[0]
    if k == "All":
        return "(TStar, [])"
    if k == "From":
        return f"(TNumStar {zlit(sh[1])}, [])"
    if k == "Range":
        return f"({num(sh[1])}, [(Minus, {num(sh[2])})])"
    toks = []
    for i in sh[1]:
        toks.append(("Plus", i[1]))
        if i[0] == "Rng":
            toks.append(("Minus", i[2]))
    first = toks[0][1]
    return f"({num(first)}, {listlit(toks[1:], lambda t: f'({t[0]}, {num(t[1])})')})"


def asc_lists(maxb, maxitems, start=0):
    """all ascending, non-overlapping lists of 1..maxitems items with bounds start..maxb"""
    def rec(lo, k):
        if k == 0:
            return
        for a in range(lo, maxb + 1):
            for it in [("One", a)] + [("Rng", a, b) for b in range(a, maxb + 1)]:
                hi = it[1] if it[0] == "One" else it[2]
                yield [it]
                for rest in rec(hi + 1, k - 1):
                    yield [it] + rest
    yield from rec(start, maxitems)


def all_shapes(maxb, maxitems):
    yield ("All",)
    for n in range(0, maxb + 1):
        yield ("From", n)
    for a in range(0, maxb + 1):
        for b in range(0, maxb + 1):
            yield ("Range", a, b)
    for l in asc_lists(maxb, maxitems):
        yield ("Items", l)


def random_shape(rng, maxb):
    r = rng.random()
    if r < 0.05:
        return ("All",)
    if r < 0.15:
        return ("From", rng.randint(0, maxb))
    if r < 0.3:
        return ("Range", rng.randint(0, maxb), rng.randint(0, maxb))
    n = rng.randint(1, 5)
    pts = sorted(rng.sample(range(0, maxb + 1), min(maxb + 1, rng.randint(n, min(2 * n, maxb + 1)))))
    items, i = [], 0
    while i < len(pts) and len(items) < n:
        if i + 1 < len(pts) and rng.random() < 0.45:
            items.append(("Rng", pts[i], pts[i + 1])); i += 2
        else:
            items.append(("One", pts[i])); i += 1
    return ("Items", items)


# ------------------------------------------------------------------ implementation side
class _Log:
    def __getattr__(self, n):
        return lambda *a, **k: None


class _LM:
    def __init__(self, e):
        self.physical_end_line_number = e


class _Path:
    def __init__(self, e):
        self.logger = _Log()
        self.line_monitor = _LM(e)


def impl_kernel(job):
    scan, lines, end = job
    from csvpath.scanning.scanner import Scanner
    try:
        with Quiet():
            s = Scanner(csvpath=_Path(end))
            s.parse(f"$f[{scan}]")
            inc = [bool(s.includes(l)) for l in lines]
            last = [bool(s.is_last(l)) for l in lines]
        return (False, inc, last)
    except Exception as ex:  # noqa
        return (True, [], [])


def impl_run(job):
    scan, blanks = job
    from csvpath import CsvPath
    # a few file names per worker process, reused from case to case: the same path holds other records each time, so anything a
    # process remembers about a path (line totals, the known end used by '*' and 'N*') would show
    name = f"f{os.getpid()}_{abs(hash((scan, tuple(blanks)))) % 3}.csv"
    with open(name, "w", newline="") as fh:
        for i, b in enumerate(blanks):
            fh.write("\n" if b else f"r{i},x\n")
    try:
        with Quiet():
            p = CsvPath()
            p.parse(f"${name}[{scan}][yes()]")
            lines = p.collect()
        ret = [int(l[0][1:]) for l in lines]
        return (False, ret, int(p.scan_count))
    except Exception as ex:  # noqa
        return (True, [], 0)
    finally:
        try:
            os.remove(name)
        except OSError:
            pass


# ------------------------------------------------------------------ the check
HEADER = """From Coq Require Import ZArith List Bool.
From V Require Import Scan.ScanModel Scan.ScanSpec Run.RunLoop Harness.Cmp Harness.C02Cmp.
Import ListNotations.
Open Scope Z_scope.
"""


def gen_cases(ctx):
    quick = ctx.tier == "quick"
    rng = ctx.rng
    # kernel cases: exhaustive over small bounds, random over the full bound 0..12
    kshapes = list(all_shapes(5 if quick else 6, 3 if quick else 4))
    kshapes += [random_shape(rng, 12) for _ in range(1500 if quick else 12000)]
    seen, ks = set(), []
    for sh in kshapes:
        s = shape_str(sh)
        if s not in seen:
            seen.add(s); ks.append(sh)
    kjobs = []
    for sh in ks:
        end = rng.choice([3, 7, 10, 12])
        kjobs.append((sh, list(range(0, 15)), end))
    # run cases: shapes x files with blank patterns
    rjobs = []
    if quick:
        base = [sh for sh in all_shapes(4, 2)] + [random_shape(rng, 12) for _ in range(500)]
        for sh in base:
            n = rng.randint(1, 10)
            blanks = [rng.random() < 0.3 for _ in range(n)]
            if rng.random() < 0.25:
                blanks[-1] = True
            rjobs.append((sh, blanks))
    else:
        # every blank pattern of every N <= 6 for small shapes; random patterns for N <= 10
        small = [sh for sh in all_shapes(3, 2)]
        for sh in small:
            for n in range(1, 7):
                for bl in itertools.product([False, True], repeat=n):
                    if rng.random() < 0.12:
                        rjobs.append((sh, list(bl)))
        for _ in range(12000):
            sh = random_shape(rng, 12)
            n = rng.randint(1, 10)
            blanks = [rng.random() < 0.3 for _ in range(n)]
            rjobs.append((sh, blanks))
    return kjobs, rjobs


def run(ctx):
    kjobs, rjobs = gen_cases(ctx)
    kres = pmap(ctx, impl_kernel, [(shape_str(sh), lines, end) for sh, lines, end in kjobs], chunksize=64)
    rres = pmap(ctx, impl_run, [(shape_str(sh), bl) for sh, bl in rjobs], chunksize=16)

    # --- evaluate model and spec in Coq on the same cases
    kbad_clean, kbad_quirk, kbad_spec, kbad_shape = set(), set(), set(), set()
    off = 0
    for n, part in enumerate(chunks(list(zip(kjobs, kres)), 400)):
        lits = []
        for (sh, lines, end), (perr, inc, last) in part:
            lits.append(f"mkK {ast_lit(sh)} (Some {shape_lit(sh)}) {listlit(lines)} {optlit(end)} {blit(perr)} "
                        f"{listlit(inc, blit)} {listlit(last, blit)}")
        text = HEADER + "Definition cases : list kcase := [\n " + ";\n ".join(lits) + "].\n" + \
            "Eval vm_compute in (bad (kagree false) cases).\nEval vm_compute in (bad (kagree true) cases).\n" \
            "Eval vm_compute in (bad kspec cases).\nEval vm_compute in (bad kshape_ok cases).\n"
        a, b, c, d = parse_zlist(ctx.coq_eval(f"c02k{n}", text))
        kbad_clean |= {off + i for i in a}; kbad_quirk |= {off + i for i in b}
        kbad_spec |= {off + i for i in c}; kbad_shape |= {off + i for i in d}
        off += len(part)
    rbad_clean, rbad_quirk, rbad_spec = set(), set(), set()
    off = 0
    for n, part in enumerate(chunks(list(zip(rjobs, rres)), 400)):
        lits = []
        for (sh, bl), (err, ret, sc) in part:
            lits.append(f"mkR {ast_lit(sh)} (Some {shape_lit(sh)}) {listlit(bl, blit)} {blit(err)} {listlit(ret)} {zlit(sc)}")
        text = HEADER + "Definition cases : list rcase := [\n " + ";\n ".join(lits) + "].\n" + \
            "Eval vm_compute in (bad (ragree false) cases).\nEval vm_compute in (bad (ragree true) cases).\n" \
            "Eval vm_compute in (bad rspec cases).\n"
        a, b, c = parse_zlist(ctx.coq_eval(f"c02r{n}", text))
        rbad_clean |= {off + i for i in a}; rbad_quirk |= {off + i for i in b}; rbad_spec |= {off + i for i in c}
        off += len(part)
    if kbad_shape:
        raise RuntimeError("harness bug: python ast_lit disagrees with Coq ast_of on cases %s" % sorted(kbad_shape)[:5])

    def kcase(i):
        sh, lines, end = kjobs[i]
        perr, inc, last = kres[i]
        return {"level": "kernel", "scan": shape_str(sh), "shape": shape_lit(sh), "lines": lines, "end_line": end,
                "impl": {"parse_raised": perr, "includes": inc, "is_last": last}}

    def rcase(i):
        sh, bl = rjobs[i]
        err, ret, sc = rres[i]
        return {"level": "run", "scan": shape_str(sh), "shape": shape_lit(sh), "blank_records": bl,
                "impl": {"raised": err, "returned_record_indices": ret, "scan_count": sc},
                "expected_by_spec": [j for j, b in enumerate(bl) if not b and denotes_py(sh, j)]}

    # --- decision
    has_zero = lambda sh: "0" in [t for t in shape_str(sh).replace("+", " ").replace("-", " ").replace("*", " ").split()]
    spec_fail = [("k", i) for i in sorted(kbad_spec)] + [("r", i) for i in sorted(rbad_spec)]
    clean_bad = [("k", i) for i in sorted(kbad_clean)] + [("r", i) for i in sorted(rbad_clean)]
    quirk_bad = [("k", i) for i in sorted(kbad_quirk)] + [("r", i) for i in sorted(rbad_quirk)]
    get = lambda t: kcase(t[1]) if t[0] == "k" else rcase(t[1])
    shape_of = lambda t: kjobs[t[1]][0] if t[0] == "k" else rjobs[t[1]][0]
    corr = "model(clean) == implementation on all cases"
    if clean_bad and not quirk_bad:
        corr = "model agrees with the implementation only with deviation switch scan_zero_is_none (D3) ON"
    elif clean_bad:
        corr = "model/implementation disagreement not explained by any deviation switch"
    d3_fail = [t for t in spec_fail if has_zero(shape_of(t))] if (clean_bad and not quirk_bad) else []
    other_fail = [t for t in spec_fail if t not in d3_fail]
    if d3_fail:
        if known_open(ctx.pid, SIG_D3):
            c = get(d3_fail[0])
            ctx.known(f"{SIG_D3}: scan [{c['scan']}] — a bound 0 is tested by truthiness (witness C02_scan_zero_refuted; {len(d3_fail)} cases this run)")
        else:
            ctx.violation("scan-zero", {"what": "the scanner treats line 0 as 'no bound' (from_line/to_line tested by truthiness)",
                                        "theorem": "C02_includes holds only for the clean model; the implementation matches the model with switch scan_zero_is_none=true (C02_scan_zero_refuted)",
                                        "case": get(d3_fail[0]), "more_cases": [get(t)["scan"] for t in d3_fail[1:20]]})
    if other_fail:
        ctx.violation("spec", {"what": "the implementation contradicts the denotation of the scan part on this input",
                               "case": get(other_fail[0]), "more_cases": [get(t) for t in other_fail[1:6]]})
    elif clean_bad and not d3_fail:
        # correspondence broken, no input on which the property itself fails
        ctx.violation("correspondence", {"what": "correspondence Scan/ScanModel.v + Run/RunLoop.v vs csvpath.scanning.scanner / CsvPath.collect no longer checks (kagree/ragree); "
                                         "theorems C02_includes, C02_is_last_sound, C02_run are about the model only",
                                         "disagreeing_case": get(clean_bad[0]), "more": [get(t) for t in clean_bad[1:6]]}, no_input=True)

    distinct = len({shape_str(j[0]) for j in kjobs}) + len({(shape_str(j[0]), tuple(j[1])) for j in rjobs})
    nontrivial = len({shape_str(sh) for sh, _, _ in kjobs if sh[0] in ("Range", "Items")}) + \
        len({(shape_str(sh), tuple(bl)) for (sh, bl), r in zip(rjobs, rres) if any(bl) and not all(bl) and r[1]})
    # the translator tie: Scanner.includes / Scanner.is_last as written in the source of the tree under test, regenerated and
    # (when the text differs from the checked-in Scan/ScanSrc.v) re-proved equal to the model
    import srctie
    tie = srctie.check(ctx)
    if tie["status"] in ("untranslatable", "unproved") and not ctx.violations:
        ctx.violation("source-tie", {"what": "the translation of Scanner.includes from csvpath/scanning/scanner.py is no longer proved equal to the model: theorem includes_src_eq (C02_includes_source, C02_source_denotes) "
                                             "does not check against the source of this tree; the generated cases of this run found no input on which the property fails",
                                     "theorem": "includes_src_eq (C02_includes_source, C02_source_denotes)", "tie": tie}, no_input=True)
    ctx.coverage.update({
        "evaluations": len(kjobs) + len(rjobs),
        "distinct_nontrivial": nontrivial,
        "rule": "kernel cases: every scan shape with bounds<=5 (<=6 thorough) and <=3 (<=4) items, plus random shapes with bounds 0..12 and <=5 items, "
                "each with includes/is_last tables for lines 0..14 from the real Scanner; run cases: real CsvPath.collect() with [yes()] over files of 1..10 records "
                "with random blank records (thorough: every blank pattern sample for N<=6). Non-trivial = kernel case with a range or a list; run case with "
                "both blank and non-blank records and at least one returned line. 0-record files are exercised by C06's check.",
        "samples": [kcase(0), kcase(len(kjobs) // 2), rcase(0), rcase(len(rjobs) // 2)],
        "kernel_cases": len(kjobs), "run_cases": len(rjobs), "distinct_cases": distinct,
        "correspondence": corr,
        "disagreements_clean_model": len(clean_bad), "disagreements_quirk_model": len(quirk_bad),
        "spec_failures": len(spec_fail),
        "traces_validated_against_impl": len(kjobs) + len(rjobs),
        "shape_kinds": {k: sum(1 for j in kjobs if j[0][0] == k) for k in ("All", "From", "Range", "Items")},
        "with_zero_bound": sum(1 for j in kjobs if has_zero(j[0])),
    })
    ctx.coverage["source_tie"] = {"status": tie["status"], "detail": tie["detail"][:400]}


def denotes_py(sh, l):
    """only used to print the expected lines into a replay file (the judging is done in Coq)"""
    k = sh[0]
    if k == "All":
        return True
    if k == "From":
        return l >= sh[1]
    if k == "Range":
        return min(sh[1], sh[2]) <= l <= max(sh[1], sh[2])
    return any((i[1] == l) if i[0] == "One" else (i[1] <= l <= i[2]) for i in sh[1])


def replay(ctx, payload):
    """Re-run the recorded case on the implementation; print what it does and what the spec says."""
    c = payload.get("case") or payload.get("disagreeing_case")
    sh_txt = c["scan"]
    if c["level"] == "kernel":
        got = impl_kernel((sh_txt, c["lines"], c["end_line"]))
        print("scan part [%s] lines %s" % (sh_txt, c["lines"]))
        print("implementation now: parse_raised=%s includes=%s is_last=%s" % got)
        print("recorded          : %s" % c["impl"])
    else:
        got = impl_run((sh_txt, c["blank_records"]))
        print("scan part [%s] blank records %s" % (sh_txt, c["blank_records"]))
        print("implementation now: raised=%s returned=%s scan_count=%s" % got)
        print("expected by spec  : returned=%s" % c.get("expected_by_spec"))
        return 0 if list(got[1]) == c.get("expected_by_spec") else 1
    return 0
