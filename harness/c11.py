"""C11 — the named-files area is a versioned, content-addressed, immutable store.

Deciding method: Coq refinement theorem (Props/C11.v): the state machine model of
FileManager.add_named_file/_copy_in/_fingerprint/remove_named_file + FileRegistrar refines the
abstract version-list specification for operation histories of ANY length (SHA-256 injective as a
hypothesis).  Tie to /repo: every history over the property's alphabet {add(2 names x 2 source
files), mutate source (2 x 3 contents), remove(2), new instance} up to a length bound (plus random
longer ones) is executed on a real FileManager in a scratch tree; after every operation the
directory tree, every stored file's bytes, the manifests and get_named_file are abstracted and
compared, by the Coq kernel, with the model state and with the specification."""
import hashlib
import itertools
import json
import os
import shutil

from common import CONFIG_INI, Quiet, coq_bad, listlit, pmap

CONTENT = [f"a,b\n{c},x{c}\n".encode() for c in range(3)]
DIG = {hashlib.sha256(b).hexdigest(): i for i, b in enumerate(CONTENT)}
SRC = ["s0.csv", "s1.2024-03.csv"]          # the second source file has more than one dot in its name
EXT = [".csv", ".2024-03.csv"]              # what the store keeps of the source name: everything after its first dot
ALPHA = [("add", n, s) for n in (0, 1) for s in (0, 1)] + [("mut", s, c) for s in (0, 1) for c in (0, 1, 2)] + [("rem", n) for n in (0, 1)] + [("new",)]


def op_lit(o):
    return {"add": lambda: f"Add {o[1]} {o[2]}", "mut": lambda: f"Mutate {o[1]} {o[2]}", "rem": lambda: f"Remove {o[1]}", "new": lambda: "NewInstance"}[o[0]]()


def observe(paths):
    """abstract everything under inputs/named_files; raises on anything the abstraction cannot express"""
    fm = paths.file_manager
    base = fm.named_files_dir
    out = []
    for n in (0, 1):
        home = os.path.join(base, f"n{n}")
        if not os.path.exists(home):
            out.append(0)
            stored = {}
        else:
            mp = os.path.join(home, "manifest.json")
            man = json.load(open(mp)) if os.path.exists(mp) else []
            out += [1, len(man)]
            for e in man:
                fh = os.path.basename(e["file_home"])
                out += [int(fh[1]), DIG[e["fingerprint"]]]
                if os.path.basename(e["file"]) != e["fingerprint"] + EXT[int(fh[1])] or os.path.dirname(e["file"]) != e["file_home"]:
                    raise ValueError("manifest entry's file is not <file_home>/<fingerprint><extension of the source>: %r" % e)
            g = fm.get_named_file(f"n{n}") if man else None
            if g is None:
                out += [-1, -1]
            else:
                d, b = os.path.split(g)
                if not os.path.isfile(g) or b.split(".", 1)[1] != EXT[int(os.path.basename(d)[1])][1:]:
                    raise ValueError("get_named_file names %r, which is not a stored file with the source's extension" % g)
                out += [int(os.path.basename(d)[1]), DIG[b.split(".", 1)[0]]]
                if fm.get_fingerprint_for_name(f"n{n}") != b.split(".", 1)[0]:
                    raise ValueError("get_fingerprint_for_name disagrees with get_named_file")
            stored = {}
            for sdir in os.listdir(home):
                sp = os.path.join(home, sdir)
                if os.path.isdir(sp):
                    for f in os.listdir(sp):
                        with open(os.path.join(sp, f), "rb") as fh:
                            data = fh.read()
                        if "." + f.split(".", 1)[1] != EXT[int(sdir[1])] or f.split(".", 1)[0] not in DIG:
                            raise ValueError("unexpected file in the store: %s/%s" % (sdir, f))
                        # the bytes must be one of the contents; -2 marks "name is not the digest of the bytes"
                        cid = CONTENT.index(data) if data in CONTENT else -3
                        stored[(int(sdir[1]), DIG[f.split(".", 1)[0]])] = cid if (cid >= 0 and hashlib.sha256(data).hexdigest() == f.split(".", 1)[0]) else -2
        for s in (0, 1):
            for d in (0, 1, 2):
                out.append(stored.get((s, d), -1))
    return out


def run_history(job):
    hid, ops = job
    from csvpath import CsvPaths
    home = os.getcwd()
    d = os.path.join(home, f"h{hid}")
    shutil.rmtree(d, ignore_errors=True)
    os.makedirs(os.path.join(d, "src"))
    os.chdir(d)
    res = {"obs": [], "exc": None, "op_errors": []}
    try:
        with open("config.ini", "w") as fh:
            fh.write(CONFIG_INI)
        for s in (0, 1):
            with open("src/" + SRC[s], "wb") as fh:
                fh.write(CONTENT[s])
        with Quiet():
            paths = CsvPaths()
            for i, o in enumerate(ops):
                try:
                    if o[0] == "add":
                        paths.file_manager.add_named_file(name=f"n{o[1]}", path="src/" + SRC[o[2]])
                    elif o[0] == "mut":
                        with open("src/" + SRC[o[1]], "wb") as fh:
                            fh.write(CONTENT[o[2]])
                    elif o[0] == "rem":
                        paths.file_manager.remove_named_file(f"n{o[1]}")
                    else:
                        paths = CsvPaths()
                except FileNotFoundError as ex:
                    if o[0] != "rem":
                        raise
                    res["op_errors"].append(i)      # removing a name that does not exist: raises, changes nothing
                res["obs"].append(observe(paths))
    except Exception as ex:  # noqa
        res["exc"] = type(ex).__name__ + ": " + str(ex)[:160]
    finally:
        os.chdir(home)
        shutil.rmtree(d, ignore_errors=True)
    return res


def digest_named(_job):
    """a source file that is itself named by the digest of its bytes (e.g. a path obtained from get_named_file, registered under
    another name): the store must end up holding those bytes under that name (repaired defect D27)"""
    from csvpath import CsvPaths
    home = os.getcwd()
    d = os.path.join(home, "dn")
    shutil.rmtree(d, ignore_errors=True)
    os.makedirs(os.path.join(d, "src"))
    os.chdir(d)
    out = {"exc": None, "problems": []}
    try:
        with open("config.ini", "w") as fh:
            fh.write(CONFIG_INI)
        with open("src/s0.csv", "wb") as fh:
            fh.write(CONTENT[0])
        dig = hashlib.sha256(CONTENT[2]).hexdigest()
        with open(f"src/{dig}.csv", "wb") as fh:
            fh.write(CONTENT[2])
        with Quiet():
            paths = CsvPaths()
            fm = paths.file_manager

            def current(name, want):
                g = fm.get_named_file(name)
                if not g or not os.path.isfile(g):
                    out["problems"].append(f"get_named_file({name}) names {g}, which does not exist")
                elif open(g, "rb").read() != want or os.path.basename(g).split(".")[0] != hashlib.sha256(want).hexdigest():
                    out["problems"].append(f"get_named_file({name}) = {g}: wrong bytes or not named by their digest")
            fm.add_named_file(name="a", path=f"src/{dig}.csv")
            current("a", CONTENT[2])
            fm.add_named_file(name="a", path=f"src/{dig}.csv")       # repeat
            current("a", CONTENT[2])
            fm.add_named_file(name="b", path="src/s0.csv")
            stored = fm.get_named_file("b")
            fm.add_named_file(name="c", path=stored)                 # a stored file registered under another name
            current("c", CONTENT[0])
            current("b", CONTENT[0])
            CsvPaths().file_manager.get_named_file("c")
    except Exception as ex:  # noqa
        out["exc"] = type(ex).__name__ + ": " + str(ex)[:160]
    finally:
        os.chdir(home)
        shutil.rmtree(d, ignore_errors=True)
    return out


def from_dir(_job):
    """add_named_files_from_dir: one name per file (the file name without its last extension), each holding that file's bytes; loading
    the unchanged directory again registers nothing new"""
    from csvpath import CsvPaths
    home = os.getcwd()
    d = os.path.join(home, "fd")
    shutil.rmtree(d, ignore_errors=True)
    os.makedirs(os.path.join(d, "src"))
    os.chdir(d)
    out = {"exc": None, "problems": []}
    files = {"orders.2024-01.csv": CONTENT[0], "orders.2024-02.csv": CONTENT[1], "customers.csv": CONTENT[2]}
    want = {"orders.2024-01": CONTENT[0], "orders.2024-02": CONTENT[1], "customers": CONTENT[2]}
    try:
        with open("config.ini", "w") as fh:
            fh.write(CONFIG_INI)
        for n, b in files.items():
            with open("src/" + n, "wb") as fh:
                fh.write(b)
        with Quiet():
            paths = CsvPaths()
            fm = paths.file_manager
            for load in (1, 2):
                fm.add_named_files_from_dir("src")
                for name, b in want.items():
                    g = fm.get_named_file(name)
                    if not g or not os.path.isfile(g) or open(g, "rb").read() != b:
                        out["problems"].append(f"load {load}: get_named_file({name!r}) = {g!r} does not hold the bytes of its file")
                    mp = os.path.join(fm.named_files_dir, name, "manifest.json")
                    n = len(json.load(open(mp))) if os.path.exists(mp) else -1
                    if n != 1:
                        out["problems"].append(f"load {load}: the manifest of {name!r} has {n} entries, expected 1")
                extra = sorted(set(os.listdir(fm.named_files_dir)) - set(want))
                if extra:
                    out["problems"].append(f"load {load}: unexpected names {extra}")
    except Exception as ex:  # noqa
        out["exc"] = type(ex).__name__ + ": " + str(ex)[:160]
    finally:
        os.chdir(home)
        shutil.rmtree(d, ignore_errors=True)
    return out


def run(ctx):
    rng = ctx.rng
    quick = ctx.tier == "quick"
    dn = pmap(ctx, digest_named, [0], chunksize=1)[0]
    fd = pmap(ctx, from_dir, [0], chunksize=1)[0]
    hs = []
    for n in range(1, (3 if quick else 4) + 1):
        hs += [list(t) for t in itertools.product(ALPHA, repeat=n)]
    exhaustive_upto = 3 if quick else 4
    for _ in range(1200 if quick else 12000):
        n = rng.choice([4, 5, 6] if quick else [5, 6, 7, 8, 10])
        # bias towards histories that build up versions
        hs.append([rng.choice(ALPHA[:4] * 3 + ALPHA[4:]) for _ in range(n)])
    jobs = list(enumerate(hs))
    res = pmap(ctx, run_history, jobs, chunksize=32)
    lits = []
    for (hid, ops), r in zip(jobs, res):
        obs = r["obs"] if not r["exc"] else []
        lits.append(f"mkC11 {listlit(ops, lambda o: '(' + op_lit(o) + ')')} {listlit(obs, listlit)}")
    bad = coq_bad(ctx, "c11", "Mgr.FileStore Harness.C11Cmp", "c11case", lits, ["c11_agree", "c11_spec"], chunk=600)
    spec_bad, agree_bad = sorted(bad["c11_spec"]), sorted(bad["c11_agree"])

    def case(i):
        return {"operations": [list(o) for o in hs[i]], "legend": "add(name, source) / mut(source, content) / rem(name) / new; contents: %r" % [c.decode() for c in CONTENT],
                "impl": {"exception": res[i]["exc"], "observations_after_each_op": res[i]["obs"]},
                "observation_format": "per name n0,n1: exists?, #manifest entries, (source,fingerprint-as-content-id)*, get_named_file (source, content id), then bytes stored at "
                                      "(source 0..1 x digest-of-content 0..2) as content id (-1 absent, -2 name is not the digest of its bytes, -3 unknown bytes)"}
    if dn["exc"] or dn["problems"]:
        ctx.violation("digest-named-source", {"what": "registering a source file that is named by the digest of its own bytes does not leave those bytes in the store under that name "
                                                      "(defect D27, listed fixed, is back)", "case": dn})
    if fd["exc"] or fd["problems"]:
        ctx.violation("from-dir", {"what": "add_named_files_from_dir does not register one name per file (file name without its last extension) holding that file's bytes, "
                                           "or a second load of the unchanged directory registers something", "case": fd})
    if spec_bad:
        # shortest failing history first
        i = min(spec_bad, key=lambda k: len(hs[k]))
        ctx.violation("store", {"what": "the named-files store differs from the versioned, content-addressed, immutable store the property describes (specification Mgr/FileStore.spec_step)",
                                "case": case(i), "failing_histories": len(spec_bad)})
    elif agree_bad:
        i = min(agree_bad, key=lambda k: len(hs[k]))
        ctx.violation("correspondence", {"what": "correspondence Mgr/FileStore.v vs FileManager/FileRegistrar no longer checks (Harness/C11Cmp.c11_agree); theorems C11_* are about the model only",
                                         "disagreeing_case": case(i)}, no_input=True)
    ctx.coverage.update({
        "digest_named_source_scenario": dn, "from_dir_scenario": fd, "evaluations": len(hs), "distinct_nontrivial": len({repr(h) for h, r in zip(hs, res) if not r["exc"] and any(o[0] == "add" for o in h) and len(h) >= 2}),
        "rule": f"every operation sequence of length 1..{exhaustive_upto} over the 13-letter alphabet add(2 names x 2 source files), mutate(2 sources x 3 contents), remove(2 names), new instance "
                f"(exhaustive), plus random sequences of length 4-10 biased towards adds; real FileManager in a scratch tree, full abstraction of the store after every operation. "
                "Non-trivial = distinct history of length >= 2 containing an add.",
        "samples": [case(len(ALPHA) + 5), case(len(hs) - 1)],
        "exhaustive": True, "exhaustive_up_to_length": exhaustive_upto, "random_longer": len(hs) - sum(13 ** n for n in range(1, exhaustive_upto + 1)),
        "operations_executed": sum(len(h) for h in hs), "histories_with_exception": sum(1 for r in res if r["exc"]),
        "traces_validated_against_impl": len(hs) - len(agree_bad),
        "correspondence": f"model == implementation on {len(hs) - len(agree_bad)}/{len(hs)} histories; specification == implementation on {len(hs) - len(spec_bad)}/{len(hs)}",
    })


def replay(ctx, payload):
    c = payload.get("case") or payload.get("disagreeing_case")
    r = run_history((0, [tuple(o) for o in c["operations"]]))
    print("operations:", c["operations"]); print("recorded:", c["impl"]); print("impl now:", r)
    return 0
