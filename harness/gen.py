"""Generators of csvpath programs and CSV files (one PRNG, everything replayable).

Files have three columns: id (unique per record: r0, r1, ...), a (small numbers / empty) and
b (short text / empty); records may be blank or ragged (id only, or id+a)."""
import csv

NUMS = ["0", "1", "2", "3", "5", "10", "12", "", "7"]
TEXTS = ["x", "y", "", "z z", "X", "yes", "10"]


def gen_rows(rng, maxn=8, blank_p=0.15, trailing_blank_p=0.2, header=True, extra=False):
    rows = []
    if header:
        rows.append(["id", "a", "b"])
    n = rng.choice([1, 2, 3, 4, 5, 6, 7, maxn])
    for i in range(n):
        if rng.random() < blank_p:
            rows.append([])
        else:
            r = [f"r{len(rows)}", rng.choice(NUMS), rng.choice(TEXTS)]
            r = r[: rng.choice([1, 2, 3, 3, 3, 3])]
            if extra and len(r) == 3 and rng.random() < 0.25:
                r += [f"x{k}" for k in range(rng.choice([1, 2]))]      # a record with more values than the header row has names
            rows.append(r)
    if rng.random() < trailing_blank_p:
        rows.append([])
    return rows


def write_rows(path, rows, delimiter=",", quotechar='"'):
    with open(path, "w", newline="", encoding="utf-8") as fh:
        csv.writer(fh, delimiter=delimiter, quotechar=quotechar).writerows(rows)


SCANS = ["*", "*", "*", "1*", "0-3", "1-2", "2", "0+2+4", "1-2+4", "3-1", "2*", "0", "1+3", "3+1", "4+0+2"]


def gen_cond(rng):
    ln = rng.randrange(0, 7)
    return rng.choice([
        f"eq(line_number(),{ln})", f"gt(line_number(),{ln})", f"lt(line_number(),{ln + 1})",
        f"eq.nocontrib(line_number(),{ln})", f"above(int(#a),{rng.choice([0, 1, 2, 5])})",
        "exists(#b)", "empty(#a)", "last()", "last.nocontrib()", "firstscan.nocontrib()", "firstline()",
        f"#b == \"{rng.choice(['x', 'y', 'z z'])}\"", f"#a == {rng.choice([0, 1, 2, 10])}",
        f"in(#b, \"x|y\")", "not(exists(#b))", f"or(eq(#a,1), eq(#b,\"y\"))", "yes()", "no()",
        f"between(line_number(), {ln}, {ln + 3})", f"mod(line_number(), 2) == 0",
    ])


def gen_act(rng, control=True, errors=False, collects=False):
    n = rng.randrange(1, 3)
    acts = [
        'print("p $.csvpath.line_number $.variables.x ")', f'push("s{n}", line_number())', "@x = count()",
        f"@y{n} = #a", "@t.onmatch = line_number()", "@c = counter.k()", 'push.onmatch("m", #b)',
        "@v = valid()", 'print.once("once")', "tally(#b)", "@n = count_lines()", "@sc = count_scans()",
        f"@l{n}.latch = #b", "@ch.onchange = #a", "@inc.increase = line_number()", f'push_distinct("d", #b)',
        "@w = concat(#b, \"-\", #a)", "@f = first(#b)", "@e = every(#b, 2)", "@ln = length(#b)",
        "@up = upper(#b)", "@cm = $.csvpath.count_matches" if False else "@cm = count()",
        "@tot = total_lines()", "@hc = count_headers_in_line()",
    ]
    if control:
        acts += ["stop()", "skip()", f"advance({n})", "fail()", "fail_and_stop()", "stop()", "skip()", f"advance({n})"]
    if errors:
        acts += ["@su = sum(int(#b))", "@ad = add(#a, #b)", "@i = int(#b)", "@sb = subtract(int(#a), 1)"]
    else:
        acts += ["@su = sum(int(#a))" if False else "@su = count(#b)"]
    if collects:    # the collect() match function: returned lines are limited to the named headers (the id column is kept first)
        acts += ['collect("id")', 'collect("id", "b")', 'collect(0, 1)', 'collect("id")', 'collect("id", "a")']
    return rng.choice(acts)


def gen_comp(rng, control=True, errors=False, collects=False):
    r = rng.random()
    if r < 0.5:
        return f"{gen_cond(rng)} -> {gen_act(rng, control, errors, collects)}"
    if r < 0.8:
        return gen_act(rng, control, errors, collects)
    return gen_cond(rng)


def gen_prog(rng, fname, control=True, errors=False, modes=True, maxcomps=4, scans=None, collects=False):
    """returns dict(scan, comment, comps, text)"""
    scan = rng.choice(scans or SCANS)
    comment = ""
    if modes:
        comment = rng.choice(["", "", "", "~logic-mode: OR :~ ", "~return-mode: no-matches :~ ", "~unmatched-mode: keep :~ ",
                              "~return-mode: no-matches unmatched-mode: keep :~ ", "~ id: p1 :~ "])
    comps = [gen_comp(rng, control, errors, collects) for _ in range(rng.randrange(1, maxcomps + 1))]
    # the property's side conditions: last() -> comes last; onmatch only in AND mode
    comps.sort(key=lambda c: 1 if c.startswith("last()") else 0)
    if "OR" in comment:
        comps = [c.replace(".onmatch", "") for c in comps]
    text = f"{comment}${fname}[{scan}][ " + " ".join(comps) + " ]"
    return {"scan": scan, "comment": comment, "comps": comps, "text": text}
