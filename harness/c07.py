"""C07 — collect(), next() and fast_forward() are the same run.

Deciding method: Coq theorems Props/C07.v over Run/RunLoop.v for *every* matcher
(entry points differ only in `unmatched`; collect(nexts=n) is a prefix run); the run-loop model
is tied to /repo by replaying the real matcher's recorded per-line answers through the model
(Harness/RunCmp.v, evaluated by the Coq kernel) and comparing everything the loop decides;
the three real entry points are additionally compared with each other on the same programs."""
import gen
import runloop
from common import known_open, pmap

SIG_D22 = "collect-unmatched-limit-raises"


def obs_key(o):
    return (o["vars"], o["scan_count"], o["match_count"], o["is_valid"], o["stopped"], tuple(o["errors"]), tuple(o["printouts"]), o.get("frozen"))      # frozen: the run has been finalized (a run cut short by nexts=k has not)


def run(ctx):
    rng = ctx.rng
    nprog = 350 if ctx.tier == "quick" else 6000
    progs = []
    for i in range(nprog):
        rows = gen.gen_rows(rng, extra=True)
        fname = f"c07_{i}.csv"
        pr = gen.gen_prog(rng, fname, control=True, errors=(rng.random() < 0.2), collects=True)
        progs.append((pr, rows, fname))
    # the witness of the open finding collect-unmatched-limit-raises, in every run
    progs.append(({"text": '~unmatched-mode: keep :~ $c07_w.csv[0+2+4][ yes() -> collect("id", "b") ]', "scan": "0+2+4", "comment": "", "comps": []},
                  [["id", "a", "b"], [], ["r2", "1", "x"]], "c07_w.csv"))
    jobs = []
    for pr, rows, fname in progs:
        for m in (0, 1, 2, 6):
            jobs.append({"text": pr["text"].replace(fname, f"m{m}_" + fname), "rows": rows, "fname": f"m{m}_" + fname, "method": m, "k": 0, "policy": ["collect", "print"]})
    res = pmap(ctx, runloop.real_run, jobs, chunksize=8)
    fails, nexts_jobs, nontrivial = [], [], set()
    for pi, (pr, rows, fname) in enumerate(progs):
        a, b, f, kept = res[4 * pi], res[4 * pi + 1], res[4 * pi + 2], res[4 * pi + 3]
        if a["exc"] or b["exc"] or f["exc"]:
            if not (a["exc"] and b["exc"] and f["exc"]) or len({a["exc"], b["exc"], f["exc"]}) != 1:
                fails.append({"kind": "exception in one entry point only", "csvpath": pr["text"], "rows": rows,
                              "collect": a["exc"], "next": b["exc"], "fast_forward": f["exc"]})
            continue
        if a["lines"] != b["lines"]:
            fails.append({"kind": "collect() and next() return different lines", "csvpath": pr["text"], "rows": rows,
                          "collect": a["lines"], "next": b["lines"]})
        elif kept["exc"] != b["exc"] or kept["lines"] != b["lines"] or obs_key(kept) != obs_key(b):
            fails.append({"kind": "the lines kept from list(next()) are not the lines next() yielded one by one (collect() returns those)", "csvpath": pr["text"], "rows": rows,
                          "collect": a["lines"], "list_of_next": kept["exc"] or kept["lines"]})
        elif not (obs_key(a) == obs_key(b) == obs_key(f)):
            fails.append({"kind": "entry points leave different state", "csvpath": pr["text"], "rows": rows,
                          "collect": obs_key(a), "next": obs_key(b), "fast_forward": obs_key(f)})
        if a["lines"] and len(a["lines"]) < len([r for r in rows if r]):
            nontrivial.add(pr["text"] + repr(rows))
        if a["lines"]:
            ks = range(1, len(a["lines"]) + 2)
            if ctx.tier == "quick" and len(ks) > 3:
                ks = sorted(set([1, len(a["lines"]), len(a["lines"]) + 1, rng.choice(list(ks))]))
            for k in ks:
                for m in (3, 4, 5):
                    nexts_jobs.append((pi, {"text": pr["text"].replace(fname, f"n{m}_{k}_" + fname), "rows": rows, "fname": f"n{m}_{k}_" + fname, "method": m, "k": k, "policy": ["collect", "print"]}))
    nres = pmap(ctx, runloop.real_run, [j for _, j in nexts_jobs], chunksize=8)
    for (pi, job), o in zip(nexts_jobs, nres):
        a = res[4 * pi]
        if o["exc"]:
            fails.append({"kind": "collect(nexts) raised", "csvpath": job["text"], "rows": job["rows"], "k": job["k"], "exc": o["exc"]})
            continue
        if job["method"] == 5 and o["lines"] != a["lines"][: job["k"]]:
            fails.append({"kind": "collect(nexts=k, lines=sink) did not append the first k lines of collect() to a sink that already held rows", "csvpath": job["text"], "rows": job["rows"],
                          "k": job["k"], "appended": o["lines"], "collect": a["lines"]})
        if job["method"] == 3 and o["lines"] != a["lines"][: job["k"]]:
            fails.append({"kind": "collect(nexts=k) is not the first k lines of collect()", "csvpath": job["text"], "rows": job["rows"],
                          "k": job["k"], "got": o["lines"], "collect": a["lines"]})
    # collect(nexts=k) vs "take k lines from next() and stop": no side effect of a later line
    by = {}
    for (pi, job), o in zip(nexts_jobs, nres):
        by.setdefault((pi, job["k"]), {})[job["method"]] = (job, o)
    for (pi, k), d in by.items():
        if 3 in d and 5 in d and not d[3][1]["exc"] and not d[5][1]["exc"] and obs_key(d[3][1]) != obs_key(d[5][1]):
            fails.append({"kind": "collect(nexts=k) into a sink that already holds rows leaves another state than collect(nexts=k)", "csvpath": d[3][0]["text"],
                          "rows": d[3][0]["rows"], "k": k, "collect_nexts": obs_key(d[3][1]), "with_sink": obs_key(d[5][1])})
        if 3 in d and 4 in d and not d[3][1]["exc"] and not d[4][1]["exc"]:
            if obs_key(d[3][1]) != obs_key(d[4][1]):
                fails.append({"kind": "collect(nexts=k) performed side effects beyond the k-th returned line", "csvpath": d[3][0]["text"],
                              "rows": d[3][0]["rows"], "k": k, "collect_nexts": obs_key(d[3][1]), "next_k_lines": obs_key(d[4][1])})
    # correspondence of the run-loop model on all exception-free runs
    pairs = [(j, o) for j, o in zip(jobs, res) if not o["exc"]] + [(j, o) for (_, j), o in zip(nexts_jobs, nres) if not o["exc"] and j["method"] == 3]
    bad_f, bad_t, skipped = runloop.coq_compare(ctx, "c07", pairs)
    corr_bad = bad_f if len(bad_f) <= len(bad_t) else bad_t
    # open finding D22: only collect() trims *unmatched* lines to the collect() function's headers, so it alone raises on an
    # unmatched record that lacks one of them
    def is_d22(f):
        # next()/fast_forward() agree with each other and either complete or raise later, on a matched short line
        return (f["kind"] == "exception in one entry point only" and f.get("next") == f.get("fast_forward") and f.get("next") != f.get("collect")
                and str(f.get("collect") or "").startswith("InputException") and "unknown header name" in f["collect"]
                and "unmatched-mode: keep" in f["csvpath"] and "collect(" in f["csvpath"])
    d22 = [f for f in fails if is_d22(f)]
    if d22:
        fails = [f for f in fails if not is_d22(f)]
        if known_open(ctx.pid, SIG_D22):
            ctx.known(f"{SIG_D22}: collect() raises on an unmatched short record under unmatched-mode: keep + collect(...), next()/fast_forward() do not — e.g. {d22[0]['csvpath']} ({len(d22)} cases this run)")
        else:
            ctx.violation("collect-unmatched", {"what": "collect() raises InputException on an unmatched record that lacks a header named by the collect() function; next() and fast_forward() complete", "case": d22[0], "cases": len(d22)})
    if fails:
        ctx.violation("entrypoints", {"what": fails[0]["kind"], "case": fails[0], "more": fails[1:5]})
    elif corr_bad:
        i = sorted(corr_bad)[0]
        ctx.violation("correspondence", {"what": "correspondence Run/RunLoop.v vs CsvPath.next/collect/fast_forward no longer checks (Harness/RunCmp.run_agree); "
                                         "theorems C07_* are about the model only", "disagreeing_case": {"job": pairs[i][0], "impl": pairs[i][1]}}, no_input=True)
    # the translator tie for the per-record step: CsvPath._consider_line (with raise_match_count_if, stop(), LineMonitor.is_last_line_and_blank) as
    # written in the source of the tree under test, regenerated and (when the text differs from the checked-in Run/RunSrc.v) re-proved equal to the model
    import srctie
    rtie = srctie.check(ctx, "runstep")
    if rtie["status"] in ("untranslatable", "unproved") and not ctx.violations:
        ctx.violation("source-tie", {"what": "the translation of CsvPath._consider_line from csvpath/csvpath.py is no longer proved equal to the run-loop model's per-record step: theorem "
                                             "consider_line_src_eq (C07_step_source) does not check against the source of this tree; the generated cases of this run found no input on which the property fails",
                                     "theorem": "consider_line_src_eq (C07_step_source)", "tie": rtie}, no_input=True)
    ctx.coverage.update({
        "evaluations": len(jobs) + len(nexts_jobs),
        "distinct_nontrivial": len(nontrivial),
        "rule": "generated csvpaths (1-4 components from conditions x actions incl. stop/skip/advance/last/print/fail/onmatch/latch, all scan shapes, "
                "logic/return/unmatched modes) x generated files (blank, ragged, trailing blank); each run by collect(), next(), fast_forward(), and "
                "collect(nexts=k) vs k lines of next() for k in 1..matches+1 (quick: 4 values of k). Non-trivial = distinct (csvpath, file) where some "
                "but not all records are returned.",
        "samples": [{"csvpath": progs[0][0]["text"], "rows": progs[0][1]}, {"csvpath": progs[-1][0]["text"], "rows": progs[-1][1]}],
        "programs": len(progs), "nexts_runs": len(nexts_jobs),
        "traces_validated_against_impl": len(pairs) - skipped,
        "correspondence": "run-loop model == implementation on %d runs (disagreements: %d)" % (len(pairs) - skipped, len(corr_bad)),
        "relational_failures": len(fails),
        "runs_with_exception_excluded_from_correspondence": sum(1 for o in res if o["exc"]),
    })
    ctx.coverage["source_tie_run_step"] = {"status": rtie["status"], "detail": rtie["detail"][:400]}


def replay(ctx, payload):
    c = payload.get("case") or payload.get("disagreeing_case", {}).get("job")
    text = c.get("csvpath") or c.get("text")
    rows = c["rows"]
    for m, name in ((0, "collect"), (1, "next"), (6, "list(next())"), (2, "fast_forward")):
        o = runloop.real_run({"text": text, "rows": rows, "fname": text.split("[")[0].split("$")[-1], "method": m, "k": 0, "policy": ["collect", "print"]})
        print(name, "->", o.get("exc") or (o["lines"], obs_key(o)))
    return 0
