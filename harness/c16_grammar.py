"""C16, source-derived part of the tie: the character classes of the print grammar's terminals are read from
LarkPrintParser.GRAMMAR of the tree under test, evaluated with Python's re on a range of code points, and compared by the
Coq kernel with the model's predicates (Match/Print.v: name_char, is_ws, the quoted-name and root classes)."""
import re

CODES = list(range(0, 0x180)) + [0x1680, 0x2000, 0x200a, 0x200b, 0x2028, 0x2029, 0x202f, 0x205f, 0x3000, 0x3b1, 0x4e2d]


def classes():
    from csvpath.matching.util.lark_print_parser import LarkPrintParser
    g = LarkPrintParser.GRAMMAR

    def rule(name):
        m = re.search(r"^\s*" + re.escape(name) + r"\s*:\s*(.*)$", g, re.M)
        if not m:
            raise ValueError("terminal not found in GRAMMAR: " + name)
        return m.group(1)

    def one_class(text):
        cs = re.findall(r"\[(?:\\.|[^\]\\])*\]", text)
        if len(cs) != 1:
            raise ValueError(f"unexpected shape of terminal: {text}")
        return cs[0]
    out = {"text": one_class(rule("TEXT")), "root": one_class(rule("ROOT")), "simple_name": one_class(rule("SIMPLE_NAME")), "quoted_name": one_class(rule("QUOTED_NAME"))}
    table = {k: [bool(re.fullmatch(v, chr(c))) for c in CODES] for k, v in out.items()}
    out["sentinel"] = rule("SENTINEL").strip()
    if out["sentinel"] != r"/[^\.]|\.\./":
        raise ValueError("SENTINEL changed: " + out["sentinel"])
    return out, table
