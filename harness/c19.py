"""C19 — results depend only on the csvpath, the file and the configuration.

Deciding method: Coq theorems (Props/C19.v): the repaired header-cache row survives any header
cells (C19_header_cache, via the csv round trip); for ANY sequence of jobs — through a shared or a
new CsvPaths, standalone, after a new process finds the disk cache populated — every job sees
exactly the line monitor and headers of a fresh count (C19_history, invariant over the memory and
disk caches).  Partial by nature: interpreter-global state is outside the model.  Tie to /repo:
(a) the real FileCacher write/read pair on hostile header rows vs model and property (Coq);
(b) sequences of 2-6 generated jobs run in ONE subprocess (mixed creation modes), then again in a
second subprocess that finds the cache populated, each job compared with its twin run alone in a
fresh subprocess; (c) a source-derived footprint: the class-level / module-level mutable state of
the package, recomputed with ast and compared with the reviewed list."""
import ast
import json
import os
import re
import shutil
import subprocess
import sys

import c06
import gen
from common import CONFIG_INI, Quiet, VERIF, coq_bad, known_open, listlit, pmap, ulit

SIG_D10 = "header-cache-join"
SIG_D24 = "cache-keyed-by-path-only"
DRIVER = os.path.join(VERIF, "harness", "c19_driver.py")


# ---------------------------------------------------------------- (a) the cache kernel
def kernel(job):
    kid, headers = job
    from csvpath import CsvPaths
    from csvpath.util.line_monitor import LineMonitor
    home = os.getcwd()
    d = os.path.join(home, f"k{kid}")
    shutil.rmtree(d, ignore_errors=True)
    os.makedirs(d)
    os.chdir(d)
    out = {"exc": None}
    try:
        with open("config.ini", "w") as fh:
            fh.write(CONFIG_INI)
        with Quiet():
            paths = CsvPaths()
            fc = paths.file_manager.cacher
            lm = LineMonitor()
            lm.next_line(last_line=[], data=["x"])
            lm.set_end_lines_and_reset()
            fc._cache_lines_and_headers("some/file.csv", lm, list(headers))
            cdir = paths.config.cache_dir_path
            name = [f for f in os.listdir(cdir) if f.endswith(".csv")][0]
            with open(os.path.join(cdir, name), "r", newline="", encoding="utf-8") as fh:
                out["text"] = fh.read()
            paths2 = CsvPaths()
            out["back"] = list(paths2.file_manager.cacher.get_original_headers("some/file.csv"))
    except Exception as ex:  # noqa
        out["exc"] = type(ex).__name__ + ": " + str(ex)[:120]
    finally:
        os.chdir(home)
        shutil.rmtree(d, ignore_errors=True)
    return out


# ---------------------------------------------------------------- (b) histories in subprocesses
def zlib_crc(t):
    import zlib
    return zlib.crc32(str(t).encode())


def run_driver(pkg, work, jobs, tag, hashseed=None):
    jf = os.path.join(work, f"jobs_{tag}.json")
    with open(jf, "w") as fh:
        json.dump(jobs, fh)
    p = subprocess.run([sys.executable, DRIVER, pkg, work, jf], capture_output=True, text=True, timeout=600,
                       env=dict(os.environ, PYTHONHASHSEED=hashseed or str(1 + (zlib_crc(tag) % 4000000000)), PYTHONDONTWRITEBYTECODE="1"))      # every process its own hash seed, as Python does by default
    try:
        return json.loads(p.stdout)
    except Exception:
        return [{"exc": "DRIVER " + (p.stderr or p.stdout)[-200:]} for _ in jobs]


def seq_job(job):
    sid, pkg, seq = job
    home = os.getcwd()
    base = os.path.join(home, f"s{sid}")
    shutil.rmtree(base, ignore_errors=True)
    out = {}
    try:
        w = os.path.join(base, "seq")
        os.makedirs(w)
        with open(os.path.join(w, "config.ini"), "w") as fh:
            fh.write(CONFIG_INI)
        out["first"] = run_driver(pkg, w, seq, "a")          # one process, cold cache
        out["second"] = run_driver(pkg, w, seq, "b")         # a later process, cache populated by the first
        twins = []
        for k, j in enumerate(seq):
            tw = os.path.join(base, f"twin{k}")
            os.makedirs(tw)
            with open(os.path.join(tw, "config.ini"), "w") as fh:
                fh.write(CONFIG_INI)
            twins.append(run_driver(pkg, tw, [dict(j, how="direct")], "t")[0])
        out["twins"] = twins
    finally:
        shutil.rmtree(base, ignore_errors=True)
    return out


HEADER_CELLS = ["a", "b", "id", '"q', 'x"y', "a,b", "a\nb", "", " sp ", "c;d", "'s", "é", "x|y"]


def gen_seq(rng, sid):
    n = rng.choice([2, 3, 3, 4, 5, 6])
    files = []
    for f in range(rng.choice([1, 2, 2])):
        rows = gen.gen_rows(rng)
        if rng.random() < 0.6:
            w = rng.choice([2, 3, 4])
            rows[0] = [rng.choice(HEADER_CELLS) for _ in range(w)]       # hostile header cells
            rows = [rows[0]] + [[f"r{i}", str(i), "x"][:w] for i in range(1, len(rows))]
        files.append((f"d{f}.csv", rows))
    if rng.random() < 0.4:
        # the file at a path already read is replaced by other content (other headers, other length) between jobs
        fname, rows = rng.choice(files)
        w = rng.choice([2, 3, 4])
        hdr = [rng.choice(["k", "v", "id", "b", "a", "zz"]) for _ in range(w)]
        files.append((fname, [hdr] + [[f"n{i}", str(i * 3), "y"][:w] for i in range(1, rng.choice([2, 4, 7, 9]))]))
    if rng.random() < 0.35:
        # two different files that share a base name, in two directories (two drops of one feed): each is its own file
        w = rng.choice([2, 3, 4])
        hdr = [rng.choice(["k", "v", "id", "b", "a", "zz"]) for _ in range(w)]
        files.append(("s1/e.csv", [["id", "a", "b"]] + [[f"r{i}", str(i), "x"] for i in range(1, rng.choice([2, 3, 5]))]))
        files.append(("s2/e.csv", [hdr] + [[f"n{i}", str(i * 3), "y"][:w] for i in range(1, rng.choice([4, 7, 9]))]))
        n += 2
    seq = []
    for k in range(n):
        fname, rows = rng.choice(files)
        r = rng.random()
        if r < 0.15:
            text = f'${fname}[*][ append("extra", count_lines()) ]'
        elif r < 0.27:
            # a csvpath whose validity check makes Python emit a warning (a regex re.compile accepts with a FutureWarning): how it is
            # treated depends on the process-wide warnings filter, which parsing installs
            text = f'${fname}[1*][ @seen = count_lines() regex(#0, /^[[:alnum:]]+$/) ]'
        elif r < 0.33:
            # functions that share an implementation class and differ by a constructor argument (median / average), min / max, percent_unique:
            # anything the function factory remembers between jobs would show
            text = f'${fname}[1*][ @mid = median(#1) @avg = average(#1) @hi = max(#1) @lo = min(#1) ]'
        elif r < 0.4:
            text = f'${fname}[*][ @n = count_headers() print("$.csvpath.headers") @h = count_headers_in_line() ]'
        else:
            text = gen.gen_prog(rng, fname, control=True, modes=True)["text"]
        seq.append({"text": text, "rows": rows, "fname": fname, "how": rng.choice(["paths", "paths", "direct", "newpaths", "group"])})
    return seq


# ---------------------------------------------------------------- (c) footprint
def footprint(pkg):
    found = []
    root = os.path.join(pkg, "csvpath")
    for d, _, files in os.walk(root):
        for f in files:
            if not f.endswith(".py") or f == "parsetab.py":
                continue
            rel = os.path.relpath(os.path.join(d, f), pkg)
            try:
                tree = ast.parse(open(os.path.join(d, f), encoding="utf-8").read())
            except SyntaxError:
                continue

            def mutable(v):
                return isinstance(v, (ast.Dict, ast.List, ast.Set, ast.ListComp, ast.DictComp)) or \
                    (isinstance(v, ast.Call) and getattr(v.func, "id", "") in ("dict", "list", "set", "defaultdict", "OrderedDict"))
            for node in tree.body:
                if isinstance(node, ast.ClassDef):
                    for st in node.body:
                        if isinstance(st, (ast.Assign, ast.AnnAssign)) and st.value is not None and mutable(st.value):
                            tg = st.targets[0] if isinstance(st, ast.Assign) else st.target
                            found.append(f"{rel}:{node.name}.{getattr(tg, 'id', '?')}")
                elif isinstance(node, (ast.Assign, ast.AnnAssign)) and node.value is not None and mutable(node.value):
                    tg = node.targets[0] if isinstance(node, ast.Assign) else node.target
                    found.append(f"{rel}:<module>.{getattr(tg, 'id', '?')}")
    return sorted(found)


def run(ctx):
    rng = ctx.rng
    quick = ctx.tier == "quick"
    # (a)
    kjobs = []
    for i in range(250 if quick else 4000):
        w = rng.choice([0, 1, 1, 2, 3, 4])
        kjobs.append((i, [rng.choice(HEADER_CELLS + [c06.gen_cell(rng).replace("\x00", "0")]) for _ in range(w)]))
    kres = pmap(ctx, kernel, kjobs, chunksize=8)
    klits, kidx = [], []
    for (kid, hs), o in zip(kjobs, kres):
        if o["exc"]:
            continue
        klits.append(f"mkC19K {listlit(hs, ulit)} {ulit(o['text'])} {listlit(o['back'], ulit)}")
        kidx.append(kid)
    kbad = coq_bad(ctx, "c19k", "Csv.CsvModel Data.DataModel Mgr.Cache Harness.C19Cmp", "c19k", klits, ["c19k_spec", "c19k_agree false", "c19k_agree true"], chunk=300)
    # (b)
    seqs = [gen_seq(rng, i) for i in range(40 if quick else 1200)]
    # the witness of the open finding cache-keyed-by-path-only, in every run
    seqs.append([{"text": "$w.csv[*][ yes() ]", "rows": [["a", "b"], ["1", "2"], ["3", "4"]], "fname": "w.csv", "how": "paths"},
                 {"text": "$w.csv[*][ yes() ]", "rows": [["k", "v", "z"]] + [[f"n{i}", str(i), "y"] for i in range(1, 8)], "fname": "w.csv", "how": "paths"}])
    sres = pmap(ctx, seq_job, [(i, ctx.pkg, s) for i, s in enumerate(seqs)], chunksize=1)
    fails = []
    stale = []      # open finding D24: the cache is keyed by the path only
    jobs_run = 0
    for s, r in zip(seqs, sres):
        for phase in ("first", "second"):
            for k, (j, got, twin) in enumerate(zip(s, r.get(phase) or [], r.get("twins") or [])):
                jobs_run += 1
                if j["how"] == "group" and "lines" in got and "lines" in twin:
                    # a group's lines are read back from the run's data.csv (text), and its printouts carry the group identity in the "[...]" prefix
                    twin = dict(twin, lines=[[str(x) for x in l] for l in twin["lines"]], printouts=[re.sub(r"^\[[^\]]*\] ", "", x) for x in twin["printouts"]])
                    got = dict(got, lines=[[str(x) for x in l] for l in got["lines"]], printouts=[re.sub(r"^\[[^\]]*\] ", "", x) for x in got["printouts"]])
                if got != twin:
                    diff = [key for key in sorted(set(got) | set(twin)) if got.get(key) != twin.get(key)]
                    earlier = s[:k] if phase == "first" else s
                    rec = fails
                    if j["how"] in ("paths", "newpaths") and any(x["fname"] == j["fname"] and x["rows"] != j["rows"] and x["how"] in ("paths", "newpaths") for x in earlier):
                        rec = stale     # a CsvPaths-created csvpath on a path whose earlier content a CsvPaths-created csvpath has cached
                    rec.append({"kind": f"job {k} of a sequence ({'same process, cold cache' if phase == 'first' else 'later process, cache populated'}) differs from the same job run first in a fresh process: {diff}",
                                  "sequence": [{"csvpath": x["text"], "file": x["fname"], "created": x["how"]} for x in s], "job": k, "rows": j["rows"],
                                  "in_sequence": {d: got.get(d) for d in diff}, "fresh_process": {d: twin.get(d) for d in diff}})
    # (c)
    fp = footprint(ctx.pkg)
    allowed = json.load(open(os.path.join(VERIF, "harness", "c19_footprint.json"))).get("allowed")
    fp_new = [x for x in fp if isinstance(allowed, list) and x not in allowed]

    def kcase(i):
        return {"level": "header-cache", "headers": kjobs[kidx[i]][1], "impl": kres[kidx[i]]}
    d10 = [i for i in kbad["c19k_spec"] if i not in kbad["c19k_agree true"]]
    k_other = [i for i in sorted(kbad["c19k_spec"]) if i not in d10]
    cache_fails = [f for f in fails if "headers" in str(f["kind"])]
    if stale:
        if known_open(ctx.pid, SIG_D24):
            ctx.known(f"{SIG_D24}: a CsvPaths-created csvpath on a path whose file was replaced runs with the replaced file's cached line counts and headers ({len(stale)} jobs this run)")
        else:
            ctx.violation("stale-cache", {"what": "a CsvPaths-created csvpath run on a path whose file was replaced uses the earlier file's cached line counts and headers", "case": stale[0], "failures": len(stale)})
    if d10:
        if known_open(ctx.pid, SIG_D10):
            ctx.known(f"{SIG_D10}: header rows are cached with ','.join and re-read with csv.reader ({len(d10)} header rows this run)")
        else:
            ctx.violation("header-cache", {"what": "headers read back from the cache differ from the computed headers: the cache row is written with ','.join and re-read with csv.reader "
                                                   "(model agrees only with deviation switch join on; witness C19_header_cache_refuted)", "case": kcase(d10[0]), "rows": len(d10),
                                           "sequence_example": fails[0] if fails else None})
    if k_other or (fails and not d10) or [e for e in kres if e["exc"]]:
        c = fails[0] if fails else (kcase(k_other[0]) if k_other else {"level": "header-cache", "impl": [e for e in kres if e["exc"]][0]})
        ctx.violation("history", {"what": (fails[0]["kind"] if fails else "the header cache does not return the computed headers"), "case": c, "more": fails[1:3], "failures": len(fails) + len(k_other)})
    elif not d10 and (kbad["c19k_agree false"] or fp_new):
        ctx.violation("correspondence", {"what": ("the class-level / module-level mutable state of the package changed (footprint obligation): new " + ", ".join(fp_new)) if fp_new else
                                         "correspondence Mgr/Cache.v vs FileCacher/Cache no longer checks (Harness/C19Cmp.c19k_agree); theorems C19_* are about the model only",
                                         "disagreeing_case": {"footprint_new": fp_new} if fp_new else kcase(sorted(kbad["c19k_agree false"])[0])}, no_input=True)
    ctx.coverage.update({
        "evaluations": len(kjobs) + jobs_run + sum(len(s) for s in seqs), "distinct_nontrivial": len({json.dumps(s, sort_keys=True) for s in seqs}),
        "rule": "(b) includes sequences (40%) in which the file at a path already read is replaced by other content between jobs; (a) header rows of 0-4 cells from a hostile pool (leading quote, embedded quote, comma, newline, empty, spaces, non-ASCII) through the real FileCacher write + a fresh "
                "FileCacher read; (b) sequences of 2-6 jobs over 1-2 files (60% with hostile header cells; generated csvpaths, header-inspecting csvpaths, 15% append(), 12% a regex whose compilation warns, 6% median/average/max/min) created directly / by a "
                "shared CsvPaths / by a new CsvPaths, run in one subprocess with a cold cache, again in a second subprocess with the cache populated, each job vs its twin alone in a fresh "
                "subprocess (lines, variables, printouts, errors, verdict, counters, headers); (c) ast footprint of class/module-level mutable state. Non-trivial = distinct sequences.",
        "samples": [{"sequence": [{"csvpath": x["text"], "file": x["fname"], "created": x["how"]} for x in seqs[0]]}],
        "header_rows": len(kjobs), "sequences": len(seqs), "jobs_compared_with_fresh_process_twin": jobs_run, "subprocesses": sum(2 + len(s) for s in seqs),
        "footprint": fp, "footprint_new": fp_new, "relational_failures": len(fails), "stale_cache_jobs": len(stale),
        "traces_validated_against_impl": len(klits) - len(kbad["c19k_agree false"]),
        "correspondence": f"cache model == implementation on {len(klits) - len(kbad['c19k_agree false'])}/{len(klits)} header rows (join switch on: {len(klits) - len(kbad['c19k_agree true'])})",
    })


def replay(ctx, payload):
    print(json.dumps(payload.get("case"), default=str)[:3000])
    return 0
