"""C08 — a csvpath gives the same results alone, in a serial run and breadth-first.

Deciding method: Coq theorems (Props/C08.v): for EVERY list of members that do not share state,
the line-major schedule gives each member exactly its standalone run (interchange of folds,
C08_members / C08_interchange), member results do not depend on group order, and the caller's
lines are the union / conjunction of the running members' decisions (C08_caller_lines).
Tie to /repo: groups of 1-4 generated csvpaths are run standalone (real CsvPath), serially
(collect_paths, fast_forward_paths, next_paths) and breadth-first (collect_by_line,
fast_forward_by_line, next_by_line with and without if_all_agree) and in a second group order;
every member's lines, variables, printouts, validity, errors, counters and stop flag are compared
across all of them; the breadth-first runs are additionally replayed, with every member's
recorded matcher answers, through the Coq model (Mgr/Group.byline) and compared by the kernel."""
import gen
import groups
import runloop
from common import CONFIG_INI, blit, coq_bad, known_open, listlit, optlit, pmap, zlit

SIG_NORUN = "by-line-ignores-run-mode"
CFG = CONFIG_INI.replace("csvpath = collect, fail, print", "csvpath = collect, print")


def gen_member(rng, k, allow_norun):
    pr = gen.gen_prog(rng, "FILE", control=True, modes=False, errors=(rng.random() < 0.12))
    mode = rng.choice(["", "", "", " logic-mode: OR", " return-mode: no-matches", " unmatched-mode: keep"])
    if allow_norun and rng.random() < 0.06:
        mode = " run-mode: no-run"
    comps = pr["comps"]
    if "OR" in mode:
        comps = [c.replace(".onmatch", "") for c in comps]
    body = f"[{pr['scan']}][ " + " ".join(comps) + " ]"
    return {"id": f"m{k}", "comment": f"~id: m{k}{mode} :~ ", "body": body}


def standalone(job):
    m, rows, fname = job
    o = runloop.real_run({"text": m["comment"] + "$" + fname + m["body"], "rows": rows, "fname": fname, "method": 0, "k": 0, "policy": ["collect", "print"]})
    return o


def canon_alone(o):
    return {"exc": bool(o["exc"]), "lines": o.get("lines"), "vars": o.get("vars"), "is_valid": o.get("is_valid"), "errors": o.get("errors"),
            "printouts": o.get("printouts"), "scan_count": o.get("scan_count"), "match_count": o.get("match_count"), "stopped": o.get("stopped"),
            "pln": o.get("pln"), "dlc": o.get("dlc")}


def canon_member(m, with_lines):
    return {"exc": False, "lines": m["lines"] if with_lines else None, "vars": m["vars"], "is_valid": m["is_valid"], "errors": m["errors"],
            "printouts": m["printouts"], "scan_count": m["scan_count"], "match_count": m["match_count"], "stopped": m["stopped"],
            "pln": m.get("pln"), "dlc": m.get("dlc")}


def diff(a, b, with_lines):
    for k in ("vars", "is_valid", "errors", "printouts", "scan_count", "match_count", "stopped", "pln", "dlc") + (("lines",) if with_lines else ()):
        if a[k] != b[k]:
            return k
    return None


RUNS = [("collect_paths", {}), ("collect_by_line", {}), ("fast_forward_paths", {}), ("fast_forward_by_line", {}), ("next_paths", {}),
        ("next_by_line", {"if_all_agree": False}), ("next_by_line", {"if_all_agree": True}), ("collect_by_line", {"if_all_agree": True})]


def run(ctx):
    rng = ctx.rng
    quick = ctx.tier == "quick"
    ngroups = 90 if quick else 2500
    gjobs, alone_jobs, meta = [], [], []
    for gi in range(ngroups):
        n = rng.choice([1, 2, 2, 3, 3, 4])
        members = [gen_member(rng, k, allow_norun=True) for k in range(n)]
        rows = gen.gen_rows(rng)
        order2 = members[:]
        rng.shuffle(order2)
        runs = [dict({"method": m, "pathsname": "g", "filename": "f", "new_instance": True}, **kw) for m, kw in RUNS]
        runs.append({"method": "collect_paths", "pathsname": "g2", "filename": "f", "new_instance": True})
        runs.append({"method": "collect_by_line", "pathsname": "g2", "filename": "f", "new_instance": True})
        gjobs.append({"id": gi, "files": {"f": rows}, "groups": {"g": [m["comment"] + "$" + m["body"] for m in members], "g2": [m["comment"] + "$" + m["body"] for m in order2]},
                      "runs": runs, "config": CFG, "record": True})
        for k, m in enumerate(members):
            alone_jobs.append((m, rows, f"a{gi}_{k}.csv"))
        meta.append((members, rows, order2))
    ares = pmap(ctx, standalone, alone_jobs, chunksize=8)
    gres = pmap(ctx, groups.run_history, gjobs, chunksize=2)
    alone = {}
    for (m, rows, fname), o in zip(alone_jobs, ares):
        alone[fname] = o
    fails, norun_fails, lits, lit_src = [], [], [], []
    rvalid = {}
    compared = 0
    for gi, (j, r) in enumerate(zip(gjobs, gres)):
        members, rows, order2 = meta[gi]
        if r["setup_exc"]:
            fails.append({"kind": "setting up the group raised", "group": j["groups"]["g"], "rows": rows, "exc": r["setup_exc"]})
            continue
        base = {m["id"]: canon_alone(alone[f"a{gi}_{k}.csv"]) for k, m in enumerate(members)}
        any_exc = any(b["exc"] for b in base.values())
        for run_, o in zip(j["runs"], r["runs"]):
            label = run_["method"] + ("(if_all_agree)" if run_.get("if_all_agree") else "") + ("/reordered" if run_["pathsname"] == "g2" else "")
            if o["exc"] or any_exc:
                if bool(o["exc"]) != any_exc:
                    fails.append({"kind": "exception in one schedule only", "schedule": label, "group": j["groups"][run_["pathsname"]], "rows": rows,
                                  "group_exc": o["exc"], "standalone_exc": {k: alone[f"a{gi}_{i}.csv"]["exc"] for i, k in enumerate(base)}})
                continue
            with_lines = run_["method"].startswith("collect")
            for m in o["members"]:
                # the validity the run's results report (Result.is_valid, what ResultsManager.is_valid aggregates): the same in every schedule
                first = rvalid.setdefault((gi, m["identity"]), (label, m["result_is_valid"]))
                if first[1] != m["result_is_valid"]:
                    fails.append({"kind": f"the validity a member's Result reports differs between {first[0]} ({first[1]}) and {label} ({m['result_is_valid']})",
                                  "member": next(x["comment"] + "$FILE" + x["body"] for x in members if x["id"] == m["identity"]), "group": j["groups"][run_["pathsname"]], "rows": rows,
                                  "csvpath_is_valid": m["is_valid"], "run_started": m["started"]})
                compared += 1
                b = base[m["identity"]]
                cm = canon_member(m, with_lines)
                what = diff(b, cm, with_lines)
                if what:
                    rec = {"kind": f"member differs between standalone and {label}: {what}", "member": next(x["comment"] + "$FILE" + x["body"] for x in members if x["id"] == m["identity"]),
                           "group": j["groups"][run_["pathsname"]], "rows": rows, "standalone": b[what], "in_group": cm[what]}
                    (norun_fails if ("run-mode: no-run" in rec["member"] and "by_line" in run_["method"]) else fails).append(rec)
            if run_["method"] == "next_by_line" and not run_.get("if_all_agree"):
                want = sorted({runloop.idx_of(l) for b in base.values() for l in (b["lines"] or [])})
                got = [runloop.idx_of(l) for l in (o["yielded"] or [])]
                if got != want:
                    fails.append({"kind": "next_by_line does not yield the union of the members' lines", "group": j["groups"]["g"], "rows": rows, "yielded": got, "union_of_standalone": want})
            if run_["method"] == "next_by_line" and all(m["scanner"] and None not in m["scanner"]["these"] for m in o["members"]):
                gm = []
                for m in o["members"]:
                    s = m["scanner"]
                    sc = f"(mkSc {listlit(s['these'])} {optlit(s['from'])} {optlit(s['to'])} {blit(s['all'])})"
                    tab = listlit(m["calls"], lambda c: f"(mkM {zlit(c[0])} {blit(c[1])} {blit(c[2])} {zlit(c[3])} {zlit(c[4])})")
                    gm.append(f"(mkGM {sc} {blit(m['cwnm'])} {blit(m['will_run'])} {tab} [] {m['scan_count']} {m['match_count']} {blit(m['stopped'])})")
                blanks = [len(x) == 0 for x in rows]
                ys = [runloop.idx_of(l) for l in (o["yielded"] or [])]
                lits.append(f"mkC08 {listlit(blanks, blit)} {blit(bool(run_.get('if_all_agree')))} [{'; '.join(gm)}] {listlit(ys)}")
                lit_src.append((gi, label))
    # members' returned lines are not known for next_by_line (nothing is collected): compare yields + counters only
    bad = coq_bad(ctx, "c08", "Scan.ScanModel Run.RunLoop Mgr.Group Harness.RunCmp Harness.C08Cmp", "c08case",
                  [l.replace("[] ", "[] ", 1) for l in lits], ["c08_agree_counts"], chunk=150) if lits else {"c08_agree_counts": set()}
    corr_bad = sorted(bad["c08_agree_counts"])
    if fails:
        ctx.violation("schedules", {"what": fails[0]["kind"], "case": fails[0], "more": fails[1:4], "failures": len(fails)})
    if norun_fails:
        if known_open(ctx.pid, SIG_NORUN):
            ctx.known(f"{SIG_NORUN}: a member with run-mode: no-run is evaluated by the *_by_line methods ({len(norun_fails)} member comparisons this run)")
        else:
            ctx.violation("by-line-no-run", {"what": "a member marked run-mode: no-run runs anyway in the breadth-first methods (next_by_line never consults will_run); standalone and serially it reads nothing",
                                             "case": norun_fails[0], "failures": len(norun_fails)})
    if not fails and not norun_fails and corr_bad:
        gi, label = lit_src[corr_bad[0]]
        ctx.violation("correspondence", {"what": "correspondence Mgr/Group.byline vs CsvPaths.next_by_line no longer checks (Harness/C08Cmp); theorems C08_* are about the model only",
                                         "disagreeing_case": {"group": gjobs[gi]["groups"]["g"], "rows": meta[gi][1], "schedule": label}}, no_input=True)
    ctx.coverage.update({
        "evaluations": len(gjobs) * len(RUNS) + len(alone_jobs), "distinct_nontrivial": len({repr(j["groups"]["g"]) for j, m in zip(gjobs, meta) if len(m[0]) >= 2}),
        "rule": "groups of 1-4 generated csvpaths (stop/skip/advance/last/print/fail, all scan shapes, logic/return/unmatched modes, 6% run-mode no-run members) over generated files; each group: "
                "every member standalone + 8 group runs (the six methods, next_by_line/collect_by_line also with if_all_agree) + the same group in a second order serially and by line. "
                "Non-trivial = distinct group with >= 2 members.",
        "samples": [{"group": gjobs[0]["groups"]["g"], "rows": meta[0][1]}],
        "groups": len(gjobs), "member_comparisons": compared, "relational_failures": len(fails), "no_run_member_differences": len(norun_fails),
        "by_line_runs_replayed_in_coq": len(lits), "traces_validated_against_impl": len(lits) - len(corr_bad),
        "correspondence": f"by-line model == implementation on {len(lits) - len(corr_bad)}/{len(lits)} next_by_line runs",
    })


def replay(ctx, payload):
    print(payload.get("case") or payload.get("disagreeing_case"))
    return 0
