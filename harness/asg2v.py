"""asg2v — a fail-closed translator for the assignment decision code of csvpath/matching/productions/equality.py
(Equality._set_variable_if, _latch_and_onchange, _do_assignment_new_impl) to Gallina over coq/Match/QSem.v.

A function becomes a Gallina function from the flag "set_variable has been called" and its arguments to the pair
(that flag afterwards, the returned value).  Explain / logging calls (self.assign()..., logger.*) are skipped; the one effect,
self.matcher.set_variable(name, value=<the value parameter>, tracking=tracking), sets the flag; name and tracking must be passed
through unchanged by every call (they select WHICH variable is read and written, which the caller fixes).  Anything else raises
py2v.Unsupported."""
import ast

from py2v import Unsupported, attr_chain, returns

CMP = {ast.Eq: "q_eq", ast.NotEq: "q_ne", ast.GtE: "q_ge", ast.LtE: "q_le"}
ARG_KEYS = ["onchange", "latch", "onmatch", "asbool", "nocontrib", "notnone", "increase", "decrease", "noqualifiers", "new_value", "current_value", "line_matches"]
SIGS = {  # callee -> the Gallina parameters after the flag, in order (source keyword names)
    "_set_variable_if": ["ret", "current_value", "value", "notnone", "increase", "decrease"],
    "_latch_and_onchange": ["ret", "current_value", "new_value", "latch", "onchange", "notnone", "increase", "decrease"],
}


def g(name):
    return {"asbool": "asbool_", "y": "y"}.get(name, name)


class Ctx:
    def __init__(self, names):
        self.names = set(names)
        self.n = 0

    def fresh(self):
        self.n += 1
        return f"w{self.n}"


def expr(n, cx):
    if isinstance(n, ast.Name):
        if n.id not in cx.names:
            raise Unsupported("unknown name " + n.id)
        return g(n.id)
    if isinstance(n, ast.Constant):
        if n.value is None:
            return "QNone"
        if n.value is True or n.value is False:
            return f"(QBool {'true' if n.value else 'false'})"
        raise Unsupported("constant " + repr(n.value))
    if isinstance(n, ast.UnaryOp) and isinstance(n.op, ast.Not):
        return f"(q_not {expr(n.operand, cx)})"
    if isinstance(n, ast.BoolOp):
        f = "q_and" if isinstance(n.op, ast.And) else "q_or"
        out = expr(n.values[-1], cx)
        for v in reversed(n.values[:-1]):
            out = f"({f} {expr(v, cx)} (fun _ : unit => {out}))"
        return out
    if isinstance(n, ast.Compare) and len(n.ops) == 1:
        a, op, b = n.left, n.ops[0], n.comparators[0]
        if isinstance(op, (ast.Is, ast.IsNot)) and isinstance(b, ast.Constant) and b.value is None:
            return f"({'q_is_none' if isinstance(op, ast.Is) else 'q_is_not_none'} {expr(a, cx)})"
        if isinstance(op, ast.Is):
            return f"(q_is {expr(a, cx)} {expr(b, cx)})"
        if type(op) in CMP:
            return f"({CMP[type(op)]} {expr(a, cx)} {expr(b, cx)})"
        raise Unsupported("comparison " + ast.unparse(n))
    if isinstance(n, ast.Call):
        src = ast.unparse(n)
        if src == "self.default_match()":
            return "dm"
        if src == "self._test_friendly_line_matches(line_matches)":
            return "lm"
        if src == "ExpressionUtility.asbool(y)" and "y" in cx.names:
            return "(q_asbool y)"
        raise Unsupported("call " + src[:80])
    raise Unsupported("expression " + type(n).__name__)


def skipped(s):
    """explain / logging statements: nothing the assignment's outcome depends on"""
    if isinstance(s, ast.Expr) and isinstance(s.value, ast.Constant):
        return True
    if isinstance(s, ast.Expr) and isinstance(s.value, ast.Call):
        n = s.value.func
        while isinstance(n, (ast.Attribute, ast.Call)):
            if isinstance(n, ast.Call):
                if ast.unparse(n) == "self.assign()":
                    return True
                n = n.func
            else:
                if n.attr == "logger" and isinstance(s.value.func, ast.Attribute) and s.value.func.attr in ("debug", "info", "warning", "error"):
                    return True
                n = n.value
    return False


def call_args(call, callee, cx):
    """a call of one of the translated methods: name and tracking passed through, every other parameter given"""
    pos = [ast.unparse(a) for a in call.args]
    kw = {k.arg: k.value for k in call.keywords}
    params = SIGS[callee]
    vals = {}
    if callee == "_set_variable_if":
        if len(pos) != 2 or pos[1] != "name":
            raise Unsupported("_set_variable_if positional arguments " + repr(pos))
        vals["ret"] = call.args[0]
    elif pos:
        raise Unsupported("positional arguments of " + callee)
    else:
        if ast.unparse(kw.get("name", ast.Constant(0))) != "name":
            raise Unsupported(callee + ": name is not passed through")
    if ast.unparse(kw.get("tracking", ast.Constant(0))) != "tracking":
        raise Unsupported(callee + ": tracking is not passed through")
    for p in params:
        if p in vals:
            continue
        if p not in kw:
            raise Unsupported(f"{callee}: argument {p} not given")
        vals[p] = kw[p]
    extra = set(kw) - set(params) - {"name", "tracking"}
    if extra:
        raise Unsupported(f"{callee}: unexpected arguments {sorted(extra)}")
    return " ".join(expr(vals[p], cx) if not isinstance(vals[p], str) else vals[p] for p in params)


def block(stmts, cx, w, ind, value_param=None):
    pad = "  " * ind
    if not stmts:
        return pad + f"({w}, QNone)"
    s, rest = stmts[0], stmts[1:]
    if skipped(s):
        return block(rest, cx, w, ind, value_param)
    if isinstance(s, ast.Return):
        return pad + f"({w}, {expr(s.value, cx) if s.value is not None else 'QNone'})"
    if isinstance(s, ast.Expr) and isinstance(s.value, ast.Call):
        src = ast.unparse(s.value)
        if value_param and src == f"self.matcher.set_variable(name, value={value_param}, tracking=tracking)":
            return block(rest, cx, "true", ind, value_param)
        raise Unsupported("call statement " + src[:80])
    if isinstance(s, ast.Assign) and len(s.targets) == 1 and isinstance(s.targets[0], ast.Name):
        t = s.targets[0].id
        v = s.value
        if isinstance(v, ast.Call) and isinstance(v.func, ast.Attribute) and attr_chain(v.func) in ("self._set_variable_if", "self._latch_and_onchange"):
            callee = v.func.attr
            w1 = cx.fresh()
            args = call_args(v, callee, cx)
            cx.names.add(t)
            return pad + f"q_bindp ({callee.lstrip('_')}_src {w} dm {args}) (fun ({w1} : bool) ({g(t)} : qv) =>\n" + block(rest, cx, w1, ind, value_param) + ")"
        e = expr(v, cx)
        cx.names.add(t)
        return pad + f"let {g(t)} := {e} in\n" + block(rest, cx, w, ind, value_param)
    if isinstance(s, ast.If):
        names = set(cx.names)
        b = block(s.body + ([] if returns(s.body) else rest), cx, w, ind + 1, value_param)
        cx.names = set(names)
        o = block(s.orelse + ([] if (s.orelse and returns(s.orelse)) else rest), cx, w, ind + 1, value_param)
        cx.names = names
        return pad + f"q_ifp {expr(s.test, cx)} {w}\n{pad} (fun _ : unit =>\n{b})\n{pad} (fun _ : unit =>\n{o})"
    raise Unsupported("statement " + type(s).__name__ + ": " + ast.unparse(s)[:60])


def method(cls, name):
    fn = next((f for f in cls.body if isinstance(f, ast.FunctionDef) and f.name == name), None)
    if fn is None:
        raise Unsupported("no method " + name)
    return fn


def translate(path):
    tree = ast.parse(open(path, encoding="utf-8").read())
    cls = next((c for c in tree.body if isinstance(c, ast.ClassDef) and c.name == "Equality"), None)
    if cls is None:
        raise Unsupported("no class Equality")
    out = ["(** GENERATED by harness/asg2v.py from csvpath/matching/productions/equality.py (Equality._set_variable_if, _latch_and_onchange,",
           "    _do_assignment_new_impl) — do not edit.  w: set_variable has been called so far; dm: self.default_match(); lm: the rest of the line",
           "    matches (self._test_friendly_line_matches(line_matches)); the result is (set_variable called, returned value). *)",
           "From Coq Require Import ZArith List Bool.", "From V Require Import Match.QSem.", "Import ListNotations.", "Open Scope Z_scope.", ""]
    # _set_variable_if(self, ret, name, *, current_value, value, tracking=None, notnone=False, increase=False, decrease=False)
    f = method(cls, "_set_variable_if")
    if ast.unparse(f.args) != "self, ret, name, *, current_value, value, tracking=None, notnone=False, increase=False, decrease=False":
        raise Unsupported("signature of _set_variable_if: " + ast.unparse(f.args))
    cx = Ctx(SIGS["_set_variable_if"])
    out.append("Definition set_variable_if_src (w : bool) (dm ret current_value value notnone increase decrease : qv) : bool * qv :=\n" + block(list(f.body), cx, "w", 1, "value") + ".\n")
    f = method(cls, "_latch_and_onchange")
    if ast.unparse(f.args) != "self, *, ret, current_value, new_value, name, tracking, latch, onchange, notnone, increase, decrease":
        raise Unsupported("signature of _latch_and_onchange: " + ast.unparse(f.args))
    cx = Ctx(SIGS["_latch_and_onchange"])
    out.append("Definition latch_and_onchange_src (w : bool) (dm ret current_value new_value latch onchange notnone increase decrease : qv) : bool * qv :=\n" + block(list(f.body), cx, "w", 1) + ".\n")
    f = method(cls, "_do_assignment_new_impl")
    if ast.unparse(f.args) != "self, *, name: str, tracking: str=None, args: dict":
        raise Unsupported("signature of _do_assignment_new_impl: " + ast.unparse(f.args))
    body = list(f.body)
    binds = {}
    while body and isinstance(body[0], ast.Assign) and isinstance(body[0].value, ast.Subscript) and ast.unparse(body[0].value.value) == "args":
        s = body.pop(0)
        key = s.value.slice.value if isinstance(s.value.slice, ast.Constant) else None
        if key not in ARG_KEYS or len(s.targets) != 1 or not isinstance(s.targets[0], ast.Name):
            raise Unsupported("args[...] binding " + ast.unparse(s))
        binds[s.targets[0].id] = key
    want = {"onchange": "onchange", "latch": "latch", "onmatch": "onmatch", "asbool": "asbool", "nocontrib": "nocontrib", "notnone": "notnone", "increase": "increase",
            "decrease": "decrease", "noqualifiers": "noqualifiers", "y": "new_value", "current_value": "current_value", "line_matches": "line_matches"}
    if binds != want:
        raise Unsupported("the args[...] bindings of _do_assignment_new_impl: " + repr(binds))
    cx = Ctx(["onchange", "latch", "onmatch", "asbool", "nocontrib", "notnone", "increase", "decrease", "y", "current_value", "line_matches"])
    out.append("Definition do_assignment_src (w : bool) (dm lm onchange latch onmatch asbool_ nocontrib notnone increase decrease y current_value : qv) : bool * qv :=\n"
               + "  let line_matches := lm in\n" + block(body, cx, "w", 1) + ".\n")
    return "\n".join(out)


if __name__ == "__main__":
    import sys
    print(translate(sys.argv[1]))
