"""C13 — stop, skip, advance and last control the run as documented.

Deciding method: Coq theorems Props/C13.v over the adjudication-loop model (any component
evaluator) and the run-loop model (any matcher); Match/Ctl.v instantiates them with the control
functions among pushing components.  Tie to /repo: csvpaths of that fragment are enumerated
(position of the control function, firing line, scan window, blank pattern, return mode), run by
the real CsvPath.collect(), and returned lines, every stack, scan/match counts and the stop flag
are compared by the Coq kernel with the executable model (Harness/C13Cmp.c13_agree)."""
import itertools

import gen
from common import Quiet, blit, coq_bad, known_open, listlit, optlit, pmap, zlit

SIG_D8 = "skip-last-component-leaks"

TRUSTED_EXTRA = [
    "harness/py2v.py (fail-closed translator of Scanner.includes / Scanner.is_last from the source under test into coq/Scan/ScanSrc.v) and coq/Scan/PySem.v (CPython's ==, <, and/or, in, len, max, truthiness on int/None/bool/list as a deep embedding with an absorbing error value)",
]
SCANS = ["*", "*", "1*", "2*", "1-3", "0-2", "0+2+4", "1-2+4", "3", "0", "3-1", "3+1", "4+0+2", "4+1-2"]      # the last three: a list written out of order


# ---------------------------------------------------------------- the fragment
def cond_txt(c, nc):
    q = ".nocontrib" if nc else ""
    k = c[0]
    if k == "eq":
        return f"eq{q}(line_number(), {c[1]})"
    if k == "gt":
        return f"gt{q}(line_number(), {c[1]})"
    return {"last": f"last{q}()", "yes": f"yes{q}()", "no": f"no{q}()", "valid": f"valid{q}()", "failed": f"failed{q}()"}[k]


def act_txt(a):
    k = a[0]
    if k == "push":
        return f'push("s{a[1]}", line_number())'
    if k == "adv":
        return f"advance({a[1]})"
    return {"stop": "stop()", "skip": "skip()", "fail": "fail()", "failstop": "fail_and_stop()"}[k]


def comp_txt(c):
    if c[0] == "act":
        return act_txt(c[1])
    if c[0] == "when":
        return f"{cond_txt(c[1], c[2])} -> {act_txt(c[3])}"
    if c[0] == "arg":       # the one-argument forms: stop(cond), skip(cond), fail_and_stop(cond)
        return act_txt(c[2])[:-1] + cond_txt(c[1], False) + ")"
    if c[0] == "and":       # and(cond, act): short-circuits, so it is 'cond -> act' voting cond
        return f"and({cond_txt(c[1], False)}, {act_txt(c[2])})"
    if c[0] == "ornot":     # or(not(cond), act): act runs when cond holds; the vote is always yes
        return f"or(not({cond_txt(c[1], False)}), {act_txt(c[2])})"
    return cond_txt(c[1], False)


def cond_lit(c):
    k = c[0]
    return {"eq": lambda: f"(EqLine {zlit(c[1])})", "gt": lambda: f"(GtLine {zlit(c[1])})", "last": lambda: "IsLast",
            "yes": lambda: "Yes", "no": lambda: "No", "valid": lambda: "IsValid", "failed": lambda: "IsFailed"}[k]()


def act_lit(a):
    k = a[0]
    return {"push": lambda: f"(APush {a[1]})", "adv": lambda: f"(AAdv {a[1]})", "stop": lambda: "AStop", "skip": lambda: "ASkip", "fail": lambda: "AFail", "failstop": lambda: "AFailStop"}[k]()


def comp_lit(c):
    if c[0] == "act":
        return f"CAct {act_lit(c[1])}"
    if c[0] == "when":
        return f"CWhen {cond_lit(c[1])} {blit(c[2])} {act_lit(c[3])}"
    if c[0] == "arg":
        return f"CArg {cond_lit(c[1])} {act_lit(c[2])}"
    if c[0] == "and":
        return f"CWhen {cond_lit(c[1])} false {act_lit(c[2])}"
    if c[0] == "ornot":
        return f"CWhen {cond_lit(c[1])} true {act_lit(c[2])}"
    return f"CCond {cond_lit(c[1])}"


def controls(fire):
    yield ("when", ("eq", fire), False, ("stop",))
    yield ("when", ("eq", fire), True, ("stop",))
    yield ("when", ("eq", fire), False, ("skip",))
    yield ("when", ("eq", fire), True, ("skip",))
    yield ("when", ("eq", fire), True, ("adv", 1))
    yield ("when", ("eq", fire), True, ("adv", 2))
    yield ("when", ("eq", fire), False, ("adv", 3))
    yield ("when", ("gt", fire), True, ("skip",))
    yield ("when", ("last",), True, ("stop",))
    yield ("act", ("stop",))
    yield ("act", ("skip",))
    yield ("act", ("adv", 1))
    yield ("arg", ("eq", fire), ("stop",))
    yield ("arg", ("gt", fire), ("stop",))
    yield ("arg", ("eq", fire), ("skip",))
    yield ("arg", ("gt", fire), ("skip",))
    yield ("and", ("eq", fire), ("stop",))
    yield ("ornot", ("eq", fire), ("stop",))
    yield ("and", ("gt", fire), ("skip",))
    yield ("ornot", ("eq", fire), ("skip",))


def programs(rng, quick):
    """control function at every position among 1-4 pushing components (+ optional bare filter and
    trailing last() component)"""
    out = []
    for npush in (1, 2, 3, 4):
        for pos in range(npush + 1):
            for fire in range(0, 7):
                for ctl in controls(fire):
                    comps = [("act", ("push", i + 1)) for i in range(npush)]
                    comps.insert(pos, ctl)
                    out.append(comps)
    rng.shuffle(out)
    res = []
    for comps in out:
        r = rng.random()
        comps = list(comps)
        if r < 0.2:
            comps.insert(rng.randrange(len(comps) + 1), ("cond", rng.choice([("gt", 0), ("eq", 2), ("gt", 2), ("yes",), ("no",)])))
        r = rng.random()
        if r < 0.3:
            comps.append(("when", ("last",), True, ("push", 9)))
        elif r < 0.4:
            comps.append(("when", ("last",), False, ("push", 9)))
        res.append(comps)
    return res


def gen_blanks(rng):
    n = rng.choice([1, 2, 3, 4, 5, 6, 7, 8])
    bl = [rng.random() < 0.2 for _ in range(n)]
    if rng.random() < 0.3:
        bl[-1] = True
    return bl


def impl(job):
    comps, scan, blanks, cw, fname = job
    from csvpath import CsvPath
    rows = [[] if b else [f"{i}"] for i, b in enumerate(blanks)]
    gen.write_rows(fname, rows)
    out = {"exc": None}
    try:
        text = ("~return-mode: no-matches :~ " if cw else "") + f"${fname}[{scan}][ " + " ".join(comp_txt(c) for c in comps) + " ]"
        out["text"] = text
        with Quiet():
            p = CsvPath()
            p.config.csvpath_errors_policy = ["raise", "collect"]
            p.parse(text)
            lines = p.collect()
        sc = p.scanner
        out.update({"ret": [int(l[0]) for l in lines], "vars": {k: list(v) for k, v in p.variables.items() if isinstance(v, (list, tuple))},
                    "scan": int(p.scan_count), "match": int(p.match_count), "stopped": bool(p.stopped), "valid": bool(p.is_valid),
                    "scanner": {"these": list(sc.these), "from": sc.from_line, "to": sc.to_line, "all": bool(sc.all_lines)}})
    except Exception as ex:  # noqa
        out["exc"] = type(ex).__name__ + ": " + str(ex)[:100]
    finally:
        import os
        try:
            os.remove(fname)
        except OSError:
            pass
    return out


def case_lit(job, o):
    comps, scan, blanks, cw, _ = job
    if o["exc"]:
        return f"mkC13 sc0 {blit(cw)} {listlit(comps, lambda c: '(' + comp_lit(c) + ')')} {listlit(blanks, blit)} true [] [] 0 0 false"
    s = o["scanner"]
    sc = f"(mkSc {listlit(s['these'])} {optlit(s['from'])} {optlit(s['to'])} {blit(s['all'])})"
    ids = sorted({c[1][1] for c in comps if c[0] == "act" and c[1][0] == "push"} | {c[3][1] for c in comps if c[0] == "when" and c[3][0] == "push"})
    stacks = listlit(ids, lambda i: f"({i}, {listlit([int(x) for x in o['vars'].get(f's{i}', [])])})")
    return (f"mkC13 {sc} {blit(cw)} {listlit(comps, lambda c: '(' + comp_lit(c) + ')')} {listlit(blanks, blit)} false "
            f"{listlit(o['ret'])} {stacks} {o['scan']} {o['match']} {blit(o['stopped'])}")


def describe(job, o):
    comps, scan, blanks, cw, _ = job
    return {"csvpath": o.get("text") or " ".join(comp_txt(c) for c in comps), "components": comps, "scan": scan, "blank_records": blanks,
            "return_mode_no_matches": cw, "impl": {k: o.get(k) for k in ("exc", "ret", "vars", "scan", "match", "stopped")}}


def run(ctx):
    rng = ctx.rng
    quick = ctx.tier == "quick"
    progs = programs(rng, quick)
    if quick:
        progs = progs[:1800]
    jobs = []
    for i, comps in enumerate(progs):
        reps = 1 if quick else 6
        for r in range(reps):
            jobs.append((comps, rng.choice(SCANS), gen_blanks(rng), rng.random() < 0.15, f"c13_{i}_{r}.csv"))
    res = pmap(ctx, impl, jobs, chunksize=16)
    lits = [case_lit(j, o) for j, o in zip(jobs, res)]
    bad = coq_bad(ctx, "c13", "Scan.ScanModel Run.RunLoop Match.Adjudicate Match.Ctl Harness.C13Cmp", "c13case", lits,
                  ["c13_agree false", "c13_agree true"], chunk=300)
    clean_bad, quirk_bad = sorted(bad["c13_agree false"]), sorted(bad["c13_agree true"])
    d8 = [i for i in clean_bad if i not in bad["c13_agree true"]]
    other = [i for i in clean_bad if i in bad["c13_agree true"]]
    if d8:
        c = describe(jobs[d8[0]], res[d8[0]])
        if known_open(ctx.pid, SIG_D8):
            ctx.known(f"{SIG_D8}: {c['csvpath']} ({len(d8)} cases this run)")
        else:
            ctx.violation("skip-last", {"what": "skip() as the final match component: its own line is still judged by the votes and the NEXT line is dropped unevaluated "
                                                "(the implementation agrees with the model only with deviation switch skip_last_leaks on; theorem C13_skip_line is for the clean model, "
                                                "witness C13_skip_last_leaks_refuted)", "case": c, "cases_this_run": len(d8)})
    if other:
        c = describe(jobs[other[0]], res[other[0]])
        ctx.violation("control", {"what": "returned lines / pushes / counters differ from the documented effect of stop, skip, advance or last (executable model Match/Ctl.v, "
                                          "whose behaviour theorems C13_* characterise)", "case": c, "more": [describe(jobs[i], res[i]) for i in other[1:4]]})
    # the blank final record: the matcher runs on it once more, frozen, so that last() can fire — the other components do nothing there, not even
    # as the look-ahead of an onmatch-qualified last()
    import json as _json
    import runloop
    fz_jobs = []
    for fi, rows in enumerate([[["id", "a"], ["r1", "1"], ["r2", "2"], ["r3", "3"], []], [["id", "a"], ["r1", "1"], [], ["r3", "3"], ["r4", "4"], ["r5", "5"], []],
                               [["id", "a"], ["r1", "1"], []]]):
        for ti, (scan, body) in enumerate([("*", 'push("p0", line_number()) last.onmatch.nocontrib() -> push("lasts", line_number())'),
                                           ("1*", 'last.onmatch.nocontrib() -> push("lasts", line_number()) push("p0", line_number()) @c = count_lines()'),
                                           ("*", 'push("p0", line_number()) last.onmatch() -> push("lasts", line_number())'),
                                           ("0*", 'push("p0", line_number()) yes() last.nocontrib() -> push("lasts", line_number())')]):
            fname = f"c13fz_{fi}_{ti}.csv"
            fz_jobs.append({"text": f"${fname}[{scan}][ {body} ]", "rows": rows, "fname": fname, "method": (fi + ti) % 3, "k": 0, "policy": ["collect", "print"], "lo": 1 if scan == "1*" else 0})
    fz_res = pmap(ctx, runloop.real_run, fz_jobs, chunksize=4)
    fz_bad = []
    for j, o in zip(fz_jobs, fz_res):
        want = [k for k in range(j["lo"], len(j["rows"])) if j["rows"][k]]
        got = None if o["exc"] else _json.loads(o["vars"]).get("p0")
        if got != want:
            fz_bad.append({"csvpath": j["text"], "rows": j["rows"], "entry_point": ["collect", "next", "fast_forward"][j["method"]], "pushed_on_lines": got, "expected": want, "exc": o["exc"]})
    if fz_bad:
        ctx.violation("frozen-final-record", {"what": "a component other than last() acted on the blank final record (the matcher's extra, frozen evaluation that lets last() fire): "
                                                      "push(\"p0\", line_number()) must record the scanned non-blank lines and nothing else", "case": fz_bad[0], "more": fz_bad[1:4]})
    # skip() behind an onmatch-qualified component (whose look-ahead evaluates the skip() first): the line on which skip() fires is still not returned
    sk_jobs = []
    for fi, rows in enumerate([[["id", "a"], ["r1", "1"], ["r2", "2"], ["r3", "3"], ["r4", "2"]], [["id", "a"], ["r1", "2"], [], ["r3", "3"], ["r4", "4"], []]]):
        for ti, (scan, body) in enumerate([("*", 'push.onmatch("seen", line_number()) skip(#a == "2")'), ("1*", 'push.onmatch("seen", line_number()) #a == "2" -> skip()'),
                                           ("0-3", '@c.onmatch = count() skip(#a == "2") yes()')]):
            fname = f"c13sk_{fi}_{ti}.csv"
            lo, hi = (1, 99) if scan == "1*" else ((0, 3) if scan == "0-3" else (0, 99))
            sk_jobs.append({"text": f"${fname}[{scan}][ {body} ]", "rows": rows, "fname": fname, "method": (fi + ti) % 2, "k": 0, "policy": ["collect", "print"],
                            # (a when/do votes its condition: with `cond -> skip()` no other line matches either)
                            "want": [] if "-> skip()" in body else [r[0] for k, r in enumerate(rows) if r and lo <= k <= hi and r[1] != "2"]})
    sk_res = pmap(ctx, runloop.real_run, sk_jobs, chunksize=4)
    sk_bad = [{"csvpath": j["text"], "rows": j["rows"], "returned": None if o["exc"] else [l[0] for l in o["lines"]], "expected": j["want"], "exc": o["exc"]}
              for j, o in zip(sk_jobs, sk_res) if o["exc"] or [l[0] for l in o["lines"]] != j["want"]]
    if sk_bad:
        ctx.violation("skip-behind-onmatch", {"what": "a line on which skip() fired was returned (skip() placed after an onmatch-qualified component)", "case": sk_bad[0], "more": sk_bad[1:4]})
    # ... and no component placed after a skip() / stop() that fired runs on that line, whether or not an onmatch look-ahead evaluated it first;
    # an onmatch component does not act on the skipped line (repaired defect lookahead-ignores-skip-and-stop)
    la_rows = [["id", "a"], ["r1", "1"], ["r2", "2"], ["r3", "3"], ["r4", "2"], ["r5", "5"]]
    la_jobs = []
    for ti, (body, wl, wv) in enumerate([
            ('push.onmatch("seen", line_number()) skip(#a == "2") push("after", line_number())', ["r1", "r3", "r5"], {"seen": [1, 3, 5], "after": [1, 3, 5]}),
            ('skip(#a == "2") push.onmatch("seen", line_number()) push("after", line_number())', ["r1", "r3", "r5"], {"seen": [1, 3, 5], "after": [1, 3, 5]}),
            ('push.onmatch("seen", line_number()) stop(#a == "2") push("after", line_number())', ["r1"], {"seen": [1], "after": [1]}),
            ('push.onmatch("seen", line_number()) skip(#a == "2")', ["r1", "r3", "r5"], {"seen": [1, 3, 5]}),
            ('@c.onmatch = count() #a == "2" -> skip() push("after", line_number())', [], {"after": [1, 3, 5]})]):
        fname = f"c13la_{ti}.csv"
        la_jobs.append({"text": f"${fname}[1*][ {body} ]", "rows": la_rows, "fname": fname, "method": ti % 2, "k": 0, "policy": ["collect", "print"], "wl": wl, "wv": wv})
    # open finding: stop() as the final component behind an onmatch component — its line matched and must be returned
    SIG_FS = "final-stop-behind-onmatch-line-not-returned"
    la_jobs.append({"text": '$c13la_fs.csv[1*][ push.onmatch("seen", line_number()) push("after", line_number()) stop(#a == "2") ]', "rows": la_rows, "fname": "c13la_fs.csv", "method": 0, "k": 0,
                    "policy": ["collect", "print"], "wl": ["r1", "r2"], "wv": {"seen": [1, 2], "after": [1, 2]}, "fs": True})
    la_res = pmap(ctx, runloop.real_run, la_jobs, chunksize=2)
    la_bad, fs_bad = [], []
    for j, o in zip(la_jobs, la_res):
        got_l = None if o["exc"] else [l[0] for l in o["lines"]]
        got_v = None if o["exc"] else {k: v for k, v in _json.loads(o["vars"]).items() if k in j["wv"]}
        if got_l != j["wl"] or got_v != j["wv"]:
            rec = {"csvpath": j["text"], "rows": j["rows"], "returned": got_l, "expected_lines": j["wl"], "variables": got_v, "expected_variables": j["wv"], "exc": o["exc"]}
            # the open finding is exactly: everything as expected except that the stop line is missing from the returned lines
            (fs_bad if (j.get("fs") and got_v == j["wv"] and got_l == j["wl"][:-1]) else la_bad).append(rec)
    if la_bad:
        ctx.violation("lookahead-control", {"what": "a component placed after a skip() / stop() that fired ran on that line, or an onmatch component acted on a skipped line "
                                                    "(csvpaths with an onmatch-qualified component, whose look-ahead evaluates the other components first)", "case": la_bad[0], "more": la_bad[1:4]})
    if fs_bad:
        if known_open(ctx.pid, SIG_FS):
            ctx.known(f"{SIG_FS}: {fs_bad[0]['csvpath']} returns {fs_bad[0]['returned']} — the line on which the final stop() fired, which matched, is not returned")
        else:
            ctx.violation("final-stop-behind-onmatch", {"what": "stop() as the final component behind an onmatch-qualified component: the matching line on which it fires is not returned", "case": fs_bad[0]})
    fired = {repr(j[:4]) for j, o in zip(jobs, res) if not o["exc"] and (o["stopped"] or any(True for _ in o["vars"]))}
    # the translator tie: Scanner.includes / Scanner.is_last as written in the source of the tree under test, regenerated and
    # (when the text differs from the checked-in Scan/ScanSrc.v) re-proved equal to the model
    import srctie
    tie = srctie.check(ctx)
    if tie["status"] in ("untranslatable", "unproved") and not ctx.violations:
        ctx.violation("source-tie", {"what": "the translation of Scanner.is_last from csvpath/scanning/scanner.py is no longer proved equal to the model: theorem is_last_src_eq (C13_is_last_source) "
                                             "does not check against the source of this tree; the generated cases of this run found no input on which the property fails",
                                     "theorem": "is_last_src_eq (C13_is_last_source)", "tie": tie}, no_input=True)
    # the translator tie for the per-record step: CsvPath._consider_line (with raise_match_count_if, stop(), LineMonitor.is_last_line_and_blank) as
    # written in the source of the tree under test, regenerated and (when the text differs from the checked-in Run/RunSrc.v) re-proved equal to the model
    import srctie
    rtie = srctie.check(ctx, "runstep")
    if rtie["status"] in ("untranslatable", "unproved") and not ctx.violations:
        ctx.violation("source-tie", {"what": "the translation of CsvPath._consider_line from csvpath/csvpath.py is no longer proved equal to the run-loop model's per-record step: theorem "
                                             "consider_line_src_eq (C13_step_source) does not check against the source of this tree; the generated cases of this run found no input on which the property fails",
                                     "theorem": "consider_line_src_eq (C13_step_source)", "tie": rtie}, no_input=True)
    ctx.coverage.update({
        "evaluations": len(jobs), "distinct_nontrivial": len(fired),
        "rule": "enumeration: a control component (12 forms of conditional/unconditional stop, skip, advance(n), last-stop) at every position among 1-4 pushing components, firing line 0..6, "
                "20% with an extra bare filter component, 40% with a trailing last()/last.nocontrib() -> push component; each with a random scan window (14 forms, three of them lists written out of order), file of 1-8 records "
                "with interior/trailing blank records, 15% in return-mode no-matches (quick: first 1800 programs of the shuffled enumeration; thorough: all x 6 files). "
                "Non-trivial = distinct case that ran without exception and pushed or stopped.",
        "samples": [describe(jobs[0], res[0]), describe(jobs[len(jobs) // 2], res[len(jobs) // 2])],
        "programs": len(progs), "exceptions": sum(1 for o in res if o["exc"]), "frozen_final_record_runs": len(fz_jobs),
        "traces_validated_against_impl": len(jobs) - len(clean_bad),
        "correspondence": f"clean model == implementation on {len(jobs) - len(clean_bad)}/{len(jobs)}; with switch skip_last_leaks on: {len(jobs) - len(quirk_bad)}/{len(jobs)}",
    })
    ctx.coverage["source_tie_run_step"] = {"status": rtie["status"], "detail": rtie["detail"][:400]}
    ctx.coverage["source_tie"] = {"status": tie["status"], "detail": tie["detail"][:400]}


def replay(ctx, payload):
    c = payload["case"]
    o = impl(([tuple(x) if not isinstance(x, list) else _t(x) for x in c["components"]], c["scan"], c["blank_records"], c["return_mode_no_matches"], "replay_c13.csv"))
    print(c["csvpath"]); print("recorded:", c["impl"]); print("impl now:", {k: o.get(k) for k in ("exc", "ret", "vars", "scan", "match", "stopped")})
    return 0


def _t(x):
    return tuple(_t(y) if isinstance(y, list) else y for y in x)
