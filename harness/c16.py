"""C16 — print() emits its text verbatim with references replaced by current values.

Deciding method: Coq theorem C16_verbatim (Props/C16.v): for templates of any length built from text
chunks and references in any arrangement (each reference followed by the end or by a character that
cannot continue a name), the modelled print pipeline — scanner for the print grammar, sentinel
handling, reference lookup, trailing blank — yields exactly the substituted text; once/onmatch
theorems.  Tie to /repo: generated templates (all reference kinds: variables plain / key / index /
length, headers by name and index, metadata, csvpath fields; adjacent, one or many characters apart,
at start/end) are printed by the real interpreter on every line of generated files; the entries the
printer received are compared, by the Coq kernel, with the model and with verbatim substitution on
the values the csvpath assigns.  A separate stream of 'touching' references exercises open finding D9b."""
import os

import gen
from common import Quiet, blit, coq_bad, known_open, listlit, pmap, ulit

SIG_D9 = "sentinel-lost-between-adjacent-references"
SIG_D9B = "reference-followed-by-dollar"
TEXT = list("abcXYZ019") + [" ", " ", ",", ";", ":", "-", "_", "=", "(", ")", "!", "?", "/", "|", "+", "%", "&", "<", ">", "'", "#", "@", "*", "^", "{", "}", ".", "~"]
TERMINATORS = [" ", ",", ";", ":", "-", "(", ")", "!", "?", "/", "|", "+", "%", "&", "<", ">", "#", "@", "^", "{", "}"]
REFS = [("headers", "a", None), ("headers", "b", None), ("headers", "2", None), ("headers", "0", None), ("headers", "zz", None), ("variables", "x", None), ("variables", "n", None),
        ("variables", "t", "k"), ("variables", "st", "0"), ("variables", "st", "length"), ("variables", "nope", None),
        ("variables", "emp", "length"), ("variables", "emp", "0"), ("variables", "st", "7"), ("variables", "x", "k"),
        ("variables", "late", "length"), ("variables", "late", "0"),      # written by print's second argument, which runs after the text was printed      # an empty stack, an index past the end, a key on a scalar ("metadata", "note", None), ("metadata", "id", None),
        ("csvpath", "line_number", None), ("csvpath", "count_lines", None), ("csvpath", "count_scans", None), ("csvpath", "count_matches", None), ("csvpath", "identity", None)]
TYPES = {"variables": "TVariables", "headers": "THeaders", "metadata": "TMetadata", "csvpath": "TCsvpath"}
CELLS = ["1", "22", "x y", " padded ", "", "Zed", "a,b", "7"]


def ref_text(r):
    return f"$.{r[0]}.{r[1]}" + (f".{r[2]}" if r[2] else "")


def gen_template(rng, touching=False):
    chunks = []
    n = rng.choice([1, 2, 2, 3, 4, 5])
    need_term = False
    for k in range(n):
        if rng.random() < 0.55 or (touching and k == 1):
            if need_term and not touching:
                # a separator of one or many characters beginning with a terminator
                t = rng.choice(TERMINATORS) + "".join(rng.choice(TEXT) for _ in range(rng.choice([0, 0, 1, 3])))
                chunks.append(("text", t))
            chunks.append(("ref", rng.choice(REFS)))
            need_term = True
        else:
            t = "".join(rng.choice(TEXT) for _ in range(rng.choice([1, 2, 4, 8])))
            if need_term:
                t = rng.choice(TERMINATORS) + t
            # a literal dot right before the end of a name is written '..' by the language; avoid a text chunk that starts with '.'
            chunks.append(("text", t))
            need_term = False
    if touching:
        chunks = [("ref", rng.choice(REFS)), ("ref", rng.choice(REFS))] + chunks
    # merge: a text chunk following a text chunk is fine
    return chunks


def chunk_lit(c):
    if c[0] == "text":
        return f"(CText {ulit(c[1])})"
    t, n, k = c[1]
    return f"(CRef (mkRef [] {TYPES[t]} {ulit(n)} {'None' if k is None else '(Some ' + ulit(k) + ')'}))"


def gen_rows(rng, blanks=False):
    # half of the files have two more columns whose NAMES are digits ("2", "0"): $.headers.2 is then the column named "2", not the third column
    wide = rng.random() < 0.5
    rows = [["id", "a", "b", "c"] + (["2", "0"] if wide else [])]
    for i in range(1, rng.choice([2, 3, 4, 5])):
        row = [f"r{i}", rng.choice(CELLS), rng.choice(CELLS), rng.choice(CELLS)]
        if wide:
            row += [rng.choice(["n2", "two", "", "9"]), rng.choice(["n0", "zero", "5"])]
            rows.append(row[: rng.choice([2, 4, 5, 6, 6, 6])])
        else:
            rows.append(row[: rng.choice([2, 3, 4, 4, 4])])
    if blanks and rng.random() < 0.3:
        # blank physical lines between the records: $.csvpath.line_number / count_lines count them, count_scans / count_matches do not
        for _ in range(rng.choice([1, 2])):
            rows.insert(rng.randrange(1, len(rows) + 1), [])
    return rows


def pystr(v):
    return f"{v}"


def env_lit(rows, k, stack, ident, late=None, scans=None):
    """the values current when print runs on data line k (print is the last component; every line matches)"""
    line = rows[k]
    scans = k if scans is None else scans      # the records scanned so far, this one included (blank lines are not scanned)
    cell = lambda i: (line[i].strip() if i < len(line) else None)
    var = []
    var.append(("x", ("s", pystr(cell(1)))))
    var.append(("n", ("s", str(scans))))                  # count_scans(): scan [1*] -> the k-th scanned record
    var.append(("st", ("l", [pystr(v) for v in stack])))
    var.append(("t", ("d", [("k", pystr(cell(3)))])))
    var.append(("emp", ("l", [])))                        # pushed and popped on every line: the stack exists and is empty
    if late:
        var.append(("late", ("l", [pystr(v) for v in late])))   # what print's second argument pushed on the EARLIER lines

    def vv(x):
        kind, val = x
        if kind == "s":
            return f"(VScalar {ulit(val)})"
        if kind == "l":
            return f"(VList {listlit(val, ulit)})"
        return f"(VDict {listlit(val, lambda kv: '(' + ulit(kv[0]) + ', ' + ulit(kv[1]) + ')')})"
    vl = listlit(var, lambda kv: f"({ulit(kv[0])}, {vv(kv[1])})")
    meta = listlit([("id", ("s", ident)), ("note", ("s", "hello there"))], lambda kv: f"({ulit(kv[0])}, {vv(kv[1])})")
    cp = [("line_number", str(k)), ("count_lines", str(k + 1)), ("count_scans", str(scans)), ("count_matches", str(scans - 1)), ("identity", ident)]
    cpl = listlit(cp, lambda kv: f"({ulit(kv[0])}, (VScalar {ulit(kv[1])}))")
    return f"(mkEnv {vl} {listlit(rows[0], ulit)} {listlit(line, ulit)} {meta} {cpl})"


def impl(job):
    chunks, rows, fname, qual = job[:4]
    second = ', push("late", #a)' if (len(job) > 4 and job[4]) else ""      # a function as second argument: it runs after the print
    from csvpath import CsvPath
    from csvpath.util.printer import TestPrinter
    gen.write_rows(fname, rows)
    template = "".join(c[1] if c[0] == "text" else ref_text(c[1]) for c in chunks)
    out = {"exc": None, "template": template}
    try:
        text = f'~id: p1 note: hello there :~ ${fname}[1*][ @x = #a @n = count_scans() push("st", #b) push("emp", #a) @pp = pop("emp") @t.k = #c print{qual}("{template}"{second}) ]'
        out["text"] = text
        with Quiet():
            p = CsvPath()
            tp = TestPrinter()
            p.add_printer(tp)
            p.config.csvpath_errors_policy = ["raise"]
            p.parse(text)
            p.collect()
        out["printed"] = list(tp.lines)
    except Exception as ex:  # noqa
        out["exc"] = type(ex).__name__ + ": " + str(ex)[:160]
    finally:
        try:
            os.remove(fname)
        except OSError:
            pass
    return out


def qimpl(job):
    """print.once / print.onmatch: which lines print"""
    qual, filt, rows, fname = job[:4]
    named = ', "report"' if (len(job) > 4 and job[4]) else ""      # a second argument sends the print to a named printout
    from csvpath import CsvPath
    from csvpath.util.printer import TestPrinter
    gen.write_rows(fname, rows)
    out = {"exc": None}
    try:
        with Quiet():
            p = CsvPath()
            tp = TestPrinter()
            p.add_printer(tp)
            p.config.csvpath_errors_policy = ["raise"]
            p.parse(f'${fname}[1*][ print{qual}("L$.csvpath.line_number"{named}) {filt} ]')
            lines = p.collect()
        out["printed"] = list(tp.lines)
        out["matched"] = [l[0] for l in lines]
    except Exception as ex:  # noqa
        out["exc"] = type(ex).__name__ + ": " + str(ex)[:160]
    finally:
        try:
            os.remove(fname)
        except OSError:
            pass
    return out


def run(ctx):
    rng = ctx.rng
    quick = ctx.tier == "quick"
    # the print grammar's character classes, read from the grammar text of the tree under test, against the model's predicates
    import c16_grammar
    from common import zlit
    cls_src, cls_err, cls_bad = None, None, []
    try:
        cls_src, tab = c16_grammar.classes()
        bl = lambda k: listlit(tab[k], blit)
        lit = f"mkCls16 {listlit(c16_grammar.CODES, zlit)} {bl('text')} {bl('root')} {bl('simple_name')} {bl('quoted_name')}"
        cls_bad = sorted(coq_bad(ctx, "c16k", "Csv.CsvModel Data.DataModel Match.Print Harness.C16Cmp", "c16cls", [lit], ["c16_classes_agree"], chunk=10)["c16_classes_agree"])
    except Exception as ex:  # noqa
        cls_err = type(ex).__name__ + ": " + str(ex)[:200]
    jobs = []
    for i in range(700 if quick else 30000):
        jobs.append((gen_template(rng), gen_rows(rng, blanks=True), f"c16_{i}.csv", "", rng.random() < 0.3))
    tjobs = [(gen_template(rng, touching=True), gen_rows(rng), f"c16t_{i}.csv", "") for i in range(30 if quick else 500)]
    res = pmap(ctx, impl, jobs + tjobs, chunksize=16)
    lits = []
    for job, o in zip(jobs + tjobs, res):
        chunks, rows = job[0], job[1]
        second = len(job) > 4 and job[4]
        envs, stack, late = [], [], []
        scans = 0
        for k in range(1, len(rows)):
            if not rows[k]:
                continue
            scans += 1
            stack.append(rows[k][2].strip() if len(rows[k]) > 2 else None)
            envs.append(env_lit(rows, k, list(stack), "p1", list(late) if second else None, scans=scans))
            late.append(rows[k][1].strip() if len(rows[k]) > 1 else None)
        printed = o.get("printed") if not o["exc"] else []
        lits.append(f"mkC16 {ulit(o['template'])} {listlit(chunks, chunk_lit)} [{'; '.join(envs)}] {listlit(printed or [], ulit)}")
    bad = coq_bad(ctx, "c16", "Csv.CsvModel Data.DataModel Match.Print Match.PrintProofs Harness.C16Cmp", "c16case", lits, ["c16_spec", "c16_agree false", "c16_agree true"], chunk=120)
    nj = len(jobs)

    def case(i):
        j = (jobs + tjobs)[i]
        return {"template": res[i]["template"], "csvpath": res[i].get("text"), "chunks": j[0], "rows": j[1], "impl": {"exception": res[i]["exc"], "printed": res[i].get("printed")}}
    spec_bad = sorted(bad["c16_spec"])
    main_bad = [i for i in spec_bad if i < nj]
    # D9b is what the model of the scanner itself does on touching references (theorem C16_touching_refuted): a touching template whose
    # printed text is NOT what that model yields is some other failure, reported with the rest
    touch_bad = [i for i in spec_bad if i >= nj and i not in bad["c16_agree false"]]
    touch_other = [i for i in spec_bad if i >= nj and i in bad["c16_agree false"]]
    d9 = [i for i in main_bad if i in bad["c16_agree false"] and i not in bad["c16_agree true"]]
    other = [i for i in main_bad if i not in d9] + touch_other
    if d9:
        if known_open(ctx.pid, SIG_D9):
            ctx.known(f"{SIG_D9}: {case(d9[0])['template']!r} ({len(d9)} templates)")
        else:
            ctx.violation("adjacent", {"what": "the character that ends a reference is lost (or moves) when the next token is another reference: the implementation agrees with the model only with "
                                               "deviation switch pending on (witness C16_adjacent_refuted)", "case": case(d9[0]), "templates": len(d9)})
    if touch_bad:
        if known_open(ctx.pid, SIG_D9B):
            ctx.known(f"{SIG_D9B}: two references with no character between them, e.g. {case(touch_bad[0])['template']!r}: the first reference's sentinel swallows the second's '$' "
                      f"({len(touch_bad)} of {len(tjobs)} touching templates; witness C16_touching_refuted)")
        else:
            ctx.violation("touching", {"what": "a reference immediately followed by another reference: the '$' of the second is consumed as the first one's sentinel and the second reference is printed literally",
                                       "case": case(touch_bad[0]), "templates": len(touch_bad)})
    # once / onmatch
    qjobs = []
    for i in range(60 if quick else 1500):
        rows = gen_rows(rng)
        qual = rng.choice(["", ".once", ".onmatch", ".onmatch.once"])
        filt = rng.choice(["yes()", "eq(line_number(), 2)", "gt(line_number(), 1)", "no()", 'in(#a, "1|22|7")'])
        qjobs.append((qual, filt, rows, f"c16q_{i}.csv", rng.random() < 0.4))
    qres = pmap(ctx, qimpl, qjobs, chunksize=8)
    qlits, qidx = [], []
    for k, ((qual, filt, rows, _, _named), o) in enumerate(zip(qjobs, qres)):
        if o["exc"]:
            continue
        matched = [rows[i][0] in o["matched"] for i in range(1, len(rows))]
        printed_on = [f"L{i}" in o["printed"] for i in range(1, len(rows))]
        qlits.append(f"mkC16Q (mkPq {blit('onmatch' in qual)} {blit('once' in qual)}) {listlit(matched, blit)} {listlit(printed_on, blit)}")
        qidx.append(k)
    qbad = coq_bad(ctx, "c16q", "Match.Print Harness.C16Cmp", "c16q", qlits, ["c16q_agree"], chunk=500) if qlits else {"c16q_agree": set()}
    excs = [i for i, o in enumerate(res[:nj]) if o["exc"]]
    if other or excs or qbad["c16q_agree"] or [o for o in qres if o["exc"]]:
        if other or excs:
            c = case((other or excs)[0])
            what = "a printed entry is not the template with its references replaced by the current values (every other character unchanged)" if other else "printing a generated template raised"
        else:
            k = qidx[sorted(qbad["c16q_agree"])[0]] if qbad["c16q_agree"] else [i for i, o in enumerate(qres) if o["exc"]][0]
            c = {"qualifier": qjobs[k][0], "filter": qjobs[k][1], "rows": qjobs[k][2], "named_printout": qjobs[k][4], "impl": qres[k]}
            what = "print.once / print.onmatch did not print on exactly the lines the qualifiers allow"
        ctx.violation("verbatim", {"what": what, "case": c, "more": [case(i) for i in other[1:3]], "failures": len(other) + len(excs) + len(qbad["c16q_agree"])})
    elif cls_err or cls_bad:
        ctx.violation("correspondence", {"what": "the character classes of the print grammar's terminals (read from LarkPrintParser.GRAMMAR) no longer equal the model's "
                                                 "(Match/Print.v name_char / is_ws / root / quoted classes; Harness/C16Cmp.c16_classes_agree); theorem C16_verbatim is about the model only",
                                         "disagreeing_case": {"grammar_classes": cls_src, "error": cls_err}}, no_input=True)
    elif not d9 and [i for i in bad["c16_agree false"] if i < nj]:
        ctx.violation("correspondence", {"what": "correspondence Match/Print.v vs the print pipeline no longer checks (Harness/C16Cmp.c16_agree); theorem C16_verbatim is about the model only",
                                         "disagreeing_case": case(sorted(i for i in bad["c16_agree false"] if i < nj)[0])}, no_input=True)
    ctx.coverage.update({
        "evaluations": len(jobs) + len(tjobs) + len(qjobs), "grammar_classes_from_source": cls_src, "grammar_class_code_points": len(c16_grammar.CODES),
        "distinct_nontrivial": len({o["template"] for (c, r, f, q, _s), o in zip(jobs, res) if sum(1 for x in c if x[0] == "ref") >= 2}),
        "rule": "templates of 1-5 chunks: text over letters, digits, spaces and 27 punctuation characters (no '$', no '\"'), references of 17 kinds (variables plain/key/index/length/unknown, "
                "headers by name/index/unknown, metadata, csvpath fields) adjacent (one terminator character apart), many characters apart, at start and end; printed by "
                "[ @x = #a @n = count_scans() push(\"st\", #b) @t.k = #c print(\"...\") ] (30%: print(\"...\", push(\"late\", #a)), whose push must not be visible to the text printed on that line) on every line of files with padded/empty/comma cells and ragged rows; + touching-reference templates; "
                "+ print / .once / .onmatch / .onmatch.once with 5 filters, 40% to a named printout. Non-trivial = distinct templates with >= 2 references.",
        "samples": [case(0), case(nj)],
        "templates": len(jobs), "touching_templates": len(tjobs), "qualifier_runs": len(qjobs), "exceptions": len(excs),
        "traces_validated_against_impl": nj - len([i for i in bad["c16_agree false"] if i < nj]) + len(qlits) - len(qbad["c16q_agree"]),
        "correspondence": f"print model == implementation on {nj - len([i for i in bad['c16_agree false'] if i < nj])}/{nj} templates (pending switch on: {nj - len([i for i in bad['c16_agree true'] if i < nj])}); "
                          f"qualifier model == implementation on {len(qlits) - len(qbad['c16q_agree'])}/{len(qlits)} runs",
        "spec_failures": len(main_bad),
    })


def replay(ctx, payload):
    c = payload.get("case") or payload.get("disagreeing_case")
    if "chunks" in c:
        o = impl(([tuple(x) if x[0] == "text" else ("ref", tuple(x[1])) for x in c["chunks"]], c["rows"], "replay_c16.csv", "", 'push("late"' in (c.get("csvpath") or "")))
        print(repr(c["template"])); print("impl now:", o)
    else:
        print(c)
    return 0
