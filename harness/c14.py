"""C14 — assignment qualifiers decide the vote and the write per the documented table.

Deciding method: Coq theorem C14_table (Props/C14.v): the model of Equality's assignment
decision equals the documented table for all 256 qualifier subsets and ALL values.  Tie to /repo:
(a) the real Equality._do_assignment_new_impl is called directly (its line_matches test
parameter) on every subset x value pair x lm and compared with the model and with the table by
the Coq kernel; (b) the property's own bounded quantifier is enumerated on the real interpreter:
csvpaths  [ @x.<quals> = #a  <rest> ]  over 3-line files, x observed after every line."""
import itertools
import os

import gen
from common import Quiet, blit, coq_bad, listlit, pmap, ulit

Q = ["onmatch", "latch", "onchange", "increase", "decrease", "notnone", "asbool", "nocontrib"]
KVALS = [None, 0, 1, 2, 3, "", "1", "2", "3", "10", "true", "False", "nan", "x"]
RVALS = [None, "1", "2", "3"]
RVALS_B = [None, "1", "2", "3", "true", "false"]


def av(v):
    if v is None:
        return "ANone"
    if isinstance(v, bool):
        raise TypeError
    if isinstance(v, int):
        return f"(AInt {v})" if v >= 0 else f"(AInt ({v}))"
    return f"(AStr {ulit(v)})"


def qlit(qs):
    return "(mkQ " + " ".join(blit(q in qs) for q in Q) + ")"


# ---------------------------------------------------------------- (a) the kernel, called directly
def kernel_batch(cases):
    from csvpath import CsvPath
    with open("k14.csv", "w") as fh:
        fh.write("a\n1\n")
    out = []
    with Quiet():
        c = CsvPath()
        c.parse("$k14.csv[*][@x = 1]")
        m = c.parse("$k14.csv[*][@x = 1]", disposably=True)
        eq = m.expressions[0][0].children[0]
        for qs, lm, cur, y in cases:
            c.variables.clear()
            if cur is not None:
                c.variables["x"] = cur
            args = {q: (q in qs) for q in Q}
            args.update(dict(noqualifiers=None, count=False, new_value=y, name="x", tracking=None, current_value=cur, line_matches=lm))
            marker = object()
            c.variables["__probe"] = marker
            before = c.variables.get("x", None) if "x" in c.variables else marker
            had = "x" in c.variables
            try:
                # detect the write through set_variable itself
                wrote = []
                orig = m.set_variable
                m.set_variable = lambda name, value=None, tracking=None, _w=wrote: (_w.append(value), orig(name, value=value, tracking=tracking))[1]
                ret = eq._do_assignment_new_impl(name="x", tracking=None, args=args)
                m.set_variable = orig
                out.append((False, len(wrote) > 0, bool(ret)))
            except TypeError:
                m.set_variable = orig
                out.append((True, False, False))
    return out


# ---------------------------------------------------------------- (b) real csvpaths
def run_impl(job):
    qs, vals, rest, fname = job[:4]
    tracked = len(job) > 4 and job[4]        # the tracking-key form: @x.k.<qualifiers> = #a writes variables["x"]["k"]
    from csvpath import CsvPath
    rows = [["id", "a"]] + [[f"r{i}"] + ([] if v is None else [v]) for i, v in enumerate(vals)]
    gen.write_rows(fname, rows)
    out = {"exc": None, "obs": []}
    try:
        quals = "".join("." + q for q in Q if q in qs)
        text = f"${fname}[1*][ @x{'.k' if tracked else ''}{quals} = #a {'yes()' if rest else 'no()'} ]"
        out["text"] = text
        with Quiet():
            p = CsvPath()
            p.config.csvpath_errors_policy = ["raise"]
            p.parse(text)
            orig = p.matches
            obs = []

            def wrapped(line):
                r = orig(line)
                xv = p.variables.get("x")
                if tracked:
                    xv = (xv.get("k") if isinstance(xv, dict) else ("NOT-A-DICT:" + repr(xv))) if xv is not None else None
                obs.append((bool(r), xv))
                return r
            p.matches = wrapped
            lines = p.collect()
        ret_ids = {l[0] for l in lines}
        # the loop returns exactly the lines the matcher voted for ([1*], default mode)
        out["obs"] = [(f"r{i}" in ret_ids, x) for i, (r, x) in enumerate(obs)]
        if [r for r, _ in obs] != [f"r{i}" in ret_ids for i in range(len(obs))] or len(obs) != len(vals):
            out["exc"] = "harness: matcher votes and returned lines differ"
    except Exception as ex:  # noqa
        out["exc"] = type(ex).__name__ + ": " + str(ex)[:80]
    finally:
        try:
            os.remove(fname)
        except OSError:
            pass
    return out


def subsets():
    for r in range(len(Q) + 1):
        for c in itertools.combinations(Q, r):
            yield frozenset(c)


def run(ctx):
    rng = ctx.rng
    quick = ctx.tier == "quick"
    # (a) kernel: all 256 subsets x lm x value pairs (quick: a third of the pairs per subset, all subsets)
    pairs = [(c, y) for c in KVALS for y in KVALS]
    kcases = []
    for qs in subsets():
        for lm in (True, False):
            ps = pairs if not quick else rng.sample(pairs, 40)
            kcases += [(qs, lm, c, y) for c, y in ps]
    batches = [kcases[i:i + 800] for i in range(0, len(kcases), 800)]
    kres = [r for b in pmap(ctx, kernel_batch, batches, chunksize=1) for r in b]
    klits = [f"mkC14K {qlit(qs)} {blit(lm)} {av(c)} {av(y)} {blit(r[0])} {blit(r[1])} {blit(r[2])}" for (qs, lm, c, y), r in zip(kcases, kres)]
    kbad = coq_bad(ctx, "c14k", "Match.Assign Harness.C14Cmp", "c14k", klits, ["c14k_agree", "c14k_spec"], chunk=2500)
    # (b) runs
    rjobs = []
    allq = list(subsets())
    if quick:
        seqs4 = list(itertools.product(RVALS, repeat=3))
        for qs in allq:
            for rest in (True, False):
                for vals in rng.sample(seqs4, 6):
                    rjobs.append((qs, vals, rest))
                if not ({"increase", "decrease"} & qs):
                    rjobs.append((qs, tuple(rng.choice(RVALS_B) for _ in range(3)), rest))
    else:
        for qs in allq:
            seqs = itertools.product(RVALS if ({"increase", "decrease"} & qs) else RVALS_B, repeat=3)
            for vals in seqs:
                for rest in (True, False):
                    rjobs.append((qs, vals, rest))
    # a fifth of the runs (quick: a third) use the tracking-key form @x.k.<qualifiers> = #a: same votes, the value lives under the key
    rjobs = [(qs, vals, rest, f"c14_{i}.csv", rng.random() < (0.33 if quick else 0.2)) for i, (qs, vals, rest) in enumerate(rjobs)]
    rres = pmap(ctx, run_impl, rjobs, chunksize=32)
    rlits = []
    for (qs, vals, rest, _, _t), o in zip(rjobs, rres):
        rows = listlit(vals, lambda v: f"(mkArow {av(v)} {blit(rest)})")
        obs = listlit(o["obs"], lambda t: f"({blit(t[0])}, {av(t[1])})") if not o["exc"] else "[]"
        rlits.append(f"mkC14R {qlit(qs)} {rows} {blit(bool(o['exc']))} {obs}")
    rbad = coq_bad(ctx, "c14r", "Match.Assign Harness.C14Cmp", "c14r", rlits, ["c14r_agree", "c14r_spec"], chunk=2500)

    def kcase(i):
        qs, lm, c, y = kcases[i]
        return {"level": "kernel", "qualifiers": sorted(qs), "rest_of_line_matches": lm, "current": c, "new": y,
                "impl": {"raised": kres[i][0], "wrote": kres[i][1], "vote": kres[i][2]}}

    def rcase(i):
        qs, vals, rest, _, _t = rjobs[i]
        return {"level": "run", "csvpath": rres[i].get("text"), "qualifiers": sorted(qs), "values_of_a": list(vals), "rest": rest, "tracking_key_form": _t,
                "impl": {"exception": rres[i]["exc"], "per_line_returned_and_x": rres[i]["obs"]}}
    spec_fail = [("k", i) for i in sorted(kbad["c14k_spec"])] + [("r", i) for i in sorted(rbad["c14r_spec"])]
    exc_runs = [i for i, o in enumerate(rres) if o["exc"]]
    agree_fail = [("k", i) for i in sorted(kbad["c14k_agree"])] + [("r", i) for i in sorted(rbad["c14r_agree"])]
    get = lambda t: kcase(t[1]) if t[0] == "k" else rcase(t[1])
    if spec_fail:
        ctx.violation("table", {"what": "write/vote of an assignment differs from the documented qualifier table", "case": get(spec_fail[0]),
                                "more": [get(t) for t in spec_fail[1:5]], "failures": len(spec_fail)})
    elif exc_runs:
        ctx.violation("raised", {"what": "a csvpath of the property's quantifier raised", "case": rcase(exc_runs[0]), "failures": len(exc_runs)})
    elif agree_fail:
        ctx.violation("correspondence", {"what": "correspondence Match/Assign.v vs Equality._do_assignment_new_impl / real runs no longer checks (Harness/C14Cmp); theorem C14_table is about the model only",
                                         "disagreeing_case": get(agree_fail[0])}, no_input=True)
    # the translator tie: Equality's assignment decision as written in the source of the tree under test, regenerated and (when the text
    # differs from the checked-in Match/AsgSrc.v) re-proved equal to the model
    import srctie
    tie = srctie.check(ctx, "assign")
    if tie["status"] in ("untranslatable", "unproved") and not ctx.violations:
        ctx.violation("source-tie", {"what": "the translation of Equality._do_assignment_new_impl / _latch_and_onchange / _set_variable_if from csvpath/matching/productions/equality.py is no longer "
                                             "proved equal to the model: theorem do_assignment_src_eq (C14_source, C14_source_table) does not check against the source of this tree; "
                                             "the generated cases of this run found no input on which the property fails",
                                     "theorem": "do_assignment_src_eq (C14_source, C14_source_table)", "tie": tie}, no_input=True)
    ctx.coverage.update({
        "evaluations": len(kcases) + len(rjobs),
        "distinct_nontrivial": len({(qs, vals, rest) for (qs, vals, rest, _, _t), o in zip(rjobs, rres) if not o["exc"] and len({x for _, x in o["obs"]}) > 1}),
        "rule": "kernel: all 256 qualifier subsets x {rest matches, not} x pairs (current, new) from 14 values (None, ints incl. 0, strings incl. '', 'true', 'False', 'nan') "
                "(quick: 40 random pairs per subset x lm; thorough: all 196); runs: csvpaths [ @x.<quals> = #a  yes()|no() ] over 3-line files, #a from {absent,1,2,3} (+true/false "
                "without increase/decrease) (quick: 6-7 sequences per subset x rest; thorough: all sequences), x read after every line. Non-trivial = distinct run where x takes >= 2 values.",
        "samples": [kcase(0), rcase(len(rjobs) // 2)],
        "exhaustive": not quick,
        "kernel_cases": len(kcases), "run_cases": len(rjobs), "subsets": 256,
        "kernel_raised_TypeError": sum(1 for r in kres if r[0]), "runs_raised": len(exc_runs),
        "traces_validated_against_impl": len(kcases) + len(rjobs) - len(agree_fail),
        "correspondence": f"model == implementation on {len(kcases) - len(kbad['c14k_agree'])}/{len(kcases)} kernel calls and {len(rjobs) - len(rbad['c14r_agree'])}/{len(rjobs)} runs",
        "spec_failures": len(spec_fail),
    })
    ctx.coverage["source_tie"] = {"status": tie["status"], "detail": tie["detail"][:400]}


def replay(ctx, payload):
    c = payload.get("case") or payload.get("disagreeing_case")
    if c["level"] == "kernel":
        r = kernel_batch([(frozenset(c["qualifiers"]), c["rest_of_line_matches"], c["current"], c["new"])])[0]
        print(c); print("impl now: raised=%s wrote=%s vote=%s" % r)
    else:
        o = run_impl((frozenset(c["qualifiers"]), tuple(c["values_of_a"]), c["rest"], "replay_c14.csv", bool(c.get("tracking_key_form"))))
        print(c["csvpath"]); print("recorded:", c["impl"]); print("impl now:", o)
    return 0
