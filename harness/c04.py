"""C04 — the validity verdict is False exactly when the csvpath failed the file.

Deciding method: Coq theorems Props/C04.v: transport lemmas for every matcher / every component
evaluator; on the control+validity fragment (Match/Ctl.v) the verdict after any run is False
exactly when a fail()/fail_and_stop() executed (C04_exact) and never returns to True
(C04_monotone); errors fail the run iff 'fail' (C04_error_fail, with C05); aggregation
(C04_aggregate_partial).  Tie to /repo: fragment csvpaths with conditional fail()/fail_and_stop()
in every syntactic position are run by the real CsvPath and compared with the executable model by
the Coq kernel (lines, stacks incl. valid()/failed() probes, counters, is_valid); named-paths
groups are run by the real CsvPaths with all six methods and ResultsManager.is_valid, the run
manifest's all_valid and the member manifests' valid are compared with the aggregate model."""
import json
import os

import c05
import c13
import groups
from common import blit, coq_bad, known_open, listlit, pmap

SIG_D12 = "unstarted-member-aggregate"


def fail_controls(fire):
    yield ("when", ("eq", fire), False, ("fail",))
    yield ("when", ("eq", fire), True, ("fail",))
    yield ("when", ("gt", fire), True, ("fail",))
    yield ("when", ("eq", fire), True, ("failstop",))
    yield ("when", ("eq", fire), False, ("failstop",))
    yield ("act", ("fail",))
    yield ("when", ("no",), False, ("fail",))
    yield ("when", ("no",), True, ("failstop",))
    yield ("when", ("last",), True, ("fail",))
    yield ("arg", ("eq", fire), ("failstop",))
    yield ("arg", ("gt", fire), ("failstop",))
    yield ("arg", ("no",), ("failstop",))
    yield ("and", ("eq", fire), ("failstop",))
    yield ("ornot", ("eq", fire), ("fail",))
    yield ("and", ("gt", fire), ("fail",))


def programs(rng):
    out = []
    for npush in (1, 2, 3):
        for pos in range(npush + 1):
            for fire in range(0, 6):
                for ctl in fail_controls(fire):
                    comps = [("act", ("push", i + 1)) for i in range(npush)]
                    comps.insert(pos, ctl)
                    out.append(comps)
    rng.shuffle(out)
    res = []
    for comps in out:
        comps = list(comps)
        r = rng.random()
        # a valid()/failed() probe somewhere: pushes the line number when the verdict (as of that position) is valid / failed
        if r < 0.7:
            comps.insert(rng.randrange(len(comps) + 1), ("when", (rng.choice(["valid", "failed"]),), True, ("push", 7)))
        r = rng.random()
        # something that keeps a later fail() from executing: skip()/stop() before it
        if r < 0.25:
            comps.insert(rng.randrange(len(comps)), ("when", ("eq", rng.randrange(0, 5)), True, (rng.choice(["skip", "stop"]),)))
        elif r < 0.35:
            comps.insert(rng.randrange(len(comps) + 1), ("cond", rng.choice([("failed",), ("valid",), ("gt", 1)])))
        res.append(comps)
    return res


# ---------------------------------------------------------------- aggregate
def agg_inspect(paths, run, o):
    """read the manifests the run left"""
    out = {"manifest_all_valid": None, "member_valid": []}
    try:
        ms = o.get("members") or []
        if ms:
            rd = ms[0]["run_dir"]
            with open(os.path.join(rd, "manifest.json")) as fh:
                out["manifest_all_valid"] = json.load(fh).get("all_valid")
            for m in ms:
                with open(os.path.join(rd, m["identity"], "manifest.json")) as fh:
                    out["member_valid"].append(json.load(fh).get("valid"))
    except Exception as ex:  # noqa
        out["exc"] = type(ex).__name__ + ": " + str(ex)[:100]
    return out


def gen_group(rng, i):
    n = rng.choice([1, 2, 2, 3, 4])
    members = []
    for k in range(n):
        r = rng.random()
        if r < 0.35:
            body = f'[ eq(line_number(), {rng.randrange(0, 5)}) -> fail() ]'
        elif r < 0.45:
            body = f'[ eq(line_number(), {rng.randrange(0, 4)}) -> fail_and_stop() ]'
        elif r < 0.55:
            body = '[ no() -> fail() ]'
        elif r < 0.65:
            body = f'[ push("s", line_number()) eq(line_number(), {rng.randrange(0, 4)}) -> stop() fail() ]'
        else:
            body = '[ push("s", line_number()) ]'
        mode = ""
        r = rng.random()
        if r < 0.12:
            mode = " run-mode: no-run"
        members.append(f"~id: m{k}{mode}~ $[{rng.choice(['*', '*', '1*', '0-2'])}]{body}")
    nrec = rng.choice([0, 1, 3, 5]) if rng.random() < 0.3 else rng.randrange(2, 7)
    rows = ([["id", "a"]] + [[f"r{j}", str(j)] for j in range(1, nrec)])[:nrec]
    return {"id": i, "files": {"f": rows}, "groups": {"g": members},
            "runs": [{"method": rng.choice(groups.METHODS), "pathsname": "g", "filename": "f", "new_instance": True}], "inspect": agg_inspect}


def run(ctx):
    rng = ctx.rng
    quick = ctx.tier == "quick"
    # ---------------- A. the fragment
    progs = programs(rng)
    if quick:
        progs = progs[:1200]
    jobs = []
    for i, comps in enumerate(progs):
        for r in range(1 if quick else 5):
            jobs.append((comps, rng.choice(c13.SCANS), c13.gen_blanks(rng), rng.random() < 0.15, f"c04_{i}_{r}.csv"))
    res = pmap(ctx, c13.impl, jobs, chunksize=16)
    lits = [f"mkC04 ({c13.case_lit(j, o)}) {blit(bool(o.get('valid', True)))}" for j, o in zip(jobs, res)]
    bad = coq_bad(ctx, "c04", "Scan.ScanModel Run.RunLoop Match.Adjudicate Match.Ctl Harness.C13Cmp Harness.C04Cmp", "c04case", lits, ["c04_agree", "c04_spec"], chunk=300)
    spec_bad, agree_bad = sorted(bad["c04_spec"]), sorted(bad["c04_agree"])

    def fcase(i):
        d = c13.describe(jobs[i], res[i])
        d["impl"]["is_valid"] = res[i].get("valid")
        return d
    # ---------------- B. errors under policies with / without 'fail' (the property's statement)
    ejobs = []
    for kind in ("pyexc", "argtype", "nested", "skipafter", "whenfail"):
        for pol in c05.subsets():
            if "quiet" in pol or "raise" in pol:
                continue
            vm = dict.fromkeys(["raise", "print", "stop", "fail"])
            if rng.random() < 0.3:
                vm["fail"] = rng.choice([True, False])
            ejobs.append((kind, pol, vm, rng.choice([{1}, {3}, {2, 4}]), f"c04e_{len(ejobs)}.csv"))
    if quick:
        rng.shuffle(ejobs)
        ejobs = ejobs[:200]
    eres = pmap(ctx, c05.run_impl, ejobs, chunksize=16)
    efail = [(j, o) for j, o in zip(ejobs, eres) if o.get("valid") is not (not c05.eff(j[2], j[1], "fail"))]
    # ---------------- C. aggregation
    gjobs = [gen_group(rng, i) for i in range(150 if quick else 2500)]
    # the witness of the open finding unstarted-member-aggregate, in every run
    gjobs.append({"id": len(gjobs), "files": {"f": [["id", "a"], ["r1", "1"], ["r2", "2"]]},
                  "groups": {"g": ['~id: m0~ $[*][ push("s", line_number()) ]', '~id: m1 run-mode: no-run~ $[*][ push("s", line_number()) ]']},
                  "runs": [{"method": "collect_paths", "pathsname": "g", "filename": "f", "new_instance": True}], "inspect": agg_inspect})
    # fail_all() executed by a member of a group (serial run, the member comes last so that no other member is touched):
    # it fails the member that executes it, hence the group
    fa_jobs = []
    for k in range(12 if quick else 150):
        n = rng.choice([1, 2, 3])
        nrec = rng.randrange(3, 7)
        line = rng.randrange(0, nrec)
        ms = [f'~id: m{j}~ $[*][ push("s", line_number()) ]' for j in range(n - 1)] + [f'~id: m{n - 1}~ $[*][ push("s", line_number()) eq(line_number(), {line}) -> fail_all() ]']
        fa_jobs.append({"id": 100000 + k, "files": {"f": [["id", "a"]] + [[f"r{j}", str(j)] for j in range(1, nrec)]}, "groups": {"g": ms},
                        "runs": [{"method": rng.choice(["collect_paths", "fast_forward_paths", "next_paths"]), "pathsname": "g", "filename": "f", "new_instance": True}],
                        "inspect": agg_inspect})
    fa_res = pmap(ctx, groups.run_history, fa_jobs, chunksize=2)
    fa_fail = []
    for j, r in zip(fa_jobs, fa_res):
        o = (r.get("runs") or [None])[0]
        if r["setup_exc"] or not o or o["exc"] or not o["members"]:
            fa_fail.append({"group": j["groups"]["g"], "rows": j["files"]["f"], "problem": "the run raised", "impl": {"setup": r["setup_exc"], "exc": o and o["exc"]}})
            continue
        last = o["members"][-1]
        others = o["members"][:-1]
        if last["is_valid"] or o["rm_is_valid"] or o["inspect"].get("manifest_all_valid") or any(not m["is_valid"] for m in others):
            fa_fail.append({"group": j["groups"]["g"], "rows": j["files"]["f"], "method": o["method"],
                            "problem": "fail_all() executed by the last member: that member must be invalid, the earlier ones valid, the group invalid",
                            "members_valid": [m["is_valid"] for m in o["members"]], "results_manager_is_valid": o["rm_is_valid"], "manifest_all_valid": o["inspect"].get("manifest_all_valid")})
    # fail() executed by one member of a group on a line that is not the last (serial and breadth-first runs): the verdict is sticky —
    # that member is invalid when the run ends, failed() answers yes from that line on, the others are valid, the group is invalid
    fb_jobs = []
    for k in range(18 if quick else 200):
        n = rng.choice([1, 2, 3])
        w = rng.randrange(n)
        nrec = rng.randrange(3, 8)
        line = rng.randrange(0, nrec - 1)
        ms = [(f'~id: m{j}~ $[*][ eq(line_number(), {line}) -> fail() push("fs", failed()) ]' if j == w else f'~id: m{j}~ $[*][ push("fs", failed()) ]') for j in range(n)]
        fb_jobs.append({"id": 200000 + k, "w": w, "line": line, "nrec": nrec, "files": {"f": [["id", "a"]] + [[f"r{j}", str(j)] for j in range(1, nrec)]}, "groups": {"g": ms},
                        "runs": [{"method": groups.METHODS[k % len(groups.METHODS)], "pathsname": "g", "filename": "f", "new_instance": True}], "inspect": agg_inspect})
    fb_res = pmap(ctx, groups.run_history, fb_jobs, chunksize=2)
    for j, r in zip(fb_jobs, fb_res):
        o = (r.get("runs") or [None])[0]
        if r["setup_exc"] or not o or o["exc"] or not o["members"]:
            fa_fail.append({"group": j["groups"]["g"], "rows": j["files"]["f"], "problem": "the run raised", "impl": {"setup": r["setup_exc"], "exc": o and o["exc"]}})
            continue
        want_valid = [k2 != j["w"] for k2 in range(len(o["members"]))]
        want_fs = [([False] * j["line"] + [True] * (j["nrec"] - j["line"])) if k2 == j["w"] else [False] * j["nrec"] for k2 in range(len(o["members"]))]
        got_fs = [json.loads(m["vars"]).get("fs") for m in o["members"]]
        if [m["is_valid"] for m in o["members"]] != want_valid or [m["result_is_valid"] for m in o["members"]] != want_valid or o["rm_is_valid"] \
                or o["inspect"].get("manifest_all_valid") or got_fs != want_fs:
            fa_fail.append({"group": j["groups"]["g"], "rows": j["files"]["f"], "method": o["method"],
                            "problem": f"fail() executed by member {j['w']} on line {j['line']} of {j['nrec']}: that member must end invalid (failed() yes from that line on), the others valid, the group invalid",
                            "members_valid": [m["is_valid"] for m in o["members"]], "results_valid": [m["result_is_valid"] for m in o["members"]], "failed_per_line": got_fs,
                            "results_manager_is_valid": o["rm_is_valid"], "manifest_all_valid": o["inspect"].get("manifest_all_valid")})
    gres = pmap(ctx, groups.run_history, gjobs, chunksize=4)
    alits, aidx = [], []
    for gi, (j, r) in enumerate(zip(gjobs, gres)):
        if r["setup_exc"] or not r["runs"] or r["runs"][0]["exc"] or not r["runs"][0]["members"]:
            continue
        o = r["runs"][0]
        ins = o["inspect"]
        if ins.get("exc") or ins["manifest_all_valid"] is None:
            continue
        ms = listlit(o["members"], lambda m: f"(mkMember {blit(m['started'])} {blit(m['is_valid'])})")
        alits.append(f"mkC04A {ms} {blit(o['rm_is_valid'])} {blit(bool(ins['manifest_all_valid']))} {listlit([bool(v) for v in ins['member_valid']], blit)}")
        aidx.append(gi)
    abad = coq_bad(ctx, "c04a", "Mgr.Aggregate Harness.C04Cmp", "c04agg", alits, ["c04a_agree", "c04a_spec"], chunk=500)

    def gcase(k):
        gi = aidx[k]
        o = gres[gi]["runs"][0]
        return {"level": "aggregate", "group": gjobs[gi]["groups"]["g"], "rows": gjobs[gi]["files"]["f"], "method": o["method"],
                "members": [{k2: m[k2] for k2 in ("identity", "is_valid", "result_is_valid", "started")} for m in o["members"]],
                "results_manager_is_valid": o["rm_is_valid"], "manifest": o["inspect"]}
    # D12 is about a member that READ NO RECORD (its run never started): an "unstarted" member whose line monitor has counted lines is not that
    never_read = lambda m: not m["started"] and (m.get("pln") is None or m["pln"] < 0)
    d12 = [k for k in abad["c04a_spec"] if k not in abad["c04a_agree"] and
           any(never_read(m) for m in gres[aidx[k]]["runs"][0]["members"]) and
           all(m["started"] or never_read(m) for m in gres[aidx[k]]["runs"][0]["members"])]
    a_other = [k for k in sorted(abad["c04a_spec"]) if k not in d12]
    broken_groups = [gi for gi, r in enumerate(gres) if r["setup_exc"] or (r["runs"] and r["runs"][0]["exc"])]

    if spec_bad:
        ctx.violation("verdict", {"what": "is_valid differs from 'False exactly when a fail()/fail_and_stop() executed' (model's fail events for this program and file)",
                                  "case": fcase(spec_bad[0]), "more": [fcase(i) for i in spec_bad[1:4]]})
    if fa_fail:
        ctx.violation("fail-all", {"what": "a fail_all() that executes does not fail the member that executes it (and with it the group)", "case": fa_fail[0], "failures": len(fa_fail)})
    if efail:
        j, o = efail[0]
        ctx.violation("error-fail", {"what": "an error turns the verdict False iff the policy / validation-mode says 'fail'",
                                     "case": {"level": "run", "csvpath": o.get("text"), "error_kind": j[0], "policy": list(j[1]), "validation_mode": c05.vm_text(j[2]),
                                              "offending_lines": sorted(j[3]), "impl": o}})
    if d12:
        c = gcase(d12[0])
        if known_open(ctx.pid, SIG_D12):
            ctx.known(f"{SIG_D12}: a member that read no record (run-mode: no-run / empty file) makes ResultsManager.is_valid False while the run manifest's all_valid "
                      f"and every member verdict are True ({len(d12)} groups this run; witness C04_aggregate_unstarted_refuted)")
        else:
            ctx.violation("aggregate-unstarted", {"what": "ResultsManager.is_valid and the run manifest's all_valid disagree for a group with a member that read no record", "case": c})
    if a_other:
        ctx.violation("aggregate", {"what": "ResultsManager.is_valid / manifest all_valid / member manifests' valid are not the conjunction of the members' verdicts", "case": gcase(a_other[0])})
    if not (spec_bad or efail or a_other) and (agree_bad or [k for k in abad["c04a_agree"]]):
        case = fcase(agree_bad[0]) if agree_bad else gcase(sorted(abad["c04a_agree"])[0])
        ctx.violation("correspondence", {"what": "correspondence Match/Ctl.v / Mgr/Aggregate.v vs the implementation no longer checks (Harness/C04Cmp); theorems C04_* are about the model only",
                                         "disagreeing_case": case}, no_input=True)
    # the translator tie: ErrorCommsManager.do_i_* / ErrorHandler._handle_if as written in the source of the tree under test, regenerated and
    # (when the text differs from the checked-in Match/ErrSrc.v) re-proved equal to the model
    import srctie
    tie = srctie.check(ctx, "errors")
    if tie["status"] in ("untranslatable", "unproved") and not ctx.violations:
        ctx.violation("source-tie", {"what": "the translation of ErrorCommsManager.do_i_* / ErrorHandler._handle_if from csvpath/util/error.py is no longer proved equal to the model: theorem handle_if_src_eq (C04_error_fail_source) "
                                             "does not check against the source of this tree; the generated cases of this run found no input on which the property fails",
                                     "theorem": "handle_if_src_eq (C04_error_fail_source)", "tie": tie}, no_input=True)
    # ... and for the aggregate verdicts: Result.is_valid, ResultsManager.is_valid, ResultsRegistrar.all_valid
    atie = srctie.check(ctx, "aggregate")
    if atie["status"] in ("untranslatable", "unproved") and not ctx.violations:
        ctx.violation("source-tie", {"what": "the translation of Result.is_valid / ResultsManager.is_valid / ResultsRegistrar.all_valid from csvpath/managers/results is no longer proved equal "
                                             "to the model: theorem rm_is_valid_src_eq / all_valid_src_eq (C04_aggregate_source) does not check against the source of this tree; "
                                             "the generated cases of this run found no input on which the property fails",
                                     "theorem": "rm_is_valid_src_eq / all_valid_src_eq (C04_aggregate_source)", "tie": atie}, no_input=True)
    ctx.coverage.update({
        "fail_all_groups": len(fa_jobs), "sticky_fail_groups": len(fb_jobs), "evaluations": len(jobs) + len(ejobs) + len(gjobs) + len(fa_jobs) + len(fb_jobs),
        "distinct_nontrivial": len({repr(j[:4]) for j, o in zip(jobs, res) if not o["exc"] and o.get("valid") is False}) + sum(1 for k, gi in enumerate(aidx) if not gres[gi]["runs"][0]["rm_is_valid"]),
        "rule": "A: fail()/fail_and_stop() in 9 conditional/unconditional forms at every position among 1-3 pushing components, firing line 0..5, 70% with a valid()/failed() probe, 25% with a "
                "skip()/stop() that may pre-empt the fail, random scan window / file with blanks / return mode; B: errors of 3 kinds under every policy without raise/quiet, with and without "
                "'fail' (policy or validation-mode); C: named-paths groups of 1-4 members (fail on a line, fail_and_stop, fail behind no(), stop before fail, run-mode no-run members, files of "
                "0-6 records) run with a random one of the six methods. Non-trivial = distinct fragment runs ending invalid + groups whose aggregate verdict is False.",
        "samples": [fcase(0), gcase(0) if aidx else None],
        "fragment_runs": len(jobs), "error_runs": len(ejobs), "groups": len(gjobs), "groups_judged": len(aidx), "groups_with_unstarted_member": sum(
            1 for gi in aidx if not all(m["started"] for m in gres[gi]["runs"][0]["members"])), "groups_raised": len(broken_groups),
        "traces_validated_against_impl": len(jobs) - len(agree_bad) + len(aidx) - len(abad["c04a_agree"]),
        "correspondence": f"fragment model == implementation on {len(jobs) - len(agree_bad)}/{len(jobs)} runs; aggregate model == implementation on {len(aidx) - len(abad['c04a_agree'])}/{len(aidx)} groups",
    })
    ctx.coverage["source_tie"] = {"status": tie["status"], "detail": tie["detail"][:400]}
    ctx.coverage["source_tie_aggregate"] = {"status": atie["status"], "detail": atie["detail"][:400]}


def replay(ctx, payload):
    c = payload.get("case") or payload.get("disagreeing_case")
    print(json.dumps(c, default=str)[:2000])
    if "components" in c:
        o = c13.impl((c13._t(c["components"]), c["scan"], c["blank_records"], c["return_mode_no_matches"], "replay_c04.csv"))
        print("impl now:", {k: o.get(k) for k in ("exc", "ret", "vars", "valid", "stopped")})
    return 0
