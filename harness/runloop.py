"""Real CsvPath runs with the matcher's per-line answers recorded, and the Coq literal of the
corresponding Harness/RunCmp.runcase.  Shared by C07, C13, C15 (and C01's loop part)."""
import io
import json
import os

from common import Capture, Quiet, blit, listlit, optlit, zlit

HEADER = """From Coq Require Import ZArith List Bool.
From V Require Import Scan.ScanModel Run.RunLoop Harness.Cmp Harness.RunCmp.
Import ListNotations.
Open Scope Z_scope.
"""


def idx_of(line):
    if not line:
        return -1
    c = line[0]
    if c == "id":
        return 0
    try:
        return int(c[1:])
    except Exception:
        return -2


def canon_vars(v):
    return json.dumps(v, sort_keys=True, default=str)


def real_run(job):
    """job = dict(text, rows, fname, method, k, policy)  ->  observation dict"""
    from csvpath import CsvPath
    from csvpath.util.printer import TestPrinter
    import gen
    fname = job["fname"]
    gen.write_rows(fname, job["rows"])
    obs = {"exc": None}
    calls = []
    cap = Capture(fname + ".out") if job.get("capture") else Quiet()
    try:
        with cap:
            p = CsvPath()
            tp = TestPrinter()
            p.add_printer(tp)
            lp = None
            if job.get("log_printer"):      # a printer the caller attached that is a subclass of StdOutPrinter
                from csvpath.util.printer import LogPrinter
                lp = LogPrinter(p.logger)
                p.add_printer(lp)
            if job.get("policy") is not None:
                p.config.csvpath_errors_policy = list(job["policy"])
            p.parse(job["text"])
            orig = p.matches

            def wrapped(line):
                r = orig(line)
                calls.append((p.line_monitor.physical_line_number, bool(r), bool(p.stopped), int(p.advance_count), int(p.match_count)))
                return r
            p.matches = wrapped
            nread = [0]
            orig_nl = p._next_line

            def counting():     # the records the run reads, counted where next() takes them from the reader
                for rec in orig_nl():
                    nread[0] += 1
                    yield rec
            p._next_line = counting
            m = job["method"]
            lines = None
            try:
                if m == 0:
                    lines = p.collect()
                elif m == 1:
                    lines = [l[:] for l in p.next()]
                elif m == 6:      # list(path.next()): the caller keeps the yielded lines and reads them after the run has ended
                    kept = list(p.next())
                    lines = [l[:] for l in kept]
                elif m == 7:      # collect(lines=<the caller's own list>): what CsvPaths.collect_paths does with result.lines
                    sink = []
                    lines = list(p.collect(lines=sink))
                elif m == 2:
                    p.fast_forward()
                elif m == 3:
                    lines = p.collect(nexts=job["k"])
                elif m == 5:      # collect(nexts=k, lines=sink) into a list that already holds two rows: k more lines are appended
                    sink = [["pre", "0"], ["pre", "1"]]
                    got = p.collect(nexts=job["k"], lines=sink)
                    lines = list(got)[2:] if list(got)[:2] == [["pre", "0"], ["pre", "1"]] else [["SINK-LOST"]] + list(got)
                else:  # 4: take k lines from next() and abandon the generator
                    lines = []
                    g = p.next()
                    for l in g:
                        lines.append(l[:])
                        if len(lines) >= job["k"]:
                            break
            except Exception as ex:  # noqa
                obs["exc"] = type(ex).__name__ + ": " + str(ex)[:80]
        sc = p.scanner
        obs.update({
            "lines": lines, "ret": None if lines is None else [idx_of(l) for l in lines],
            "unmatched": [idx_of(l) for l in (p.unmatched or [])],
            "scan_count": int(p.scan_count), "match_count": int(p.match_count), "stopped": bool(p.stopped), "frozen": bool(p.is_frozen),
            "is_valid": bool(p.is_valid), "vars": canon_vars(p.variables),
            "errors": sorted({(e.line_count) for e in (p.errors or [])}),
            "printouts": list(tp.lines), "calls": calls,
            "scanner": {"these": list(sc.these), "from": sc.from_line, "to": sc.to_line, "all": bool(sc.all_lines)},
            "cwnm": bool(p.collect_when_not_matched), "unm_avail": bool(p.unmatched_available),
            "will_run": bool(p.will_run), "stdout": getattr(cap, "text", None), "metadata": {k: v for k, v in (p.metadata or {}).items()},
            "headers": list(p.headers or []), "records_read": nread[0],
            "pln": p.line_monitor.physical_line_number, "dlc": p.line_monitor.data_line_count,
            "printers": [type(x).__name__ for x in (p.printers or [])], "log_printer_lines": None if lp is None else lp.lines_printed,
        })
    except Exception as ex:  # parse errors etc.
        obs["exc"] = "SETUP " + type(ex).__name__ + ": " + str(ex)[:80]
    finally:
        try:
            os.remove(fname)
        except OSError:
            pass
    return obs


def runcase_lit(job, obs):
    s = obs["scanner"]
    if any(t is None for t in s["these"]):
        return None
    sc = f"(mkSc {listlit(s['these'])} {optlit(s['from'])} {optlit(s['to'])} {blit(s['all'])})"
    blanks = [len(r) == 0 for r in job["rows"]]
    tab = listlit(obs["calls"], lambda c: f"(mkM {zlit(c[0])} {blit(c[1])} {blit(c[2])} {zlit(c[3])} {zlit(c[4])})")
    m = 1 if job["method"] == 6 else (0 if job["method"] == 7 else (job["method"] if job["method"] < 4 else 3))
    ret = obs["ret"] if obs["ret"] is not None else []
    unm = obs["unmatched"] if job["method"] in (0, 3, 7) else []
    return (f"mkRun {sc} {listlit(blanks, blit)} {blit(obs['cwnm'])} {blit(obs['unm_avail'])} {blit(obs.get('will_run', True))} {m} {job.get('k', 0)}%nat {tab} "
            f"{listlit(ret)} {listlit(obs['unmatched'])} {zlit(obs['scan_count'])} {zlit(obs['match_count'])} {blit(obs['stopped'])}")


def coq_compare(ctx, name, pairs, chunk=300):
    """pairs: list of (job, obs) without exceptions; returns (bad indices for q=false, for q=true)"""
    from common import chunks, parse_zlist
    bad_f, bad_t, off, skipped = set(), set(), 0, 0
    lits = []
    index = []
    for i, (job, obs) in enumerate(pairs):
        l = runcase_lit(job, obs)
        if l is None:
            skipped += 1
            continue
        lits.append(l); index.append(i)
    for n, part in enumerate(chunks(list(zip(index, lits)), chunk)):
        text = HEADER + "Definition cases : list runcase := [\n " + ";\n ".join(l for _, l in part) + "].\n" + \
            "Eval vm_compute in (bad (run_agree false) cases).\nEval vm_compute in (bad (run_agree true) cases).\n"
        a, b = parse_zlist(ctx.coq_eval(f"{name}{n}", text))
        bad_f |= {part[i][0] for i in a}
        bad_t |= {part[i][0] for i in b}
    return bad_f, bad_t, skipped
