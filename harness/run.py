#!/venv/bin/python
"""Entry point of every check:  run.py <property id> [--tier quick|thorough] [--replay file]"""
import argparse
import importlib
import json
import os
import sys
import traceback

sys.path.insert(0, os.path.dirname(os.path.abspath(__file__)))
import common  # noqa: E402

TRUSTED = [
    "Coq 8.16.1 kernel (coqc); vm_compute used for finite sweeps, witnesses and for evaluating the model on the correspondence cases; no native_compute",
    "axioms: none declared; Print Assumptions of every property theorem is recorded in coverage.print_assumptions",
    "the hand-written Gallina model (coq/*/…Model.v) is tied to /repo only by the correspondence check of this run (coverage.correspondence)",
    "the harness (generators, canonicalisation, Coq literal printer) in /verif/harness; comparisons themselves are computed by Coq (coq/Harness/*Cmp.v)",
    "Python 3.12, csv, json, hashlib, os, PLY, Lark are used as they are (modelled, not verified)",
]


def main():
    ap = argparse.ArgumentParser()
    ap.add_argument("pid")
    ap.add_argument("--tier", default=os.environ.get("VERIF_TIER", "quick"))
    ap.add_argument("--replay")
    a = ap.parse_args()
    seed = int(os.environ.get("VERIF_SEED", "20260927"))
    ctx = common.Ctx(a.pid, a.tier, seed)
    mod = importlib.import_module(a.pid.lower())
    rc = 2
    try:
        ctx.setup_scratch()
        if a.replay:
            rc = mod.replay(ctx, json.load(open(a.replay)))
            return rc
        ctx.clear_replays()
        b = ctx.coq_build(f"Props/{a.pid}.v")
        ctx.coverage.update({
            "obligations": b["obligations"], "discharged": b["discharged"],
            "checker_cmd": f"make -C /verif coq  &&  coqc -Q /verif/coq V /verif/coq/Props/{a.pid}.v   (full .vo build, Coq 8.16.1)",
            "trusted_base": TRUSTED + getattr(mod, "TRUSTED_EXTRA", []),
            "theorems": b["theorems"], "print_assumptions": b["assumptions"],
        })
        if not b["ok"]:
            ctx.notes.append("Coq build failed: " + b["log"][-1500:])
        mod.run(ctx)
        if not b["ok"] and not ctx.violations:
            ctx.violation("proof", {"what": f"the Coq development no longer builds: obligations of Props/{a.pid}.v are not discharged "
                                            f"({b['discharged']}/{b['obligations']})", "log": b["log"][-3000:]}, no_input=True)
        rc = ctx.finish("proof")
    except Exception:
        traceback.print_exc()
        rc = 2
    finally:
        ctx.cleanup()
    return rc


if __name__ == "__main__":
    sys.exit(main())
