"""C17 — what runs is what was written: parsing is unambiguous and layout-insensitive.

Deciding method: Coq theorems (Props/C17.v) over the model of the match-part language
(Match/Syntax.v): the lexer reads back every well-formed token stream rendered with any legal
layout, the recursive-descent parser reads back the tokens of every component tree (any nesting
depth), hence parse (render layout tree) = tree for every layout, and an outer comment without
mode settings leaves the match part untouched (C15_extract).  Tie to /repo: generated component
trees (all component kinds, ~45 function names with valid arity, qualifiers, quoted headers,
signed/decimal numbers, references, nesting depth <= 4) are rendered in several random layouts
(whitespace, newlines, '~...~' comments between components, optional outer comment); for each
layout Lark's tree has no _ambig node and the component tree the real transformer builds
(kinds, names, qualifiers, operators, argument order, literal values) is compared by the Coq
kernel with the model parser's tree and with the tree that was written; the layouts' run results
on a file are compared with each other."""
import os

import gen
from common import Quiet, blit, coq_bad, listlit, pmap, ulit

WS = ["", "", " ", " ", "  ", "\n", "\t", " \n  "]
WS1 = [" ", " ", "  ", "\n", "\t ", " \n "]
H = ["a", "b", "id", "City", "unitPrice"]
QUALS_F = ["", "", "", ".nocontrib", ".onmatch", ".once", ".asbool"]
QUALS_V = ["", "", "", ".onmatch", ".latch", ".onchange", ".notnone", ".k", ".asbool"]


class T:
    """typed enough to be accepted by check_valid; returns tree nodes"""

    def __init__(self, rng):
        self.r = rng

    def num(self):
        r = self.r
        neg = r.random() < 0.25
        ip = str(r.choice([0, 1, 2, 3, 5, 10, 12, 100, 65536, 9007199254740993, 9999999999999999, 123456789012345678901234567890]))
        fp = str(r.choice([5, 25, 75, 1])) if r.random() < 0.25 and len(ip) < 6 else None
        if ip == "0" and fp is None:
            neg = False          # int("-0") is 0: the sign of a zero literal is not observable in the tree
        return ("N", neg, ip, fp)

    def s(self):
        return ("S", self.r.choice(["x", "y", "z z", "a|b", "", "Q-1", "p.q", "it's", "'", "'tis", "'quoted'", "o'", "(1)", "#no", "$5", "~t", "two\n    lines", " \n", "tab\there  x"]))      # a literal may span lines

    def hdr(self):
        r = self.r
        k = r.random()
        if k < 0.15:
            return ("HQ", r.choice(["a b", "last year", "x 1", "unit.price", "a.nocontrib", "v1.2 x"]))
        if k < 0.3:
            return ("H", str(r.choice([0, 1, 2])))
        return ("H", r.choice(H) + r.choice(["", "", "", ".nocontrib", ".asbool"]))

    def var(self):
        return ("V", self.r.choice(["x", "y1", "tot", "my_var", "a-b", "Rows", "byCity"]) + self.r.choice(QUALS_V))

    def val(self, d):
        """something with a value"""
        r = self.r
        k = r.random()
        if d >= 3 or k < 0.5:
            return r.choice([self.num, self.s, self.hdr, self.var, self.hdr])()
        if k < 0.6:
            return ("R", r.choice(["g.variables.z", "other.headers.a", "g.variables.t.k"]))
        f = r.choice(["add", "subtract", "multiply", "int", "length", "lower", "upper", "concat", "count", "count_lines", "count_scans", "line_number", "total_lines", "sum", "max", "min",
                      "substring", "strip", "random", "mod", "divide", "round", "tally", "first", "every", "peek", "pop", "get", "percent"])
        # arbitrary name qualifiers (the variable a function writes) keep the case they are written in
        q = r.choice(["", "", ".onmatch", ".Rows", ".ByCity", ".onmatch.OsloSeen", ".Odd_1.onmatch"]) if f in ("count", "sum", "tally", "first", "every") else ""
        if f in ("count", "count_lines", "count_scans", "line_number", "total_lines"):
            return ("F", f + q, [])
        if f in ("add", "subtract", "multiply", "mod", "divide"):
            return ("F", f, [self.val(d + 1), self.val(d + 1)])
        if f in ("int", "length", "lower", "upper", "strip", "sum", "max", "min", "tally", "first"):
            return ("F", f + q, [self.hdr() if f in ("tally", "first", "sum", "max", "min") else self.val(d + 1)])
        if f == "concat":
            return ("F", f, [self.val(d + 1), self.val(d + 1)] + ([self.s()] if r.random() < 0.3 else []))
        if f == "substring":
            return ("F", f, [self.hdr(), ("N", False, "2", None)])
        if f == "random":
            return ("F", f, [("N", False, "0", None), ("N", False, "9", None)])
        if f == "round":
            return ("F", f, [self.val(d + 1), ("N", False, "1", None)])
        if f == "every":
            return ("F", f + q, [self.hdr(), ("N", False, "2", None)])
        if f in ("peek", "get"):
            return ("F", f, [("S", "k"), ("N", False, "0", None)] if f == "peek" else [("S", "k"), ("S", "j")])
        if f == "pop":
            return ("F", f, [("S", "k")])
        if f == "percent":
            return ("F", f, [("S", r.choice(["match", "scan", "line"]))])
        return ("F", f, [])

    def boolf(self, d):
        r = self.r
        f = r.choice(["yes", "no", "not", "and", "or", "exists", "empty", "in", "gt", "lt", "gte", "lte", "above", "below", "eq", "equals", "between", "starts_with", "last", "firstline",
                      "firstscan", "valid", "failed", "any", "all", "after_blank", "has_dups", "regex", "exact"])
        q = r.choice(QUALS_F)
        if f in ("yes", "no", "last", "firstline", "firstscan", "valid", "failed", "after_blank"):
            return ("F", f + (q if f != "yes" else ""), [])
        if f == "not":
            return ("F", f + q, [self.cond(d + 1)])
        if f in ("and", "or"):
            return ("F", f + q, [self.cond(d + 1), self.cond(d + 1)])
        if f in ("exists", "empty"):
            return ("F", f + q, [self.hdr()])
        if f == "in":
            return ("F", f + q, [self.hdr(), self.s()])
        if f in ("gt", "lt", "gte", "lte", "above", "below", "eq", "equals"):
            return ("F", f + q, [self.val(d + 1), self.val(d + 1)])
        if f == "between":
            return ("F", f + q, [self.val(d + 1), self.num(), self.num()])
        if f == "starts_with":
            return ("F", f + q, [self.hdr(), self.s()])
        if f in ("regex", "exact"):
            # a regex term: /.../ with escaped slashes and backslash escapes inside
            return ("F", f + q, [self.hdr(), ("RX", r.choice(["^a+$", "[a-z]{2}", "a\\/b", "x\\.y", "\\d+ ?", "^(x|y) z$", "\\\\w"]))])
        if f in ("any", "all"):
            return ("F", f + q, [])
        if f == "has_dups":
            return ("F", f + q, [self.hdr()])
        return ("F", f, [])

    def cond(self, d):
        """an argument that is a condition: a boolean function, a header, or an equality"""
        r = self.r
        k = r.random()
        if d >= 3 or k < 0.2:
            return self.hdr()
        if k < 0.4:
            return ("E", r.choice([self.hdr, self.var])(), self.val(d + 1))
        return self.boolf(d)

    def action(self):
        r = self.r
        k = r.random()
        if k < 0.4:
            return ("AA", r.choice(["x", "y1", "tot"]) + r.choice(QUALS_V), self.val(1))
        f = r.choice(["print", "push", "stop", "skip", "fail", "advance", "fail_and_stop", "push_distinct"])
        if f == "print":
            return ("AF", "print" + r.choice(["", ".once", ".onmatch"]), [("S", r.choice(["hi", "line $.csvpath.line_number", "a: $.headers.a!"]))])
        if f in ("push", "push_distinct"):
            return ("AF", f, [("S", "k"), self.val(1)])
        if f == "advance":
            return ("AF", f, [("N", False, "1", None)])
        return ("AF", f, [])

    def comp(self):
        r = self.r
        k = r.random()
        w = self.action() if r.random() < 0.3 else None
        if k < 0.2:
            return ("A", r.choice(["x", "y1", "tot", "my_var"]) + r.choice(QUALS_V), self.val(0))
        if k < 0.4:
            return ("CE", r.choice([self.hdr, self.var, lambda: self.val(1) if False else self.hdr()])(), self.val(0), w)
        if k < 0.5:
            return ("L", self.hdr(), w)
        if k < 0.6:
            a = self.action()
            return ("L", ("F", a[1], a[2]), None) if a[0] == "AF" else ("A", a[1], a[2])
        return ("L", self.boolf(0), w)


# ---------------------------------------------------------------- rendering
def toks(n):
    k = n[0]
    if k == "S":
        return [("str", '"' + n[1] + '"')]
    if k == "N":
        return [("num", ("-" if n[1] else "") + n[2] + ("." + n[3] if n[3] else ""))]
    if k == "RX":
        return [("closed", "/" + n[1] + "/")]
    if k == "V":
        return [("id", "@" + n[1])]
    if k == "H":
        return [("id", "#" + n[1])]
    if k == "HQ":
        return [("closed", '#"' + n[1] + '"')]
    if k == "R":
        return [("id", "$" + n[1])]
    if k == "F":
        out = [("id", n[1]), ("p", "(")]
        for i, a in enumerate(n[2]):
            if i:
                out.append(("p", ","))
            out += toks(a)
        return out + [("p", ")")]
    if k == "E":
        return toks(n[1]) + [("op", "==")] + toks(n[2])
    raise ValueError(k)


def toks_action(a):
    if a is None:
        return []
    if a[0] == "AA":
        return [("op", "->"), ("id", "@" + a[1]), ("op", "=")] + toks(a[2])
    return [("op", "->")] + toks(("F", a[1], a[2]))


def toks_comp(c):
    if c[0] == "A":
        return [("id", "@" + c[1]), ("op", "=")] + toks(c[2])
    if c[0] == "CE":
        return toks(c[1]) + [("op", "==")] + toks(c[2]) + toks_action(c[3])
    return toks(c[1]) + toks_action(c[2])


def layout(rng, comps, canonical=False):
    out = "["
    prev = ("p", "[")
    for c in comps:
        sep = " " if canonical else rng.choice(WS1)
        if not canonical and rng.random() < 0.25:
            sep += "~" + rng.choice(["note", " a comment, with (stuff) ", "x == y -> z", ""]) + "~" + rng.choice(WS1)
        first = True
        for t in toks_comp(c):
            if first:
                # a component that begins with a sigil needs no white space before it: [push("s",#a)#b@seen]
                if not canonical and sep.strip() == "" and t[1][:1] in "#@$" and prev[0] != "op" and out != "[" and rng.random() < 0.3:
                    sep = ""
                out += sep
                first = False
            else:
                closed_prev = prev[0] in ("p", "str", "closed")
                open_next = t[0] == "p"
                out += " " if canonical and not (closed_prev or open_next) else (rng.choice(WS) if (closed_prev or open_next) and not canonical else ("" if canonical else rng.choice(WS1)))
            out += t[1]
            prev = t
    return out + (" " if canonical else rng.choice(WS)) + "]"


# ---------------------------------------------------------------- Coq literals
def arg_lit(n):
    k = n[0]
    if k == "S":
        return f"(ATermS {ulit(n[1])})"
    if k == "N":
        return f"(ATermN {blit(n[1])} {ulit(n[2])} {'None' if n[3] is None else '(Some ' + ulit(n[3]) + ')'})"
    if k == "RX":
        return f"(ATermR {ulit(n[1])})"
    if k == "V":
        return f"(AVar {ulit(n[1])})"
    if k == "H":
        return f"(AHdr {ulit(n[1])})"
    if k == "HQ":
        return f"(AHdrQ {ulit(n[1])})"
    if k == "R":
        return f"(ARef {ulit(n[1])})"
    if k == "F":
        return f"(AFun {ulit(n[1])} {listlit(n[2], arg_lit)})"
    return f"(AEq {arg_lit(n[1])} {arg_lit(n[2])})"


def act_lit(a):
    if a is None:
        return "None"
    if a[0] == "AA":
        return f"(Some (ActAssign {ulit(a[1])} {arg_lit(a[2])}))"
    return f"(Some (ActFun {ulit(a[1])} {listlit(a[2], arg_lit)}))"


def comp_lit(c):
    if c[0] == "A":
        return f"(CAssign {ulit(c[1])} {arg_lit(c[2])})"
    if c[0] == "CE":
        return f"(CEq {arg_lit(c[1])} {arg_lit(c[2])} {act_lit(c[3])})"
    return f"(CLeft {arg_lit(c[1])} {act_lit(c[2])})"


# ---------------------------------------------------------------- the real parser
def real_tree(matcher):
    from csvpath.matching.productions import Equality, Header, Variable, Term, Reference
    from csvpath.matching.functions.function import Function

    def payload(n):
        return "\x1f".join([f"{n.name}"] + list(n.qualifiers or []))      # name and qualifiers as the node holds them

    def arg(n):
        if isinstance(n, Term):
            v = n.value
            if isinstance(v, bool):
                raise ValueError("bool term")
            if isinstance(v, int):
                return ("N", v < 0, str(abs(v)), None)
            if isinstance(v, float):
                s = repr(abs(v))
                ip, fp = s.split(".")
                return ("N", v < 0 or s.startswith("-"), ip, fp)
            return ("S", v)
        if isinstance(n, Variable):
            return ("V", payload(n))
        if isinstance(n, Header):
            p = payload(n)
            return ("HQ", p) if " " in p or "." in p else ("H", p)
        if isinstance(n, Reference):
            return ("R", payload(n))
        if isinstance(n, Equality):
            if n.op == "==":
                return ("E", arg(n.left), arg(n.right))
            raise ValueError("unexpected equality op " + str(n.op))
        if isinstance(n, Function):
            kids = list(n.children)
            if len(kids) == 1 and isinstance(kids[0], Equality) and kids[0].op == ",":
                kids = list(kids[0].children)
            return ("F", payload(n), [arg(k) for k in kids])
        raise ValueError("unexpected node " + type(n).__name__)
    out = []
    for e, _ in matcher.expressions:
        c = e.children[0]
        if isinstance(c, Equality) and c.op == "->":
            left, act = c.left, c.right
            if isinstance(act, Equality) and act.op == "=":
                a = ("AA", payload(act.left), arg(act.right))
            else:
                f = arg(act)
                a = ("AF", f[1], f[2])
            if isinstance(left, Equality) and left.op == "==":
                out.append(("CE", arg(left.left), arg(left.right), a))
            else:
                out.append(("L", arg(left), a))
        elif isinstance(c, Equality) and c.op == "=":
            out.append(("A", payload(c.left), arg(c.right)))
        elif isinstance(c, Equality) and c.op == "==":
            out.append(("CE", arg(c.left), arg(c.right), None))
        else:
            out.append(("L", arg(c), None))
    return out


def impl(job):
    comps, texts, outers, fname = job
    from csvpath import CsvPath
    from csvpath.matching.lark_parser import LarkParser
    with open(fname, "w") as fh:
        fh.write("id,a,b\nr1,1,x\nr2,2,y\nr3,3,\n")
    out = {"trees": [], "notes": [], "runs": []}
    with Quiet():
        for t, oc in zip(texts, outers):
            try:
                tree = LarkParser().parse(t)
                if list(tree.find_data("_ambig")):
                    out["trees"].append(None)
                    out["notes"].append("ambiguous parse (_ambig node)")
                    continue
                c = CsvPath()
                c.parse(f"${fname}[*][yes()]")
                oc, _, after = oc.partition("\x00")       # an outer comment above and / or below the csvpath
                m = c.parse(f"{oc}${fname}[*]{t}{after}", disposably=True)
                out["trees"].append(real_tree(m))
                out["notes"].append(None)
            except Exception as ex:  # noqa
                out["trees"].append(None)
                out["notes"].append(type(ex).__name__ + ": " + str(ex)[:120])
                continue
            # the results of a run of this layout (compared across layouts)
            try:
                c2 = CsvPath()
                c2.config.csvpath_errors_policy = ["collect"]
                c2.parse(f"{oc}${fname}[*]{t}{after}")
                lines = c2.collect()
                out["runs"].append({"lines": [list(map(str, l)) for l in lines], "vars": repr(sorted((k, repr(v)) for k, v in c2.variables.items())),
                                    "counts": [c2.line_monitor.physical_line_number, c2.current_match_count if hasattr(c2, "current_match_count") else c2.match_count, c2.stopped],
                                    "errors": len(c2.errors or [])})
            except Exception as ex:  # noqa
                out["runs"].append({"raised": type(ex).__name__})
    try:
        os.remove(fname)
    except OSError:
        pass
    return out


def run(ctx):
    rng = ctx.rng
    quick = ctx.tier == "quick"
    # the grammar's character classes, read from the grammar text of the tree under test, against the model's predicates
    import c17_grammar
    from common import zlit
    cls_src, cls_tab, cls_err = None, None, None
    try:
        cls_src, cls_tab = c17_grammar.classes()
    except Exception as ex:  # noqa
        cls_err = type(ex).__name__ + ": " + str(ex)[:200]
    cls_bad = []
    if cls_tab is not None:
        bl = lambda k: listlit(cls_tab[k], blit)
        lit = (f"mkCls {listlit(c17_grammar.CODES, zlit)} {bl('header')} {bl('header_quoted')} {bl('variable')} {bl('reference')} "
               f"{bl('function_first')} {bl('function_rest')} {bl('ws')}")
        cls_bad = sorted(coq_bad(ctx, "c17k", "Csv.CsvModel Data.DataModel Match.Syntax Harness.C17Cmp", "c17cls", [lit], ["c17_classes_agree"], chunk=10)["c17_classes_agree"])
    jobs = []
    for i in range(500 if quick else 20000):
        g = T(rng)
        comps = [g.comp() for _ in range(rng.choice([1, 2, 2, 3, 4, 5]))]
        texts = [layout(rng, comps, canonical=True)] + [layout(rng, comps) for _ in range(2)]
        outers = ["", rng.choice(["", "~ a plain description, nothing else ~ ", "~ author: me note: layout test ~\n", "~ flags items that cost more than $5 ~ "]),
                  rng.choice(["", "~x~", "~ see $.variables.n and $other.csv ~\n"])]      # an outer comment may mention a price, a reference, a file
        # ... and may stand below the csvpath, with or without one above
        outers = [outers[0], outers[1] + "\x00" + rng.choice(["", "", " ~ reviewed by ops ~"]), outers[2] + "\x00" + rng.choice(["", "\n~ prices are in $ ~", " ~ checked ~\n"])]
        jobs.append((comps, texts, outers, f"c17_{i}.csv"))
    res = pmap(ctx, impl, jobs, chunksize=8)
    lits = []
    for (comps, texts, outers, _), o in zip(jobs, res):
        real = listlit(o["trees"], lambda t: "None" if t is None else "(Some " + listlit(t, comp_lit) + ")")
        lits.append(f"mkC17 {listlit(comps, comp_lit)} {listlit(texts, ulit)} {real}")
    bad = coq_bad(ctx, "c17", "Csv.CsvModel Data.DataModel Match.Syntax Harness.C17Cmp", "c17case", lits, ["c17_spec", "c17_agree"], chunk=100)

    def case(i):
        return {"layouts": [oc.partition("\x00")[0] + "$f[*]" + t + oc.partition("\x00")[2] for t, oc in zip(jobs[i][1], jobs[i][2])], "tree_written": jobs[i][0], "impl": res[i]}
    spec_bad, agree_bad = sorted(bad["c17_spec"]), sorted(bad["c17_agree"])
    # run results of the re-laid-out text: equal across layouts (trees without random())
    run_bad, runs_compared = [], 0
    for i, ((comps, texts, outers, _), o) in enumerate(zip(jobs, res)):
        if "random(" in texts[0] or len(o["runs"]) != len(texts):
            continue
        runs_compared += 1
        if any(r != o["runs"][0] for r in o["runs"][1:]):
            run_bad.append(i)
    if spec_bad:
        ctx.violation("tree", {"what": "the component tree built for some layout is not the tree that was written (or the text did not parse, or parsed ambiguously)", "case": case(spec_bad[0]),
                               "more": [case(i) for i in spec_bad[1:3]], "failures": len(spec_bad)})
    elif run_bad:
        ctx.violation("runs", {"what": "two layouts of the same component tree gave different run results (lines, variables, counters, stop flag, error count)", "case": case(run_bad[0]),
                               "failures": len(run_bad)})
    elif cls_err or cls_bad:
        ctx.violation("correspondence", {"what": "the character classes of the match grammar's name terminals (read from LarkParser.GRAMMAR) no longer equal the model's "
                                                 "(Match/Syntax.v idc / hqc / is_letter / wsc; Harness/C17Cmp.c17_classes_agree); theorems C17_* are about the model only",
                                         "disagreeing_case": {"grammar_classes": cls_src, "error": cls_err}}, no_input=True)
    elif agree_bad:
        ctx.violation("correspondence", {"what": "correspondence Match/Syntax.v (lexer + parser) vs Lark grammar + LarkTransformer no longer checks (Harness/C17Cmp.c17_agree); theorems C17_* are about the model only",
                                         "disagreeing_case": case(agree_bad[0])}, no_input=True)
    depth = lambda n: 1 + max([depth(a) for a in n[2]] + [0]) if n[0] == "F" else (1 + max(depth(n[1]), depth(n[2])) if n[0] == "E" else 0)
    ctx.coverage.update({
        "evaluations": len(jobs) * 3, "distinct_nontrivial": len({repr(j[0]) for j in jobs if len(j[0]) >= 2}),
        "rule": "component trees of 1-5 components: assignments, equalities, headers (plain, indexed, quoted, qualified), ~55 function names with valid arity (boolean, comparison, math, string, "
                "counting, stack, control, print) and qualifiers, variables with qualifiers/tracking, references, strings with punctuation, signed and decimal numbers, when/do with function or "
                "assignment actions, nesting depth <= 4; each rendered canonically and in 2 random layouts (spaces, tabs, newlines, zero-width where tokens cannot fuse, '~...~' comments between "
                "components) with optional outer comments without mode settings. Non-trivial = distinct trees with >= 2 components.",
        "samples": [case(0)],
        "grammar_classes_from_source": cls_src, "grammar_class_code_points": len(c17_grammar.CODES),
        "trees": len(jobs), "layouts": len(jobs) * 3, "runs_compared_across_layouts": runs_compared, "runs_raising": sum(1 for o in res for r in o["runs"] if "raised" in r), "parse_failures_or_ambiguous": sum(1 for o in res for t in o["trees"] if t is None),
        "traces_validated_against_impl": len(jobs) - len(agree_bad),
        "correspondence": f"model parser == real parser on {len(jobs) - len(agree_bad)}/{len(jobs)} trees (x3 layouts); tree == tree written on {len(jobs) - len(spec_bad)}/{len(jobs)}",
    })


def replay(ctx, payload):
    print(payload.get("case") or payload.get("disagreeing_case"))
    return 0
