"""C01 — returned lines are exactly the scanned lines that satisfy the match part.

Deciding method: Coq theorems (Props/C01.v): for every matcher each record is considered once, in
order, and returned iff offered and voted for; on CORE (Match/Core.v, the documented meaning of the
typed fragment) a line's vote is the AND/OR of the components' votes evaluated left to right, and
the operators are strict/non-strict numeric comparisons etc.  Tie to /repo: typed CORE csvpaths
(depth <= 3, 1-6 components, both logic modes, both return modes) over generated files (ragged
rows, blank records, optional/empty cells, multi-digit and equal numbers) are run by the real
CsvPath and the returned lines compared, by the Coq kernel, with the CORE model's."""
import core
from common import blit, coq_bad, known_open, pmap

SIG_D1 = "lt-is-le"
SIG_D2 = "cells-compared-as-strings"
VECTORS = [(False, False, False), (True, False, False), (False, True, False), (False, False, True), (True, True, False), (True, False, True), (False, True, True), (True, True, True)]   # (lt, strcmp, pop)
QS = {"clean": "clean", "lt": "(mkQ true false false)", "str": "(mkQ false true false)", "lt+str": "(mkQ true true false)"}


def run_cases(ctx, which="c01"):
    rng = ctx.rng
    quick = ctx.tier == "quick"
    jobs = []
    for k, prog in enumerate(core.corner_programs()):      # fixed corner csvpaths, each over three generated files (or over its own rows)
        for r in range(1 if prog.get("rows") else 3):
            jobs.append((prog, prog.get("rows") or core.gen_rows(rng), f"c01_c{k}_{r}.csv"))
    for i in range(900 if quick else 40000):
        prog = core.gen_program(rng)
        jobs.append((prog, core.gen_rows(rng, echo=prog["textonly"], empties=core.empties_ok(prog) and rng.random() < 0.4), f"c01_{i}.csv"))
    res = pmap(ctx, core.impl, jobs, chunksize=16)
    lits = [core.case_lit(j, o) for j, o in zip(jobs, res)]
    pred = "c01_lines" if which == "c01" else "c03_state"
    preds = [f"{pred} {q}" for q in QS.values()] if which == "c01" else [f"{pred} (mkQ {blit(a)} {blit(b)} {blit(c)})" for a, b, c in VECTORS]
    bad = coq_bad(ctx, which, "Csv.CsvModel Data.DataModel Scan.ScanModel Run.RunLoop Match.Core Harness.C01Cmp", "c01case", lits, preds, chunk=150)
    return jobs, res, bad, preds


def decide(ctx, jobs, res, bad, preds, what_name):
    clean_bad = sorted(bad[preds[0]])
    lt_only = [i for i in clean_bad if i not in bad[preds[1]]]
    str_only = [i for i in clean_bad if i not in bad[preds[2]] and i not in lt_only]
    both = [i for i in clean_bad if i not in bad[preds[3]] and i not in lt_only and i not in str_only]
    other = [i for i in clean_bad if i not in lt_only and i not in str_only and i not in both]
    return clean_bad, lt_only, str_only, both, other


def main_run(ctx):
    jobs, res, bad, preds = run_cases(ctx, "c01")
    clean_bad, lt_only, str_only, both, other = decide(ctx, jobs, res, bad, preds, "lines")
    # a case explained by the open finding's switch alone is attributed to it; strcmp is blamed only when lt alone does not explain
    d1 = lt_only + both
    d2 = [i for i in clean_bad if i in bad[preds[1]] and (i not in bad[preds[2]] or i not in bad[preds[3]])]
    if d2:
        c = core.describe(jobs[d2[0]], res[d2[0]])
        if known_open(ctx.pid, SIG_D2):
            ctx.known(f"{SIG_D2}: {c['csvpath']} ({len(d2)} cases this run)")
        else:
            ctx.violation("string-compare", {"what": "above/below/gt/lt compare CSV cells as strings ('9' is above '10'): the implementation agrees with the CORE model only with deviation "
                                                     "switch strcmp on (witness C01_string_compare_refuted)", "case": c, "cases": len(d2)})
    if d1:
        c = core.describe(jobs[d1[0]], res[d1[0]])
        if known_open(ctx.pid, SIG_D1):
            ctx.known(f"{SIG_D1}: lt()/below()/before() answer <= — e.g. {c['csvpath']} ({len(d1)} cases this run; witness C01_lt_is_le_refuted)")
        else:
            ctx.violation("lt-is-le", {"what": "lt/below/before answer <= instead of < (model agrees only with deviation switch lt on; witness C01_lt_is_le_refuted)", "case": c, "cases": len(d1)})
    if other:
        c = core.describe(jobs[other[0]], res[other[0]])
        ctx.violation("lines", {"what": "the lines returned differ from the scanned lines on which the components, evaluated left to right under their documented meaning (CORE model), hold",
                                "case": c, "more": [core.describe(jobs[i], res[i]) for i in other[1:4]], "cases": len(other)})
    nontriv = {o["text"] + repr(j[1]) for j, o in zip(jobs, res) if not o["exc"] and len(j[0]["comps"]) >= 2 and o["lines"] and o["scan"] > len(o["lines"])}
    # the translator tie: the adjudication loop Matcher.matches as written in the source of the tree under test, regenerated and (when the text
    # differs from the checked-in Match/AdjSrc.v) re-proved equal to the model's loop, for every component evaluator
    import srctie
    tie = srctie.check(ctx, "adjudicate")
    if tie["status"] in ("untranslatable", "unproved") and not ctx.violations:
        ctx.violation("source-tie", {"what": "the translation of Matcher.matches from csvpath/matching/matcher.py is no longer proved equal to the model's adjudication loop: theorem "
                                             "matches_src_eq (C01_adjudication_source) does not check against the source of this tree; the generated cases of this run found no input "
                                             "on which the property fails", "theorem": "matches_src_eq (C01_adjudication_source)", "tie": tie}, no_input=True)
    ctx.coverage.update({
        "evaluations": len(jobs), "distinct_nontrivial": len(nontriv),
        "rule": "typed CORE csvpaths: 1-6 components (50% boolean tests, 30% assignments/push/pop, 20% when/do), expression depth <= 3, over gt/gte/lt/lte/above/below (30% with equal operands), "
                "string comparisons, eq/equals, ==, between, exists/empty/bare header, in, starts_with, not/and/or, yes/no, add/subtract/multiply/int/length, lower/upper/concat, "
                "count_lines/count_scans/line_number, variables; 75% AND / 25% OR mode, 10% return-mode no-matches, 8 scan shapes; files of 0-11 data records with integer columns n, m "
                "(multi-digit, negative, 30% equal), text columns, an optional/empty sixth column, ragged rows, blank records. Non-trivial = >= 2 components, some but not all scanned lines returned.",
        "samples": [core.describe(jobs[0], res[0]), core.describe(jobs[len(jobs) // 2], res[len(jobs) // 2])],
        "exceptions": sum(1 for o in res if o["exc"]), "programs_using_lt": sum(1 for j in jobs if j[0]["uses_lt"]),
        "traces_validated_against_impl": len(jobs) - len(clean_bad),
        "correspondence": f"clean CORE model == implementation on {len(jobs) - len(clean_bad)}/{len(jobs)} runs; explained by switch lt: {len(lt_only)}, strcmp: {len(str_only)}, both: {len(both)}, unexplained: {len(other)}",
    })
    ctx.coverage["source_tie"] = {"status": tie["status"], "detail": tie["detail"][:400]}




def run(ctx):  # noqa: F811  (entry point used by harness/run.py)
    return main_run(ctx)


def replay(ctx, payload):
    print(payload.get("case"))
    return 0
