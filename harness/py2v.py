"""py2v — a fail-closed translator from the small Python subset used by Scanner.includes / Scanner.is_last
(csvpath/scanning/scanner.py) to Gallina over the Python-value semantics of coq/Scan/PySem.v.

Anything outside the subset raises Unsupported: the caller reports that the tie no longer checks."""
import ast


class Unsupported(Exception):
    pass


CMP = {ast.Eq: "p_eq", ast.NotEq: "p_ne", ast.Lt: "p_lt", ast.LtE: "p_le", ast.Gt: "p_gt", ast.GtE: "p_ge", ast.In: "p_in"}
# attribute chains that stand for a parameter of the generated function
ATTR_PARAMS = {"self.csvpath.line_monitor.physical_end_line_number": "end_line"}


def attr_chain(n):
    parts = []
    while isinstance(n, ast.Attribute):
        parts.append(n.attr)
        n = n.value
    if isinstance(n, ast.Name):
        parts.append(n.id)
        return ".".join(reversed(parts))
    raise Unsupported("attribute base " + ast.dump(n))


def expr(n, names):
    if isinstance(n, ast.Name):
        if n.id not in names:
            raise Unsupported("unknown name " + n.id)
        return "underscore_" if n.id == "_" else n.id
    if isinstance(n, ast.Constant):
        if n.value is None:
            return "PNone"
        if n.value is True or n.value is False:
            return f"(PBool {'true' if n.value else 'false'})"
        if isinstance(n.value, int):
            return f"(PInt ({n.value}))"
        raise Unsupported("constant " + repr(n.value))
    if isinstance(n, ast.Attribute):
        ch = attr_chain(n)
        if ch in ATTR_PARAMS:
            return ATTR_PARAMS[ch]
        raise Unsupported("attribute " + ch)
    if isinstance(n, ast.UnaryOp) and isinstance(n.op, ast.Not):
        return f"(p_not {expr(n.operand, names)})"
    if isinstance(n, ast.BoolOp):
        f = "p_and" if isinstance(n.op, ast.And) else "p_or"
        out = expr(n.values[-1], names)
        for v in reversed(n.values[:-1]):
            out = f"({f} {expr(v, names)} (fun _ : unit => {out}))"
        return out
    if isinstance(n, ast.Compare):
        terms = [n.left] + list(n.comparators)
        for t in terms[1:-1]:
            if not isinstance(t, (ast.Name, ast.Constant)):
                raise Unsupported("chained comparison over a non-atomic middle operand")
        parts = []
        for a, op, b in zip(terms, n.ops, terms[1:]):
            if isinstance(op, ast.Is) or isinstance(op, ast.IsNot):
                if not (isinstance(b, ast.Constant) and b.value is None):
                    raise Unsupported("'is' with something other than None")
                parts.append(f"({'p_is_none' if isinstance(op, ast.Is) else 'p_is_not_none'} {expr(a, names)})")
            elif type(op) in CMP:
                parts.append(f"({CMP[type(op)]} {expr(a, names)} {expr(b, names)})")
            else:
                raise Unsupported("comparison " + type(op).__name__)
        out = parts[-1]
        for p in reversed(parts[:-1]):
            out = f"(p_and {p} (fun _ : unit => {out}))"
        return out
    if isinstance(n, ast.Call) and isinstance(n.func, ast.Name) and n.func.id in ("len", "max") and len(n.args) == 1 and not n.keywords:
        return f"(p_{n.func.id} {expr(n.args[0], names)})"
    raise Unsupported("expression " + type(n).__name__)


def returns(stmts):
    """every path through stmts ends in a return"""
    if not stmts:
        return False
    s = stmts[-1]
    if isinstance(s, ast.Return):
        return True
    if isinstance(s, ast.If):
        return returns(s.body) and returns(s.orelse)
    return False


def block(stmts, names, ind):
    pad = "  " * ind
    if not stmts:
        return pad + "PNone"          # falling off the end of a function
    s, rest = stmts[0], stmts[1:]
    if isinstance(s, ast.Expr) and isinstance(s.value, ast.Constant) and isinstance(s.value.value, str):
        return block(rest, names, ind)      # docstring
    if isinstance(s, ast.Return):
        return pad + (expr(s.value, names) if s.value is not None else "PNone")
    if isinstance(s, ast.Assign):
        if len(s.targets) != 1 or not isinstance(s.targets[0], ast.Name):
            raise Unsupported("assignment target")
        t = s.targets[0].id
        g = "underscore_" if t == "_" else t
        return pad + f"let {g} := {expr(s.value, names)} in\n" + block(rest, names | {t}, ind)
    if isinstance(s, ast.If):
        # the statements after an if that does not return on every path are continued in both branches
        b = block(s.body + ([] if returns(s.body) else rest), names, ind + 1)
        o = block(s.orelse + ([] if (s.orelse and returns(s.orelse)) else rest), names, ind + 1)
        return pad + f"p_if {expr(s.test, names)}\n{pad} (fun _ : unit =>\n{b})\n{pad} (fun _ : unit =>\n{o})"
    raise Unsupported("statement " + type(s).__name__)


def default_resolution(s, param, sentinel):
    """`p = self.p if p == -1 else p` / `p = self.p if p is None else p`: the keyword parameter defaults to the scanner's own field"""
    want = f"{param} = self.{param} if {param} {'== -1' if sentinel == '-1' else 'is None'} else {param}"
    got = ast.unparse(s)
    if got != want:
        raise Unsupported(f"expected `{want}`, found `{got}`")


def function(cls, name, fields):
    fn = next((f for f in cls.body if isinstance(f, ast.FunctionDef) and f.name == name), None)
    if fn is None:
        raise Unsupported("no method " + name)
    a = fn.args
    if [x.arg for x in a.args] != ["self", "line"] or [x.arg for x in a.kwonlyargs] != [f for f, _ in fields] or a.vararg or a.kwarg:
        raise Unsupported("signature of " + name + ": " + ast.unparse(a))
    if [ast.unparse(d) for d in a.kw_defaults] != [d for _, d in fields]:
        raise Unsupported("keyword defaults of " + name)
    body = list(fn.body)
    if body and isinstance(body[0], ast.Expr) and isinstance(body[0].value, ast.Constant):
        body = body[1:]
    for (f, d), s in zip(fields, body):
        default_resolution(s, f, d)
    body = body[len(fields):]
    names = {"line", "end_line"} | {f for f, _ in fields}
    params = " ".join(["line"] + [f for f, _ in fields] + ["end_line"])
    return f"Definition {name}_src ({params} : pyv) : pyv :=\n" + block(body, names, 1) + ".\n"


FIELDS = [("from_line", "-1"), ("to_line", "-1"), ("all_lines", "None"), ("these", "None")]


def translate(path):
    src = open(path, encoding="utf-8").read()
    tree = ast.parse(src)
    cls = next((c for c in tree.body if isinstance(c, ast.ClassDef) and c.name == "Scanner"), None)
    if cls is None:
        raise Unsupported("no class Scanner")
    out = ["(** GENERATED by harness/py2v.py from csvpath/scanning/scanner.py (Scanner.includes, Scanner.is_last) — do not edit.",
           "    The keyword parameters default to the scanner's own fields (checked by the translator), so the fields are the parameters here;",
           "    end_line stands for self.csvpath.line_monitor.physical_end_line_number. *)",
           "From Coq Require Import ZArith List Bool.", "From V Require Import Scan.PySem.", "Import ListNotations.", "Open Scope Z_scope.", ""]
    for name in ("includes", "is_last"):
        out.append(function(cls, name, FIELDS))
    return "\n".join(out)


if __name__ == "__main__":
    import sys
    print(translate(sys.argv[1]))
