"""C09 — the archived results of a run say what the run did.

Deciding method: Coq theorems (Props/C09.v) over the model of the write sequence of a member
(spooler appends, save(), fingerprints last) and of the two manifests: the files hold the
in-memory results (data.csv/unmatched.csv parse back through the csv round-trip theorem),
fingerprints are those of the final bytes, the run manifest is the conjunction/sum.
Tie to /repo: groups of generated csvpaths over files with hostile cells are run with all six real
methods; for every member the four representations (memory, files, member manifest, run manifest)
are compared: the bytes of data.csv/unmatched.csv/printouts.txt with the modelled writer and their
parse-back with the in-memory lines by the Coq kernel; vars.json/errors.json/meta.json, member
directory names, fingerprints (recomputed from the bytes on disk) and manifest fields by the harness."""
import hashlib
import json
import os

import c06
import gen
import groups
from common import CONFIG_INI, blit, coq_bad, listlit, oulit, pmap, ulit

CFG = CONFIG_INI.replace("csvpath = collect, fail, print", "csvpath = collect, print")


def read_text(p):
    if not os.path.exists(p):
        return None
    with open(p, "r", newline="", encoding="utf-8") as fh:
        return fh.read()


def inspect(paths, run, o):
    out = {"members": [], "run_manifest": None, "problems": []}
    ms = o.get("members") or []
    if not ms:
        return out
    rd = ms[0]["run_dir"]
    try:
        out["run_manifest"] = json.load(open(os.path.join(rd, "manifest.json")))
    except Exception as ex:  # noqa
        out["problems"].append("run manifest unreadable: " + type(ex).__name__)
    for k, m in enumerate(ms):
        d = os.path.join(rd, m["identity"] if m["identity"] else str(k))
        rec = {"dir_exists": os.path.isdir(d)}
        for f in ("meta.json", "vars.json", "errors.json", "manifest.json"):
            try:
                rec[f] = json.load(open(os.path.join(d, f)))
            except Exception as ex:  # noqa
                rec[f] = None
                out["problems"].append(f"{m['identity']}/{f}: {type(ex).__name__}")
        for f in ("data.csv", "unmatched.csv", "printouts.txt"):
            rec[f] = read_text(os.path.join(d, f))
        fps = (rec["manifest.json"] or {}).get("file_fingerprints") or {}
        on_disk = {}
        for f in ("data.csv", "meta.json", "unmatched.csv", "printouts.txt", "errors.json", "vars.json"):
            p = os.path.join(d, f)
            if os.path.exists(p):
                on_disk[f] = hashlib.sha256(open(p, "rb").read()).hexdigest()
        rec["fp_ok"] = fps == on_disk
        rec["fps"], rec["on_disk"] = fps, on_disk
        out["members"].append(rec)
    return out


def gen_group(rng, i):
    n = rng.choice([1, 2, 2, 3])
    members = []
    for k in range(n):
        pr = gen.gen_prog(rng, "", control=True, modes=False, errors=(rng.random() < 0.15))
        ident = rng.choice([f"id: m{k}", f"id: m{k}", f"name: m{k}", f"Id: m{k}", ""])
        mode = rng.choice(["", "", " unmatched-mode: keep", " return-mode: no-matches", " unmatched-mode: keep return-mode: no-matches"])
        if rng.random() < 0.1:
            mode = " run-mode: no-run"
        comment = f"~{ident}{mode} :~ " if (ident or mode) else ""
        text = pr["text"]
        if rng.random() < 0.15 and "][" in text:
            # a member that ends the whole run: stop_all() (under next_paths the later members never start); first component,
            # so that no skip()/stop() of the member's own comes before it
            head, tail = text.split("][", 1)
            text = head + f"][ eq.nocontrib(line_number(), {rng.choice([0, 1, 1, 2])}) -> stop_all() " + tail
        members.append(comment + text)
    # hostile data cells (quotes, commas, newlines, unicode), header row as the generators expect
    rows = [["id", "a", "b"]]
    for j in range(1, rng.choice([2, 3, 5, 7])):
        if rng.random() < 0.12:
            rows.append([])
        else:
            rows.append([f"r{j}", rng.choice(gen.NUMS), rng.choice(gen.TEXTS + [c06.gen_cell(rng).replace("\x00", "0")])][: rng.choice([1, 2, 3, 3, 3])])
    if rng.random() < 0.15:
        rows.append([])
    if rng.random() < 0.06:
        rows = []            # a file with no records: no member ever looks at a line
    runs = [{"method": m, "pathsname": "g", "filename": "f", "new_instance": True} for m in groups.METHODS]
    return {"id": i, "files": {"f": rows}, "groups": {"g": members}, "runs": runs, "config": CFG, "inspect": inspect}


def judge(job, o):
    """relational part (JSON side, names, manifests vs memory); returns (problem or None, Coq literal or None)"""
    ins = o["inspect"]
    if ins["problems"]:
        return ins["problems"][0], None
    rm = ins["run_manifest"]
    mems = o["members"]
    if len(ins["members"]) != len(mems) or rm is None:
        return "a member has no result directory / run manifest missing", None
    lits = []
    for k, (m, rec) in enumerate(zip(mems, ins["members"])):
        if not rec["dir_exists"]:
            return f"no directory named by identity/index for member {k}", None
        if rec["vars.json"] != json.loads(m["vars"]):
            return f"vars.json differs from the member's variables ({m['identity']})", None
        elines = sorted({e.get("line_count") for e in rec["errors.json"]}) if isinstance(rec["errors.json"], list) else None
        if elines != m["errors"] or len(rec["errors.json"]) != m["error_count"]:
            return f"errors.json differs from the collected errors ({m['identity']})", None
        man = rec["manifest.json"]
        collected = m["lines"] if o["method"] in ("collect_paths", "collect_by_line") else []
        if o["method"] in ("collect_paths", "collect_by_line") and m.get("calls") is not None and isinstance(collected, list) and not m["cwnm"]:
            # (under return-mode: no-matches the lines advance() passes over are kept too: the run-loop model of C07/C13 decides those)
            # the lines a collecting run keeps are the scanned lines its matcher accepted (rejected, under return-mode: no-matches): as many as that
            rows = job["files"]["f"]      # (the blank final record reaches the matcher only to run the last() components: it is not a scanned line)
            want = sum(1 for c in m["calls"] if bool(c[1]) != bool(m["cwnm"]) and 0 <= c[0] < len(rows) and rows[c[0]])
            if len(collected) != want:
                return f"member {m['identity']} kept {len(collected)} lines (in memory and in data.csv) but its matcher {'rejected' if m['cwnm'] else 'accepted'} {want} scanned lines", None
        unm = m["unmatched"] or []
        pos = m["printouts"] if isinstance(m["printouts"], list) else []
        lits.append(f"(mkC09M {listlit(collected, lambda r: listlit(r, ulit))} {oulit(rec['data.csv'])} {listlit(unm, lambda r: listlit(r, ulit))} {oulit(rec['unmatched.csv'])} "
                    f"{listlit(pos, ulit)} {oulit(rec['printouts.txt'])} {blit(m['is_valid'])} {blit(m['completed'])} {m['error_count']}%nat "
                    f"{blit(bool(man.get('valid')))} {blit(bool(man.get('completed')))} {m['error_count']}%nat {blit(rec['fp_ok'])})")
    lit = (f"mkC09 [{'; '.join(lits)}] {blit(rm.get('status') == 'complete')} {blit(bool(rm.get('all_valid')))} {blit(bool(rm.get('all_completed')))} "
           f"{int(rm.get('error_count') or 0)}%nat")
    return None, lit


def run(ctx):
    rng = ctx.rng
    quick = ctx.tier == "quick"
    jobs = [gen_group(rng, i) for i in range(60 if quick else 1500)]
    for j in jobs:
        j["record"] = True      # the members' matcher answers are recorded: a collecting run keeps exactly the accepted lines
    res = pmap(ctx, groups.run_history, jobs, chunksize=2)
    fails, lits, src = [], [], []
    for j, r in zip(jobs, res):
        if r["setup_exc"]:
            fails.append({"kind": "setting up the group raised", "group": j["groups"]["g"], "exc": r["setup_exc"]})
            continue
        for o in r["runs"]:
            if o["exc"]:
                fails.append({"kind": "the run raised", "method": o["method"], "group": j["groups"]["g"], "rows": j["files"]["f"], "exc": o["exc"]})
                continue
            why, lit = judge(j, o)
            if why:
                fails.append({"kind": why, "method": o["method"], "group": j["groups"]["g"], "rows": j["files"]["f"],
                              "members": [{k: m[k] for k in ("identity", "vars", "errors", "is_valid", "completed")} for m in o["members"]],
                              "on_disk": {k: v for k, v in (o["inspect"]["members"][0] if o["inspect"]["members"] else {}).items() if k in ("vars.json", "errors.json", "fps", "on_disk")}})
            else:
                lits.append(lit)
                src.append((j, o))
    bad = coq_bad(ctx, "c09", "Csv.CsvModel Data.DataModel Mgr.Archive Harness.C09Cmp", "c09case", lits, ["c09_ok"], chunk=60) if lits else {"c09_ok": set()}
    for i in sorted(bad["c09_ok"]):
        j, o = src[i]
        ms = []
        for m, rec in zip(o["members"], o["inspect"]["members"]):
            ms.append({"identity": m["identity"], "memory": {"lines": m["lines"], "unmatched": m["unmatched"], "printouts": m["printouts"], "is_valid": m["is_valid"], "completed": m["completed"],
                                                                "errors": m["error_count"]},
                       "disk": {"data.csv": rec["data.csv"], "unmatched.csv": rec["unmatched.csv"], "printouts.txt": rec["printouts.txt"],
                                "manifest": {k: (rec["manifest.json"] or {}).get(k) for k in ("valid", "completed", "error_count")}, "fingerprints_match_bytes": rec["fp_ok"]}})
        fails.append({"kind": "files / manifests on disk disagree with the in-memory results (Harness/C09Cmp.c09_ok)", "method": o["method"], "group": j["groups"]["g"], "rows": j["files"]["f"],
                      "members": ms, "run_manifest": {k: o["inspect"]["run_manifest"].get(k) for k in ("status", "all_valid", "all_completed", "error_count")}})
    if fails:
        ctx.violation("archive", {"what": fails[0]["kind"], "case": fails[0], "more": fails[1:3], "failures": len(fails)})
    ctx.coverage.update({
        "evaluations": sum(len(j["runs"]) for j in jobs), "distinct_nontrivial": len({repr((j["groups"]["g"], j["files"]["f"], o["method"])) for j, o in src if any(m["lines"] for m in o["members"])}),
        "rule": "groups of 1-3 generated csvpaths (identity by id/Id/name or none -> index; unmatched-mode keep, return-mode no-matches, 10% run-mode no-run; stop/fail/print/error components, 15% of the members call stop_all() on some line; 6% of the files have no records) over files whose "
                "cells contain quotes, delimiters, newlines and non-ASCII text; each group run with all six methods by a fresh CsvPaths; for every member: memory vs files vs member manifest, "
                "and the run manifest vs all members. Non-trivial = distinct (group, file, method) where some member collected lines.",
        "samples": [{"group": jobs[0]["groups"]["g"], "rows": jobs[0]["files"]["f"]}],
        "groups": len(jobs), "runs_judged_in_coq": len(lits), "failures": len(fails),
        "traces_validated_against_impl": len(lits) - len(bad["c09_ok"]),
        "correspondence": f"archive model == implementation on {len(lits) - len(bad['c09_ok'])}/{len(lits)} runs",
    })


def replay(ctx, payload):
    print(json.dumps(payload.get("case"), default=str)[:3000])
    return 0
