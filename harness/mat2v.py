"""mat2v — a fail-closed translator for the adjudication loop Matcher.matches (csvpath/matching/matcher.py) to Gallina
(generated coq/Match/AdjSrc.v), parametric — like the hand model Match/Adjudicate.v — in what a component evaluation does.

The method must have the shape: [blank-final-record prologue] ; local initialisations ; ONE `for i, et in enumerate(self.expressions)`
loop ; epilogue.  The loop becomes a Fixpoint over the expressions (each paired with its cached answer et[1]); the locals are Python
values (PySem.v), the matcher's state is abstract with the operations the method uses: self.csvpath.stopped (stp), self.skip (skp /
clear_skip), self.clear_errors() (clear_errors), self._do_lasts() (do_lasts), et[0].matches(skip=[]) (eval).  Writes of the cache et[1]
are dropped after checking that, within an iteration, they come after every read of et[1] (each expression is visited once per call).
Logging and the explain dump are skipped.  Anything else raises py2v.Unsupported."""
import ast
import os

import py2v
from py2v import Unsupported, attr_chain, returns


def is_logging(s):
    return isinstance(s, ast.Expr) and isinstance(s.value, ast.Call) and isinstance(s.value.func, ast.Attribute) and \
        attr_chain(s.value.func).startswith("self.csvpath.logger.")


def is_doc(s):
    return isinstance(s, ast.Expr) and isinstance(s.value, ast.Constant)


class Tr:
    def __init__(self, in_loop):
        self.in_loop = in_loop
        self.n = 0
        self.cache_written = False

    def fresh(self):
        self.n += 1
        return f"s{self.n}"

    def expr(self, n, s, names):
        if isinstance(n, ast.Constant):
            return py2v.expr(n, set())
        if isinstance(n, ast.Name):
            if n.id not in names:
                raise Unsupported("unknown name " + n.id)
            return n.id
        if isinstance(n, ast.Attribute):
            ch = attr_chain(n)
            if ch == "self._AND":
                return "(PBool AND)"
            if ch == "self.csvpath":
                return "(PBool true)"          # the matcher's CsvPath: an object
            if ch == "self.csvpath.stopped":
                return f"(PBool (stp {s}))"
            if ch == "self.skip":
                return f"(PBool (skp {s}))"
            raise Unsupported("attribute " + ch)
        if isinstance(n, ast.Subscript) and self.in_loop and ast.unparse(n) == "et[1]":
            if self.cache_written:
                raise Unsupported("et[1] is read after it was written in the same iteration")
            return "cache"
        if isinstance(n, ast.IfExp):
            return f"(p_if {self.expr(n.test, s, names)} (fun _ : unit => {self.expr(n.body, s, names)}) (fun _ : unit => {self.expr(n.orelse, s, names)}))"
        if isinstance(n, ast.UnaryOp) and isinstance(n.op, ast.Not):
            return f"(p_not {self.expr(n.operand, s, names)})"
        if isinstance(n, ast.BoolOp):
            f = "p_and" if isinstance(n.op, ast.And) else "p_or"
            out = self.expr(n.values[-1], s, names)
            for v in reversed(n.values[:-1]):
                out = f"({f} {self.expr(v, s, names)} (fun _ : unit => {out}))"
            return out
        if isinstance(n, ast.Compare) and len(n.ops) == 1 and isinstance(n.ops[0], ast.Is) and isinstance(n.comparators[0], ast.Constant) \
                and n.comparators[0].value in (True, False):
            return f"({'p_is_true' if n.comparators[0].value else 'p_is_false'} {self.expr(n.left, s, names)})"
        raise Unsupported("expression " + ast.unparse(n)[:60])

    def block(self, stmts, s, names, ind, cont):
        """cont(s, names, ind) -> text: what follows the last statement (the next iteration / the epilogue / nothing)"""
        pad = "  " * ind
        if not stmts:
            return cont(s, names, ind)
        st, rest = stmts[0], stmts[1:]
        if is_doc(st) or is_logging(st):
            return self.block(rest, s, names, ind, cont)
        if isinstance(st, ast.Assign) and len(st.targets) == 1 and isinstance(st.targets[0], ast.Name) and st.targets[0].id == "pln":
            return self.block(rest, s, names, ind, cont)          # only used by the logging calls (not in scope for anything else)
        if isinstance(st, ast.Return):
            return pad + f"Some ({s}, {self.expr(st.value, s, names)})"
        if isinstance(st, ast.Expr) and isinstance(st.value, ast.Call):
            src = ast.unparse(st.value)
            op = {"self.clear_errors()": "clear_errors", "self._do_lasts()": "do_lasts"}.get(src)
            if op:
                s1 = self.fresh()
                return pad + f"let {s1} := {op} {s} in\n" + self.block(rest, s1, names, ind, cont)
            raise Unsupported("call statement " + src[:60])
        if isinstance(st, ast.Assign) and len(st.targets) == 1:
            t = st.targets[0]
            if isinstance(t, ast.Attribute) and attr_chain(t) == "self.skip" and ast.unparse(st.value) == "False":
                s1 = self.fresh()
                return pad + f"let {s1} := clear_skip {s} in\n" + self.block(rest, s1, names, ind, cont)
            if isinstance(t, ast.Subscript) and self.in_loop and ast.unparse(t) == "et[1]" and ast.unparse(st.value) in ("True", "False"):
                self.cache_written = True
                out = self.block(rest, s, names, ind, cont)
                return out
            if isinstance(t, ast.Name):
                return pad + f"let {t.id} := {self.expr(st.value, s, names)} in\n" + self.block(rest, s, names | {t.id}, ind, cont)
            raise Unsupported("assignment " + ast.unparse(st)[:60])
        if isinstance(st, ast.If):
            # `et[0].matches(skip=[]) is False` as a test: the component is evaluated, the state moves on
            if self.in_loop and ast.unparse(st.test) == "et[0].matches(skip=[]) is False":
                s1 = self.fresh()
                w = self.cache_written
                b = self.block(st.body + ([] if returns(st.body) else rest), s1, names, ind + 1, cont)
                self.cache_written = w
                o = self.block(st.orelse + ([] if (st.orelse and returns(st.orelse)) else rest), s1, names, ind + 1, cont)
                self.cache_written = w
                return pad + f"let '({s1}, v_) := eval c {s} in\n{pad}if negb v_ then\n{b}\n{pad}else\n{o}"
            w = self.cache_written
            t = self.expr(st.test, s, names)
            b = self.block(st.body + ([] if returns(st.body) else rest), s, names, ind + 1, cont)
            self.cache_written = w
            o = self.block(st.orelse + ([] if (st.orelse and returns(st.orelse)) else rest), s, names, ind + 1, cont)
            self.cache_written = w
            return pad + f"ifo {t}\n{pad} (fun _ : unit =>\n{b})\n{pad} (fun _ : unit =>\n{o})"
        if isinstance(st, ast.If) or isinstance(st, ast.For):
            raise Unsupported("statement " + type(st).__name__)
        raise Unsupported("statement " + type(st).__name__ + ": " + ast.unparse(st)[:60])


def translate(repo):
    tree = ast.parse(open(os.path.join(repo, "csvpath", "matching", "matcher.py"), encoding="utf-8").read())
    cls = next((c for c in tree.body if isinstance(c, ast.ClassDef) and c.name == "Matcher"), None)
    if cls is None:
        raise Unsupported("no class Matcher")
    fn = next((f for f in cls.body if isinstance(f, ast.FunctionDef) and f.name == "matches"), None)
    if fn is None or [a.arg for a in fn.args.args] != ["self"]:
        raise Unsupported("Matcher.matches")
    body = [s for s in fn.body if not is_doc(s) and not is_logging(s)]
    loops = [i for i, s in enumerate(body) if isinstance(s, ast.For)]
    if not loops:
        raise Unsupported("no loop in Matcher.matches")
    li = loops[0]
    loop = body[li]
    if ast.unparse(loop.target) != "(i, et)" or ast.unparse(loop.iter) != "enumerate(self.expressions)" or loop.orelse:
        raise Unsupported("loop header: " + ast.unparse(loop.target) + " in " + ast.unparse(loop.iter))
    pre, post = body[:li], body[li + 1:]
    # the explain dump at the end (logging only): `if self.csvpath.explain: ...` whose body only logs and resets self.explaination
    post2 = []
    for s in post:
        if isinstance(s, ast.If) and ast.unparse(s.test) == "self.csvpath.explain" and not s.orelse:
            ok = all((isinstance(x, ast.For) and all(is_logging(y) for y in x.body)) or is_logging(x) or ast.unparse(x) == "self.explaination = []" for x in s.body)
            if not ok:
                raise Unsupported("the explain block does more than logging")
            continue
        post2.append(s)
    # the prologue's first statement: the blank final record
    if not pre or not isinstance(pre[0], ast.If) or ast.unparse(pre[0].test) != "self.csvpath.line_monitor.is_last_line_and_blank(self.line)" or pre[0].orelse:
        raise Unsupported("prologue: expected `if self.csvpath.line_monitor.is_last_line_and_blank(self.line):`")
    locals_ = []
    for s in pre[1:]:
        if not (isinstance(s, ast.Assign) and len(s.targets) == 1 and isinstance(s.targets[0], ast.Name)):
            raise Unsupported("prologue statement " + ast.unparse(s)[:60])
        locals_.append(s.targets[0].id)
    if locals_ != ["ret", "failed"]:
        raise Unsupported("loop-carried locals " + repr(locals_))
    out = ["(** GENERATED by harness/mat2v.py from csvpath/matching/matcher.py (Matcher.matches) — do not edit.  The matcher's state is abstract:",
           "    stp = self.csvpath.stopped, skp = self.skip, clear_skip = `self.skip = False`, eval = et[0].matches(skip=[]), clear_errors, do_lasts;",
           "    xs = self.expressions, each with its cached answer et[1]; lastblank = line_monitor.is_last_line_and_blank(self.line).  None = Python raised. *)",
           "From Coq Require Import ZArith List Bool.", "From V Require Import Scan.PySem Run.RunSem.", "Import ListNotations.", "Open Scope Z_scope.", "",
           "Section AdjSrc.", "  Variable S : Type.", "  Variable comp : Type.", "  Variable stp : S -> bool.", "  Variable skp : S -> bool.", "  Variable clear_skip : S -> S.",
           "  Variable eval : comp -> S -> S * bool.", "  Variable clear_errors : S -> S.", "  Variable do_lasts : S -> S.", "  Variable AND : bool.", ""]
    names = {"ret", "failed"}
    tr = Tr(True)
    post_text = Tr(False).block(post2, "s", names, 3, lambda s, n, i: "  " * i + f"Some ({s}, PNone)")
    body_text = tr.block(list(loop.body), "s", names, 3, lambda s, n, i: "  " * i + f"matches_loop_src r {s} ret failed")
    out.append("  Fixpoint matches_loop_src (xs : list (comp * pyv)) (s : S) (ret failed : pyv) : option (S * pyv) :=\n    match xs with\n    | [] =>\n" + post_text
               + "\n    | (c, cache) :: r =>\n" + body_text + "\n    end.\n")
    t0 = Tr(False)
    pro = t0.block(pre[0].body, "s", set(), 3, lambda s, n, i: "  " * i + f"Some ({s}, PNone)")
    init = "".join(f"      let {s.targets[0].id} := {t0.expr(s.value, 's', set())} in\n" for s in pre[1:])
    out.append("  Definition matches_src (lastblank : bool) (xs : list (comp * pyv)) (s : S) : option (S * pyv) :=\n    if lastblank then\n" + pro + "\n    else\n" + init
               + "      matches_loop_src xs s ret failed.\n")
    out.append("End AdjSrc.\n")
    return "\n".join(out)


if __name__ == "__main__":
    import sys
    print(translate(sys.argv[1]))
