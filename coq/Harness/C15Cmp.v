(** Correspondence of Meta/MetaModel.v with csvpath/util/metadata_parser.py, and the property's
    own statement about fields, evaluated by vm_compute on generated comments. *)
From Coq Require Import ZArith List Bool.
From V Require Import Csv.CsvModel Data.DataModel Meta.MetaModel Harness.Cmp.
Import ListNotations.
Open Scope Z_scope.

Record c15meta := mkC15M {
  e_text : ustring;                       (* whole csvpath string, stripped *)
  e_path : ustring; e_comment : ustring;  (* implementation: extract_csvpath_and_comment *)
  e_raised : bool;                        (* implementation: collect_metadata raised *)
  e_fields : list (ustring * option ustring);   (* implementation: metadata items in dict order *)
  e_kvs : list (ustring * ustring);       (* the key/value pairs the comment was rendered from (may be empty) *)
  e_body : ustring                        (* the csvpath as written, without the comment *)
}.

Definition field_beq (a b : ustring * option ustring) : bool :=
  ustr_eqb (fst a) (fst b) && opt_beq ustr_eqb (snd a) (snd b).

Definition c15_meta_agree (c : c15meta) : bool :=
  let '(p, cm) := extract_csvpath_and_comment (e_text c) in
  ustr_eqb p (e_path c) && ustr_eqb cm (e_comment c) &&
  match collect_metadata (strip cm) with
  | None => e_raised c
  | Some fs => negb (e_raised c) && list_beq field_beq fs (e_fields c)
  end.

(** the same with the unrepaired comment parser (defect D23): used only to say that a disagreement is that defect again *)
Definition c15_meta_agree_d23 (c : c15meta) : bool :=
  let '(p, cm) := extract_csvpath_and_comment (e_text c) in
  ustr_eqb p (e_path c) && ustr_eqb cm (e_comment c) &&
  match collect_metadata_d23 (strip cm) with
  | None => e_raised c
  | Some fs => negb (e_raised c) && list_beq field_beq fs (e_fields c)
  end.

(** the property: the csvpath is untouched by the comment, whatever the comment says the parse does not fail;
    every rendered field is available *)
Definition c15_meta_spec (c : c15meta) : bool :=
  ustr_eqb (e_path c) (e_body c) && negb (e_raised c) &&
  match e_kvs c with
  | [] => true
  | kvs => negb (e_raised c) &&
           forallb (fun kv : ustring * ustring =>
              match lookup (fst kv) (e_fields c) with
              | Some (Some v) =>
                  (* the last pair with this key wins *)
                  match find (fun kv' : ustring * ustring => ustr_eqb (fst kv') (fst kv)) (rev kvs) with
                  | Some kv' => ustr_eqb v (snd kv')
                  | None => false
                  end
              | _ => false
              end) kvs
  end.
