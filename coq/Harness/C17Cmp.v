(** C17 correspondence: the tree the real parser builds vs the model parser, per layout. *)
From Coq Require Import ZArith List Bool.
From V Require Import Csv.CsvModel Data.DataModel Match.Syntax Harness.Cmp.
Import ListNotations.
Open Scope Z_scope.

Definition ou_beq := opt_beq ustr_eqb.

Fixpoint arg_beq (a b : arg) : bool :=
  match a, b with
  | ATermS x, ATermS y => ustr_eqb x y
  | ATermN n1 i1 f1, ATermN n2 i2 f2 => Bool.eqb n1 n2 && ustr_eqb i1 i2 && ou_beq f1 f2
  | AVar x, AVar y | AHdr x, AHdr y | AHdrQ x, AHdrQ y | ARef x, ARef y | ATermR x, ATermR y => ustr_eqb x y
  | AFun f1 l1, AFun f2 l2 =>
      ustr_eqb f1 f2 && (fix go (l1 l2 : list arg) : bool :=
                           match l1, l2 with [], [] => true | x :: r1, y :: r2 => arg_beq x y && go r1 r2 | _, _ => false end) l1 l2
  | AEq l1 r1, AEq l2 r2 => arg_beq l1 l2 && arg_beq r1 r2
  | _, _ => false
  end.

Definition action_beq (a b : action) : bool :=
  match a, b with
  | ActFun f1 l1, ActFun f2 l2 => arg_beq (AFun f1 l1) (AFun f2 l2)
  | ActAssign v1 r1, ActAssign v2 r2 => ustr_eqb v1 v2 && arg_beq r1 r2
  | _, _ => false
  end.

Definition comp_beq (a b : comp) : bool :=
  match a, b with
  | CLeft x w1, CLeft y w2 => arg_beq x y && opt_beq action_beq w1 w2
  | CEq l1 r1 w1, CEq l2 r2 w2 => arg_beq l1 l2 && arg_beq r1 r2 && opt_beq action_beq w1 w2
  | CAssign v1 r1, CAssign v2 r2 => ustr_eqb v1 v2 && arg_beq r1 r2
  | _, _ => false
  end.

(** names and qualifiers: the implementation reports a node as its name and its qualifiers joined by the
    unit separator (31); the source writes them joined by dots.  Inside a quoted header a dot is part of the name. *)
Definition dots (s : ustring) : ustring := map (fun c => if c =? 46 then 31 else c) s.
Fixpoint canon_arg (a : arg) : arg :=
  match a with
  | AVar s => AVar (dots s) | AHdr s => AHdr (dots s) | ARef s => ARef (dots s)
  | ATermR s => ATermS (47 :: s ++ [47])       (* the Term built for a regex holds the text with its slashes: it looks like that string *)
  | AFun f l => AFun (dots f) ((fix go (l : list arg) : list arg := match l with [] => [] | x :: r => canon_arg x :: go r end) l)
  | AEq l r => AEq (canon_arg l) (canon_arg r)
  | other => other
  end.
Definition canon_action (a : action) : action :=
  match a with ActFun f l => ActFun (dots f) (map canon_arg l) | ActAssign v r => ActAssign (dots v) (canon_arg r) end.
Definition canon_comp (c : comp) : comp :=
  match c with
  | CLeft a w => CLeft (canon_arg a) (option_map canon_action w)
  | CEq l r w => CEq (canon_arg l) (canon_arg r) (option_map canon_action w)
  | CAssign v r => CAssign (dots v) (canon_arg r)
  end.
Definition canon (t : option (list comp)) : option (list comp) := option_map (map canon_comp) t.

Record c17case := mkC17 {
  s_ast : list comp;                       (* the tree the text was assembled from *)
  s_texts : list ustring;                  (* the match part in several layouts *)
  s_real : list (option (list comp));      (* implementation: the tree built for each layout (None: raised or ambiguous) *)
}.

Definition oc_beq := opt_beq (list_beq comp_beq).

(** model parser == real parser on every layout *)
Definition c17_agree (c : c17case) : bool := list_beq oc_beq (map (fun t => canon (parse_text t)) (s_texts c)) (s_real c).
(** the property: every layout gives exactly the tree that was written *)
Definition c17_spec (c : c17case) : bool := forallb (fun r => oc_beq r (canon (Some (s_ast c)))) (s_real c).

(** the character classes of the grammar's name terminals, read from the grammar text of the tree under test and
    evaluated by Python's re on [k_codes], against the model's predicates *)
Record c17cls := mkCls { k_codes : list Z; k_hdr : list bool; k_hq : list bool; k_var : list bool; k_ref : list bool;
                         k_f1 : list bool; k_fr : list bool; k_ws : list bool }.
Definition c17_classes_agree (k : c17cls) : bool :=
  let eqb := list_beq Bool.eqb in
  eqb (map idc (k_codes k)) (k_hdr k) && eqb (map hqc (k_codes k)) (k_hq k) && eqb (map idc (k_codes k)) (k_var k) &&
  eqb (map idc (k_codes k)) (k_ref k) && eqb (map is_letter (k_codes k)) (k_f1 k) && eqb (map idc (k_codes k)) (k_fr k) &&
  eqb (map wsc (k_codes k)) (k_ws k).
