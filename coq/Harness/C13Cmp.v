(** Correspondence of Match/Ctl.v + Match/Adjudicate.v + Run/RunLoop.v with real runs of
    csvpaths from the control fragment, evaluated by vm_compute. *)
From Coq Require Import ZArith List Bool.
From V Require Import Scan.ScanModel Run.RunLoop Match.Adjudicate Match.Ctl Harness.Cmp.
Import ListNotations.
Open Scope Z_scope.

Record c13case := mkC13 {
  k_sc : sc; k_cw : bool; k_comps : list comp; k_blanks : list bool;
  k_exc : bool;
  k_ret : list Z;                       (* implementation: ids of returned records *)
  k_stacks : list (Z * list Z);         (* implementation: stack id -> line numbers pushed *)
  k_scan : Z; k_match : Z; k_stopped : bool
}.

Definition stack_of (l : list (Z * Z)) (i : Z) : list Z := map snd (filter (fun p => fst p =? i) l).

Definition c13_agree (q : bool) (k : c13case) : bool :=
  let o := ctl_run q (k_cw k) (k_sc k) (k_comps k) (k_blanks k) in
  negb (k_exc k)
  && list_beq Z.eqb (map (fun l => hd (-1) l) (returned Z mx o)) (k_ret k)
  && forallb (fun p : Z * list Z => list_beq Z.eqb (stack_of (log (x mx (RunLoop.st Z mx o))) (fst p)) (snd p)) (k_stacks k)
  && (scan_count mx (RunLoop.st Z mx o) =? k_scan k)
  && (match_count mx (RunLoop.st Z mx o) =? k_match k)
  && Bool.eqb (stopped mx (RunLoop.st Z mx o)) (k_stopped k).
