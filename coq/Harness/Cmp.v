(** Helpers shared by the generated correspondence files (cases_*.v). *)
From Coq Require Import ZArith List Bool.
Import ListNotations.
Open Scope Z_scope.

Fixpoint list_beq {A} (eqb : A -> A -> bool) (a b : list A) : bool :=
  match a, b with
  | [], [] => true
  | x :: a', y :: b' => eqb x y && list_beq eqb a' b'
  | _, _ => false
  end.

Definition opt_beq {A} (eqb : A -> A -> bool) (a b : option A) : bool :=
  match a, b with Some x, Some y => eqb x y | None, None => true | _, _ => false end.

(** indices (from 0) of the cases on which [ok] is false *)
Fixpoint bad_from {A} (ok : A -> bool) (i : Z) (l : list A) : list Z :=
  match l with
  | [] => []
  | a :: r => if ok a then bad_from ok (i + 1) r else i :: bad_from ok (i + 1) r
  end.
Definition bad {A} (ok : A -> bool) (l : list A) : list Z := bad_from ok 0 l.
