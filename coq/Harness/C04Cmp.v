(** C04 correspondence: the control/validity fragment on real runs, and the aggregate verdict. *)
From Coq Require Import ZArith List Bool.
From V Require Import Scan.ScanModel Run.RunLoop Match.Adjudicate Match.Ctl Mgr.Aggregate Harness.Cmp Harness.C13Cmp.
Import ListNotations.
Open Scope Z_scope.

Record c04case := mkC04 { v_base : c13case; v_valid : bool }.

Definition c04_agree (k : c04case) : bool :=
  let b := v_base k in
  let o := ctl_run false (k_cw b) (k_sc b) (k_comps b) (k_blanks b) in
  c13_agree false b && Bool.eqb (valid (x mx (RunLoop.st Z mx o))) (v_valid k).

(** the property on the run: the verdict is False exactly when the model says a fail executed *)
Definition c04_spec (k : c04case) : bool :=
  let b := v_base k in
  let o := ctl_run false (k_cw b) (k_sc b) (k_comps b) (k_blanks b) in
  negb (k_exc b) && Bool.eqb (v_valid k) (match fails (x mx (RunLoop.st Z mx o)) with [] => true | _ => false end).

Record c04agg := mkC04A { a_members : list member; a_rm_is_valid : bool; a_manifest_all_valid : bool; a_member_manifest_valid : list bool }.

Definition c04a_agree (a : c04agg) : bool :=
  Bool.eqb (results_manager_is_valid (a_members a)) (a_rm_is_valid a)
  && Bool.eqb (manifest_all_valid (a_members a)) (a_manifest_all_valid a)
  && list_beq Bool.eqb (map m_valid (a_members a)) (a_member_manifest_valid a).

(** the property: both aggregates are the conjunction of the members' verdicts *)
Definition c04a_spec (a : c04agg) : bool :=
  let want := forallb m_valid (a_members a) in
  Bool.eqb want (a_rm_is_valid a) && Bool.eqb want (a_manifest_all_valid a)
  && list_beq Bool.eqb (map m_valid (a_members a)) (a_member_manifest_valid a).
