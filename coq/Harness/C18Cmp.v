(** C18 correspondence: what an aborted real run left on record vs the event model. *)
From Coq Require Import ZArith List Bool.
From V Require Import Mgr.Abort Harness.Cmp.
Import ListNotations.
Open Scope Z_scope.

Record c18member := mkC18M {
  b_dir : bool;                       (* result directory with readable meta/vars/errors *)
  b_completed : option bool;          (* member manifest 'completed' (None: no manifest) *)
  b_error_lines : list Z              (* line numbers in errors.json *)
}.
Record c18case := mkC18 {
  x_byline : bool; x_n : nat; x_i : nat; x_l : Z;
  x_last : list Z;                    (* per member: the last line its scan part reaches in this file *)
  x_raised : bool; x_status_complete : bool;
  x_members : list c18member;
  x_stores_unchanged : bool; x_next_run_ok : bool
}.

Definition scan_last_of (c : c18case) (j : nat) (l : Z) : bool := nth j (x_last c) (-1) =? l.

Definition finished_of (c : c18case) (j : nat) (l : Z) : bool := nth j (x_last c) l <? l.

Definition trace_of (c : c18case) : list ev :=
  if x_byline c then byline_abort (scan_last_of c) (finished_of c) (x_n c) (x_i c) (x_l c) else serial_abort (scan_last_of c) (x_i c) (x_l c).

Definition c18_agree (c : c18case) : bool :=
  let t := trace_of c in
  Bool.eqb (raised t) (x_raised c) && Bool.eqb (status_complete t) (x_status_complete c)
  && Nat.eqb (length (x_members c)) (x_n c)
  && forallb (fun jm : nat * c18member => let (j, m) := jm in
        Bool.eqb (started t j) (b_dir m) && opt_beq Bool.eqb (saved t j) (b_completed m)
        && list_beq Z.eqb (error_lines t j) (b_error_lines m))
     (combine (seq 0 (x_n c)) (x_members c)).

(** the property itself on the implementation's record (completed false for the aborting member) *)
Definition c18_spec (c : c18case) : bool :=
  x_raised c && negb (x_status_complete c) && x_stores_unchanged c && x_next_run_ok c
  && forallb (fun jm : nat * c18member => let (j, m) := jm in
        if negb (Nat.eqb j (x_i c)) && x_byline c && finished_of c j (if Nat.leb j (x_i c) then x_l c else x_l c - 1)
        then b_dir m && opt_beq Bool.eqb (b_completed m) (Some true)          (* breadth-first: a member that finished on an earlier line keeps its complete result *)
        else if Nat.ltb j (x_i c) then (if x_byline c then b_dir m else b_dir m && opt_beq Bool.eqb (b_completed m) (Some true))
        else if Nat.eqb j (x_i c) then b_dir m && existsb (Z.eqb (x_l c)) (b_error_lines m) && opt_beq Bool.eqb (b_completed m) (Some false)
        else (if x_byline c then b_dir m else true))
     (combine (seq 0 (x_n c)) (x_members c)).
