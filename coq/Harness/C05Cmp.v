(** Correspondence of Match/Errors.v with ErrorHandler._handle_if called directly. *)
From Coq Require Import ZArith List Bool.
From V Require Import Match.Errors Harness.Cmp.
Import ListNotations.
Open Scope Z_scope.

Record c05k := mkC05K {
  kp : policy; kv : vmode; kvalid0 : bool; kstopped0 : bool;
  (* implementation *)
  kout : Z;                  (* 0 returned, 1 MatchException, 2 any other exception *)
  kerrors : Z; kstopped : bool; kvalid : bool; kprinted : Z
}.

Definition c05k_agree (q : bool) (k : c05k) : bool :=
  let s0 := mkHs [] (kstopped0 k) (kvalid0 k) [] in
  let chk (s : hstate) := (Z.of_nat (length (h_errors s)) =? kerrors k) && Bool.eqb (h_stopped s) (kstopped k)
                          && Bool.eqb (h_valid s) (kvalid k) && (Z.of_nat (length (h_printed s)) =? kprinted k) in
  match handle q (kp k) (kv k) s0 7 with
  | Done s => (kout k =? 0) && chk s
  | Raised s => (kout k =? 1) && chk s
  | Crashed s => (kout k =? 2) && chk s
  end.

(** the property on the implementation's answers: each effect iff its flag *)
Definition c05k_spec (k : c05k) : bool :=
  let p := kp k in let v := kv k in
  (kout k =? (if flag (v_raise v) (p_raise p) then 1 else 0))
  && (kerrors k =? (if p_collect p then 1 else 0))
  && Bool.eqb (kstopped k) (kstopped0 k || flag (v_stop v) (p_stop p))
  && Bool.eqb (kvalid k) (kvalid0 k && negb (flag (v_fail v) (p_fail p)))
  && (kprinted k =? (if flag (v_print v) (p_print p) then 1 else 0)).
