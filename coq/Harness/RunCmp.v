(** Correspondence of Run/RunLoop.v with CsvPath.next()/collect()/fast_forward(): the real
    matcher's per-line answers and effects (recorded by wrapping CsvPath.matches) are replayed
    as the model's matcher; everything the run loop itself decides must then coincide. *)
From Coq Require Import ZArith List Bool.
From V Require Import Scan.ScanModel Run.RunLoop Harness.Cmp.
Import ListNotations.
Open Scope Z_scope.

Record mrow := mkM { m_line : Z; m_vote : bool; m_stopped : bool; m_adv : Z; m_mc : Z }.

Definition tab_m (tab : list mrow) (s : rs unit) (l : line Z) : rs unit * bool :=
  match find (fun r => m_line r =? pln unit s) tab with
  | Some r => (mkRs unit (pln unit s) (scan_count unit s) (m_mc r) (cur_mc unit s) (m_adv r)
                    (m_stopped r) (frozen unit s) tt, m_vote r)
  | None => (s, false)
  end.

Record runcase := mkRun {
  rc_scanner : sc;
  rc_blank : list bool;
  rc_cwnm : bool; rc_unm : bool; rc_will_run : bool;
  rc_method : Z;            (* 0 collect, 1 next, 2 fast_forward, 3 collect(nexts=k) *)
  rc_k : nat;
  rc_tab : list mrow;
  (* implementation *)
  rc_ret : list Z; rc_unmatched : list Z; rc_scan : Z; rc_match : Z; rc_stopped : bool
}.

Definition recs_of (bl : list bool) : list (line Z) :=
  map (fun ib : Z * bool => if snd ib then [] else [fst ib]) (number 0 bl).

Definition run_model (q : bool) (r : runcase) : ls Z unit :=
  let recs := recs_of (rc_blank r) in
  let c := mkCfg (rc_scanner r) q (end_of Z recs) (rc_cwnm r) false (rc_unm r) (rc_will_run r) in
  let m := tab_m (rc_tab r) in
  if rc_method r =? 0 then collect Z unit m c tt recs
  else if rc_method r =? 1 then next_all Z unit m c tt recs
  else if rc_method r =? 2 then fast_forward Z unit m c tt recs
  else collect_n Z unit m (rc_k r) c tt recs.

Definition ids (l : list (line Z)) : list Z := map (fun x => hd (-1) x) l.

Definition run_agree (q : bool) (r : runcase) : bool :=
  let o := run_model q r in
  (if rc_method r =? 2 then true else list_beq Z.eqb (ids (returned Z unit o)) (rc_ret r))
  && list_beq Z.eqb (ids (unmatched Z unit o)) (rc_unmatched r)
  && (scan_count unit (st Z unit o) =? rc_scan r)
  && (match_count unit (st Z unit o) =? rc_match r)
  && Bool.eqb (stopped unit (st Z unit o)) (rc_stopped r).
