(** C09 correspondence: bytes of data.csv / unmatched.csv vs the modelled writer, parse-back vs
    the in-memory lines, and the two manifests vs the in-memory verdicts. *)
From Coq Require Import ZArith List Bool.
From V Require Import Csv.CsvModel Data.DataModel Mgr.Archive Harness.Cmp.
Import ListNotations.
Open Scope Z_scope.

Definition rows_beq := list_beq (list_beq ustr_eqb).

Record c09member := mkC09M {
  a_lines : list (list ustring); a_data : option ustring;         (* in memory; bytes of data.csv (None: no file) *)
  a_unmatched : list (list ustring); a_unm : option ustring;
  a_printouts : list ustring; a_ptxt : option ustring;
  a_valid : bool; a_completed : bool; a_errors : nat;
  a_man_valid : bool; a_man_completed : bool; a_man_errors : nat;  (* member manifest *)
  a_fp_ok : bool                                                    (* every fingerprint = sha256 of the bytes now on disk, keys = files present *)
}.

Definition file_ok (rows : list (list ustring)) (bytes : option ustring) : bool :=
  match rows, bytes with
  | [], None => true
  | _ :: _, Some b => ustr_eqb (csv_write std rows) b && rows_beq (read_file std b) rows
  | _, _ => false
  end.

Definition c09m_ok (m : c09member) : bool :=
  file_ok (a_lines m) (a_data m) && file_ok (a_unmatched m) (a_unm m)
  && (match a_printouts m, a_ptxt m with
      | [], None => true
      | _ :: _, Some t => ustr_eqb (printouts_text (a_printouts m)) t
      | _, _ => false end)
  && Bool.eqb (a_valid m) (a_man_valid m) && Bool.eqb (a_completed m) (a_man_completed m) && Nat.eqb (a_errors m) (a_man_errors m)
  && a_fp_ok m.

Record c09case := mkC09 {
  r_members : list c09member;
  r_status_complete : bool; r_all_valid : bool; r_all_completed : bool; r_error_count : nat
}.

Definition c09_ok (c : c09case) : bool :=
  forallb c09m_ok (r_members c)
  && r_status_complete c
  && Bool.eqb (r_all_valid c) (forallb a_valid (r_members c))
  && Bool.eqb (r_all_completed c) (forallb a_completed (r_members c))
  && Nat.eqb (r_error_count c) (fold_right (fun m n => (a_errors m + n)%nat) O (r_members c)).
