(** C10 correspondence: histories of named-paths runs with an injected clock. *)
From Coq Require Import ZArith List Bool.
From V Require Import Mgr.RunDirs Harness.Cmp.
Import ListNotations.
Open Scope Z_scope.

Record c10case := mkC10 {
  c_runs : list run;
  c_raised : bool;
  c_chosen : list rundir;                 (* implementation: archive/<name>/<dir> each run wrote its results to *)
  c_touched : list bool;                  (* implementation: per run, did a file that existed before the run change or vanish? *)
  c_last : list (option (Z * dirname));   (* implementation: per run, what '$<its group>.results.<year>:last.<id>' resolved to (None: not asked) *)
  c_first : list (option (Z * dirname));
  c_listing : list (list dirname)         (* implementation: per run, os.listdir(archive/<its group>) after the run, in listing order *)
}.

(** the resolver itself: ResultsManager._find_in_dir_names on the names actually present *)
Definition c10_resolve_agree (c : c10case) : bool :=
  forallb (fun t : list dirname * (option (Z * dirname) * option (Z * dirname)) =>
     let '(names, (ol, of)) := t in
     (match ol with Some (_, got) => opt_beq dir_eqb (find_in_dir_names [2026] names true) (Some got) | None => true end)
     && (match of with Some (_, got) => opt_beq dir_eqb (find_in_dir_names [2026] names false) (Some got) | None => true end))
    (combine (c_listing c) (combine (c_last c) (c_first c))).

Definition rdl_beq := list_beq rd_eqb.

Definition c10_agree (q12 qreuse : bool) (c : c10case) : bool :=
  negb (c_raised c) && rdl_beq (h_chosen (history q12 qreuse (c_runs c))) (c_chosen c).

Fixpoint distinct (l : list rundir) : bool :=
  match l with [] => true | x :: r => negb (existsb (rd_eqb x) r) && distinct r end.

(** latest / earliest run of group g among the first n runs, by run time (None when two of them share a second) *)
Fixpoint pick_extreme (latest : bool) (g : Z) (rs : list (run * rundir)) (best : option (run * rundir)) (ambiguous : bool) : option rundir :=
  match rs with
  | [] => if ambiguous then None else option_map snd best
  | (r, d) :: rest =>
      if negb (r_group r =? g) then pick_extreme latest g rest best ambiguous
      else match best with
           | None => pick_extreme latest g rest (Some (r, d)) ambiguous
           | Some (b, bd) =>
               if time_lt (r_time b) (r_time r) then pick_extreme latest g rest (if latest then Some (r, d) else best) ambiguous
               else if time_lt (r_time r) (r_time b) then pick_extreme latest g rest (if latest then best else Some (r, d)) ambiguous
               else pick_extreme latest g rest best true
           end
      end.

(** the property on the implementation's answers *)
Definition c10_spec (c : c10case) : bool :=
  negb (c_raised c)
  && distinct (c_chosen c)
  && list_beq Z.eqb (map fst (c_chosen c)) (map r_group (c_runs c))
  && forallb negb (c_touched c)
  && forallb (fun t : nat * (option (Z * dirname) * option (Z * dirname)) =>
       let '(n, (ol, of)) := t in
       let seen := firstn (S n) (combine (c_runs c) (c_chosen c)) in
       let g := match nth_error (c_runs c) n with Some r => r_group r | None => 0 end in
       (match ol, pick_extreme true g seen None false with
        | Some got, Some want => rd_eqb got want
        | _, _ => true end)
       && (match of, pick_extreme false g seen None false with
           | Some got, Some want => rd_eqb got want
           | _, _ => true end))
     (combine (seq 0 (length (c_runs c))) (combine (c_last c) (c_first c))).
