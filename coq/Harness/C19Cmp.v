(** C19 correspondence: the header cache's write/read pair on real header rows. *)
From Coq Require Import ZArith List Bool.
From V Require Import Csv.CsvModel Data.DataModel Mgr.Archive Mgr.Cache Harness.Cmp.
Import ListNotations.
Open Scope Z_scope.

Record c19k := mkC19K {
  hk_headers : list ustring;            (* the headers LineCounter computed *)
  hk_text : ustring;                    (* implementation: bytes of cache/<sha>.csv as written *)
  hk_back : list ustring                (* implementation: what a fresh FileCacher reads back *)
}.
Definition ulist_beq := list_beq ustr_eqb.
Definition c19k_agree (q : bool) (k : c19k) : bool :=
  ustr_eqb (encode q (hk_headers k)) (hk_text k) && ulist_beq (decode (hk_text k)) (hk_back k).
(** the property: the cached headers are the computed headers *)
Definition c19k_spec (k : c19k) : bool := ulist_beq (hk_headers k) (hk_back k).
