(** C01 / C03 correspondence: CORE programs on real files vs the CORE model. *)
From Coq Require Import ZArith List Bool.
From V Require Import Csv.CsvModel Data.DataModel Scan.ScanModel Run.RunLoop Match.Core Harness.Cmp.
Import ListNotations.
Open Scope Z_scope.

Record c01case := mkC01 {
  p_sc : sc; p_and : bool; p_cw : bool; p_comps : list comp; p_rows : list (list ustring);
  p_exc : bool;
  p_ret : list (list ustring);               (* implementation: collect() *)
  p_vars : list (Z * value);                 (* implementation: final plain variables, by variable id *)
  p_stacks : list (Z * list value);          (* implementation: final stack variables *)
  p_dicts : list (Z * list (ustring * value)); (* implementation: final dictionary (tracking-keyed) variables, entries in insertion order *)
  p_scan : Z; p_match : Z
}.

Definition value_beq (a b : value) : bool :=
  match a, b with
  | VI x, VI y | VF x, VF y => x =? y
  | VS x, VS y => ustr_eqb x y
  | VNone, VNone => true
  | _, _ => false
  end.

Definition lines_beq := list_beq (list_beq ustr_eqb).

Definition c01_lines (q : quirks) (c : c01case) : bool :=
  let o := core_run q (p_and c) (p_cw c) (p_sc c) (p_comps c) (p_rows c) in
  negb (p_exc c) && lines_beq (returned ustring mx o) (p_ret c).

Definition c03_state (q : quirks) (c : c01case) : bool :=
  let o := core_run q (p_and c) (p_cw c) (p_sc c) (p_comps c) (p_rows c) in
  let m := x mx (st ustring mx o) in
  negb (p_exc c)
  && forallb (fun kv : Z * value => match lookup (fst kv) (vars m) with Some v => value_beq v (snd kv) | None => false end) (p_vars c)
  && Nat.eqb (length (vars m)) (length (p_vars c))
  && forallb (fun kv : Z * list value => match lookup (fst kv) (stacks m) with Some v => list_beq value_beq v (snd kv) | None => false end) (p_stacks c)
  && Nat.eqb (length (stacks m)) (length (p_stacks c))
  && forallb (fun kv : Z * list (ustring * value) =>
                match lookup (fst kv) (dicts m) with
                | Some d => list_beq (fun a b : ustring * value => ustr_eqb (fst a) (fst b) && value_beq (snd a) (snd b)) d (snd kv)
                | None => false end) (p_dicts c)
  && Nat.eqb (length (dicts m)) (length (p_dicts c))
  && (scan_count mx (st ustring mx o) =? p_scan c) && (match_count mx (st ustring mx o) =? p_match c).
