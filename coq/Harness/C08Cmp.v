(** C08 correspondence: a breadth-first run replayed through Mgr/Group.byline with each member's
    recorded matcher answers; the members' lines/counters and the caller's lines must coincide. *)
From Coq Require Import ZArith List Bool.
From V Require Import Scan.ScanModel Run.RunLoop Mgr.Group Harness.Cmp Harness.RunCmp.
Import ListNotations.
Open Scope Z_scope.

Record gmember := mkGM {
  gm_sc : sc; gm_cwnm : bool; gm_will_run : bool; gm_tab : list mrow;
  (* implementation *)
  gm_ret : list Z; gm_scan : Z; gm_match : Z; gm_stopped : bool
}.

Record c08case := mkC08 {
  g_blank : list bool; g_agree : bool; g_members : list gmember;
  g_yielded : list Z                       (* implementation: ids of the records next_by_line yielded *)
}.

Definition to_member (recs : list (line Z)) (g : gmember) : member Z unit :=
  (tab_m (gm_tab g), mkCfg (gm_sc g) false (end_of Z recs) (gm_cwnm g) true false (gm_will_run g)).

Definition c08_agree (c : c08case) : bool :=
  let recs := recs_of (g_blank c) in
  let '(sts, out) := byline Z unit (g_agree c) (map (to_member recs) (g_members c)) tt recs in
  list_beq Z.eqb (ids out) (g_yielded c)
  && Nat.eqb (length sts) (length (g_members c))
  && forallb (fun p : ls Z unit * gmember => let (a, g) := p in
        list_beq Z.eqb (ids (returned Z unit a)) (gm_ret g)
        && (scan_count unit (st Z unit a) =? gm_scan g) && (match_count unit (st Z unit a) =? gm_match g)
        && Bool.eqb (stopped unit (st Z unit a)) (gm_stopped g)) (combine sts (g_members c)).

(** next_by_line collects nothing per member: compare the caller's lines and the members' counters *)
Definition c08_agree_counts (c : c08case) : bool :=
  let recs := recs_of (g_blank c) in
  let '(sts, out) := byline Z unit (g_agree c) (map (to_member recs) (g_members c)) tt recs in
  list_beq Z.eqb (ids out) (g_yielded c)
  && Nat.eqb (length sts) (length (g_members c))
  && forallb (fun p : ls Z unit * gmember => let (a, g) := p in
        (scan_count unit (st Z unit a) =? gm_scan g) && (match_count unit (st Z unit a) =? gm_match g)
        && Bool.eqb (stopped unit (st Z unit a)) (gm_stopped g)) (combine sts (g_members c)).
