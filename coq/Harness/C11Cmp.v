(** C11 correspondence: the named-files state machine run (with sha := identity on content ids,
    which is injective) against a real FileManager, observation after every operation. *)
From Coq Require Import ZArith List Bool.
From V Require Import Mgr.FileStore Harness.Cmp.
Import ListNotations.
Open Scope Z_scope.

Definition idsha (z : Z) : Z := z.
Definition names := [0; 1].
Definition srcids := [0; 1].
Definition contents := [0; 1; 2].
Definition src0 (k : Z) : Z := k.      (* source file k initially holds content k *)

Definition oz (o : option Z) : Z := match o with Some z => z | None => -1 end.

(** canonical flat observation of everything under inputs/named_files *)
Definition obs_name (s : state) (n : Z) : list Z :=
  match mans s n with
  | None => [0]
  | Some m =>
      [1; Z.of_nat (length m)] ++ flat_map (fun e => [e_src e; e_fp e]) m
      ++ (match get_named_file s n with Some (_, sr, d) => [sr; d] | None => [-1; -1] end)
  end
  ++ flat_map (fun sr => map (fun d => oz (files s (n, sr, d))) contents) srcids.
Definition obs (s : state) : list Z := flat_map (obs_name s) names.

Fixpoint run_obs (s : state) (ops : list op) : list (list Z) :=
  match ops with [] => [] | o :: r => let s' := step idsha s o in obs s' :: run_obs s' r end.

(** the same observation derived from the abstract specification alone *)
Definition sobs_name (t : spec) (n : Z) (stored : Z -> Z -> Z -> bool) : list Z :=
  match sp_versions t n with
  | None => [0]
  | Some v =>
      [1; Z.of_nat (length v)] ++ flat_map (fun sc : Z * Z => [fst sc; snd sc]) v
      ++ (match last_version v with Some (sr, c) => [sr; c] | None => [-1; -1] end)
  end
  ++ flat_map (fun sr => map (fun d => if stored n sr d then d else -1) contents) srcids.

(** which (name, source, content) were ever registered since the name's last removal *)
Fixpoint spec_obs_run (t : spec) (stored : Z -> Z -> Z -> bool) (ops : list op) : list (list Z) :=
  match ops with
  | [] => []
  | o :: r =>
      let t' := spec_step t o in
      let stored' := match o with
                     | Add n sr => fun a b c => ((a =? n) && (b =? sr) && (c =? sp_srcs t sr)) || stored a b c
                     | Remove n => fun a b c => if a =? n then false else stored a b c
                     | _ => stored
                     end in
      flat_map (fun n => sobs_name t' n stored') names :: spec_obs_run t' stored' r
  end.

Record c11case := mkC11 { h_ops : list op; h_obs : list (list Z) }.

Definition c11_agree (c : c11case) : bool := list_beq (list_beq Z.eqb) (run_obs (init src0) (h_ops c)) (h_obs c).
Definition c11_spec (c : c11case) : bool :=
  list_beq (list_beq Z.eqb) (spec_obs_run (spec_init src0) (fun _ _ _ => false) (h_ops c)) (h_obs c).
