(** Correspondence and spec comparisons for C02, evaluated by vm_compute on generated cases. *)
From Coq Require Import ZArith List Bool.
From V Require Import Scan.ScanModel Scan.ScanSpec Run.RunLoop Harness.Cmp.
Import ListNotations.
Open Scope Z_scope.

(** kernel level: Scanner.parse + includes/is_last tables *)
Record kcase := mkK {
  k_ast : sast; k_sh : option shape; k_lines : list Z; k_end : option Z;
  k_perr : bool;              (* the implementation's parse raised *)
  k_inc : list bool;          (* implementation: includes(l) for l in k_lines *)
  k_last : list bool          (* implementation: is_last(l) *)
}.

Definition kagree (q : bool) (k : kcase) : bool :=
  match parse q (k_ast k) with
  | None => k_perr k
  | Some s => negb (k_perr k)
              && list_beq Bool.eqb (map (includes s) (k_lines k)) (k_inc k)
              && list_beq Bool.eqb (map (is_last q s (k_end k)) (k_lines k)) (k_last k)
  end.

Definition le_end (e : option Z) (l : Z) : bool := match e with Some E => l <=? E | None => true end.

(** the property itself on the implementation's answers: includes = denotes, and an is_last
    answer of True is followed by no denoted line up to the end of the file *)
Definition kspec (k : kcase) : bool :=
  match k_sh k with
  | None => true
  | Some sh =>
      negb (k_perr k)
      && list_beq Bool.eqb (map (denotes sh) (k_lines k)) (k_inc k)
      && forallb (fun lb : Z * bool => let (l, b) := lb in
            negb b || forallb (fun l' => (l' <=? l) || negb (le_end (k_end k) l') || negb (denotes sh l')) (k_lines k))
           (combine (k_lines k) (k_last k))
  end.

Definition kshape_ok (k : kcase) : bool :=
  match k_sh k with
  | None => true
  | Some sh => let (t, r) := ast_of sh in let (t', r') := k_ast k in
      (match t, t' with TNum a, TNum b => a =? b | TNumStar a, TNumStar b => a =? b | TStar, TStar => true | _, _ => false end)
      && list_beq (fun x y : sop * term =>
           (match fst x, fst y with Plus, Plus => true | Minus, Minus => true | _, _ => false end)
           && (match snd x, snd y with TNum a, TNum b => a =? b | TNumStar a, TNumStar b => a =? b | TStar, TStar => true | _, _ => false end)) r r'
  end.

(** run level: a real collect() with [yes()] *)
Record rcase := mkR {
  r_ast : sast; r_sh : option shape;
  r_blank : list bool;        (* per record: is it blank *)
  r_err : bool;               (* implementation raised *)
  r_ret : list Z;             (* implementation: indices of returned records *)
  r_sc : Z                    (* implementation: scan_count *)
}.

Definition yes_m (s : rs unit) (l : line Z) : rs unit * bool := (s, true).

Definition recs_of (bl : list bool) : list (line Z) :=
  map (fun ib : Z * bool => if snd ib then [] else [fst ib]) (number 0 bl).

Definition rmodel (q : bool) (r : rcase) : option (list Z * Z) :=
  match parse q (r_ast r) with
  | None => None
  | Some s =>
      let recs := recs_of (r_blank r) in
      let c := mkCfg s q (end_of Z recs) false true false true in
      let out := collect Z unit yes_m c tt recs in
      Some (map (fun l => hd (-1) l) (returned Z unit out), scan_count unit (st Z unit out))
  end.

Definition ragree (q : bool) (r : rcase) : bool :=
  match rmodel q r with
  | None => r_err r
  | Some (ret, scn) => negb (r_err r) && list_beq Z.eqb ret (r_ret r) && (scn =? r_sc r)
  end.

Definition rspec (r : rcase) : bool :=
  match r_sh r with
  | None => true
  | Some sh =>
      let want := map fst (filter (fun ib : Z * bool => denotes sh (fst ib) && negb (snd ib)) (number 0 (r_blank r))) in
      negb (r_err r) && list_beq Z.eqb want (r_ret r) && (Z.of_nat (length want) =? r_sc r)
  end.
