(** C20: references against the model (Mgr/Chain.v), evaluated by vm_compute on the scenarios the harness ran. *)
From Coq Require Import ZArith List Bool.
From V Require Import Csv.CsvModel Data.DataModel Mgr.Archive Mgr.Chain Harness.Cmp.
Import ListNotations.
Open Scope Z_scope.

Definition row_beq := list_beq ustr_eqb.
Definition rows_beq := list_beq row_beq.

Record c20ref := mkC20R {
  r_headers : list ustring;            (* the referenced member's headers *)
  r_collected : rows;                  (* the lines its most recent run collected *)
  r_hname : ustring;                   (* $g.headers.<hname> *)
  r_hgot : option (list ustring);      (* implementation: what the header reference evaluated to *)
  r_replayed : option rows;            (* implementation: what a run over the results reference collected with [*][yes()] *)
  r_chain : option (rows * rows)       (* implementation: a [drop record 1; preceding yes()] chain over the results reference *)
}.

Definition drop1 (i : rows) : rows := match i with a :: _ :: r => a :: r | x => x end.

Definition c20_ref_agree (c : c20ref) : bool :=
  (match r_hgot c, header_ref (r_headers c) (r_hname c) (r_collected c) with
   | Some g, Some m => row_beq g m
   | None, _ => true                     (* not evaluated in this scenario *)
   | Some _, None => false
   end)
  && (match r_replayed c, replay_input (r_collected c) with
      | Some g, Some m => rows_beq g m
      | None, _ => true
      | Some _, None => false
      end)
  && (match r_chain c with
      | Some (c1, c2) =>
          match replay_chain (r_collected c) [mkStage false drop1; mkStage true (fun i => i)] with
          | Collected [m1; m2] => rows_beq c1 m1 && rows_beq c2 m2
          | _ => false
          end
      | None => true
      end).
