(** Correspondence for C14: the decision kernel called directly, and whole runs. *)
From Coq Require Import ZArith List Bool.
From V Require Import Match.Assign Harness.Cmp.
Import ListNotations.
Open Scope Z_scope.

Definition aval_beq (a b : aval) : bool :=
  match a, b with
  | ANone, ANone => true | AInt x, AInt y => x =? y | AStr x, AStr y => str_eqb x y | _, _ => false end.

(** direct call of Equality._do_assignment_new_impl with a recording matcher *)
Record c14k := mkC14K {
  kq : quals; klm : bool; kcur : aval; ky : aval;
  kraised : bool; kwrote : bool; kret : bool
}.
Definition c14k_agree (k : c14k) : bool :=
  match do_assignment (kq k) (klm k) (kcur k) (ky k) with
  | None => kraised k
  | Some (w, v) => negb (kraised k) && Bool.eqb w (kwrote k) && Bool.eqb v (kret k)
  end.
(** the documented table on the implementation's answers *)
Definition c14k_spec (k : c14k) : bool :=
  if comparable (kcur k) (ky k)
  then negb (kraised k) && Bool.eqb (write (kq k) (klm k) (kcur k) (ky k)) (kwrote k)
       && Bool.eqb (vote (kq k) (klm k) (kcur k) (ky k)) (kret k)
  else true.

(** a real csvpath  [ @x.<quals> = #a  <rest> ]  over a file *)
Record c14r := mkC14R {
  rq : quals; rrows : list arow;
  rraised : bool;
  rout : list (bool * aval)        (* implementation: per line (returned?, x after the line) *)
}.
Definition out_beq (a b : bool * aval) : bool := Bool.eqb (fst a) (fst b) && aval_beq (snd a) (snd b).
Definition c14r_agree (r : c14r) : bool :=
  match assign_run (rq r) (rrows r) with
  | None => rraised r
  | Some o => negb (rraised r) && list_beq out_beq o (rout r)
  end.

(** the property stated directly on the observed run: walk the lines with the table *)
Fixpoint spec_walk (q : quals) (cur : aval) (rows : list arow) (obs : list (bool * aval)) : bool :=
  match rows, obs with
  | [], [] => true
  | r :: rows', (ret, xv) :: obs' =>
      let w := write q (a_rest r) cur (a_y r) in
      let v := vote q (a_rest r) cur (a_y r) in
      let cur' := if w then a_y r else cur in
      (if comparable cur (a_y r) then Bool.eqb ret (v && a_rest r) && aval_beq xv cur' else true)
      && (if comparable cur (a_y r) then spec_walk q xv rows' obs' else true)
  | _, _ => false
  end.
Definition c14r_spec (r : c14r) : bool := rraised r || spec_walk (rq r) ANone (rrows r) (rout r).
