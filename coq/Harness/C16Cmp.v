(** C16 correspondence: printed entries of real runs vs the print model and vs verbatim substitution. *)
From Coq Require Import ZArith List Bool.
From V Require Import Csv.CsvModel Data.DataModel Match.Print Match.PrintProofs Harness.Cmp.
Import ListNotations.
Open Scope Z_scope.

Record c16case := mkC16 {
  t_template : ustring;
  t_chunks : list chunk;                   (* how the generator built the template *)
  t_envs : list env;                       (* per executed line: the values current when print ran *)
  t_printed : list ustring                 (* implementation: the entries the printer received, in order *)
}.

Definition oustr_beq := opt_beq ustr_eqb.

Definition c16_agree (q : bool) (c : c16case) : bool :=
  list_beq oustr_beq (map (fun e => print_model q e (t_template c)) (t_envs c)) (map Some (t_printed c)).

(** the property: one entry per execution, the template verbatim with each reference replaced by its current value *)
Definition c16_spec (c : c16case) : bool :=
  ustr_eqb (render (t_chunks c)) (t_template c)
  && list_beq oustr_beq (map (fun e => subst e (t_chunks c)) (t_envs c)) (map Some (t_printed c)).

(** once / onmatch: which lines print *)
Record c16q := mkC16Q { u_q : pq; u_matches : list bool; u_printed_on : list bool }.
Definition c16q_agree (c : c16q) : bool := list_beq Bool.eqb (print_run (u_q c) false (u_matches c)) (u_printed_on c).

(** the character classes of the print grammar's terminals, read from the grammar text of the tree under test and
    evaluated by Python's re on [g_codes], against the model's predicates *)
Record c16cls := mkCls16 { g_codes : list Z; g_text : list bool; g_root : list bool; g_simple : list bool; g_quoted : list bool }.
Definition c16_classes_agree (k : c16cls) : bool :=
  let eqb := list_beq Bool.eqb in
  eqb (map (fun c => negb ((c =? DOLLAR) || is_ws c)) (g_codes k)) (g_text k) &&
  eqb (map (fun c => negb ((c =? DOT) || (c =? DOLLAR))) (g_codes k)) (g_root k) &&
  eqb (map name_char (g_codes k)) (g_simple k) &&
  eqb (map (fun c => negb (c =? 39)) (g_codes k)) (g_quoted k).
