(** C12 correspondence: group file text, get_named_paths, identities, selection, manifest. *)
From Coq Require Import ZArith List Bool.
From V Require Import Csv.CsvModel Data.DataModel Meta.MetaModel Mgr.PathsStore Harness.Cmp.
Import ListNotations.
Open Scope Z_scope.

Record c12case := mkC12 {
  g_paths : list ustring;                    (* what was added *)
  g_want : list ustring;                     (* the identity each member was written with ([] = none) *)
  g_file : ustring;                          (* implementation: text of group.csvpaths *)
  g_got : list ustring;                      (* implementation: get_named_paths(name) *)
  g_ids : list (option ustring);             (* implementation: identities (None: raised) *)
  g_sel : list (ustring * option ustring * list ustring * list ustring)   (* per distinct identity: name#id (None: raised), :to, :from *)
}.

Definition ulist_beq := list_beq ustr_eqb.

Definition idl (c : c12case) : list (ustring * ustring) :=
  combine (map (fun o => match o with Some i => i | None => [] end) (g_ids c)) (g_got c).

Definition c12_agree (c : c12case) : bool :=
  ustr_eqb (str_from_list (g_paths c)) (g_file c)
  && ulist_beq (stored_paths (g_file c)) (g_got c)
  && list_beq (opt_beq ustr_eqb) (map identity_of_path (g_got c)) (g_ids c)
  && forallb (fun t : ustring * option ustring * list ustring * list ustring =>
       let '(id, one, to, from) := t in
       opt_beq ustr_eqb (find_one ustring ustr_eqb id (idl c)) one
       && ulist_beq (get_to ustring ustr_eqb id (idl c)) to
       && ulist_beq (get_from ustring ustr_eqb id (idl c)) from) (g_sel c).

(** the property on the implementation's answers *)
Fixpoint first_index (id : ustring) (ids : list ustring) (i : nat) : option nat :=
  match ids with [] => None | x :: r => if ustr_eqb x id then Some i else first_index id r (S i) end.

Definition c12_spec (c : c12case) : bool :=
  ulist_beq (map strip (g_got c)) (map strip (g_paths c))
  && list_beq (opt_beq ustr_eqb) (map Some (g_want c)) (g_ids c)
  && forallb (fun t : ustring * option ustring * list ustring * list ustring =>
       let '(id, one, to, from) := t in
       match first_index id (g_want c) 0 with
       | Some k =>
           opt_beq ustr_eqb (nth_error (g_got c) k) one
           && ulist_beq (firstn (S k) (g_got c)) to && ulist_beq (skipn k (g_got c)) from
       | None => true
       end) (g_sel c).

(** histories: the manifest gains one entry per change of the group file, none for an identical re-add *)
Record c12hist := mkC12H {
  hh_ops : list pop;                          (* paths are given as one-element texts: the id of the list *)
  hh_obs : list (list (Z * list Z))           (* after each op, per name 0,1: (current group-file id or -1, manifest fingerprint ids) *)
}.
Definition idsha (g : ustring) : Z := Z.of_nat (length g).     (* the harness gives list number k a k-path list: injective on the cases *)
Fixpoint hist_run (s : pstore) (ops : list pop) : list (list (Z * list Z)) :=
  match ops with
  | [] => []
  | o :: r => let s' := pstep idsha s o in
              map (fun n => (match ps_file s' n with Some g => idsha g | None => -1 end, ps_man s' n)) [0; 1] :: hist_run s' r
  end.
Definition c12h_agree (h : c12hist) : bool :=
  list_beq (list_beq (fun a b : Z * list Z => (fst a =? fst b) && list_beq Z.eqb (snd a) (snd b)))
           (hist_run (mkPS (fun _ => None) (fun _ => [])) (hh_ops h)) (hh_obs h).

(** source-derived: every string constant of paths_manager.py that mentions the marker is either the marker itself or the
    marker between two pairs of newlines (what the store writes between members), as in the model *)
Record c12src := mkC12S { m_exact : list ustring; m_joined : list ustring }.
Definition c12_marker_agree (c : c12src) : bool :=
  match m_exact c, m_joined c with
  | _ :: _, _ :: _ => forallb (ustr_eqb MARKER) (m_exact c) && forallb (ustr_eqb ([NL; NL] ++ MARKER ++ [NL; NL])) (m_joined c)
  | _, _ => false
  end.
