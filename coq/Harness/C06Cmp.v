(** Correspondence and spec comparison for C06, evaluated by vm_compute on generated cases. *)
From Coq Require Import ZArith List Bool.
From V Require Import Csv.CsvModel Data.DataModel Harness.Cmp Mgr.LinePass.
Import ListNotations.
Open Scope Z_scope.

Inductive probe := ByIndex (i : nat) | ByName (n : ustring).

Record c06case := mkC06 {
  c_d : dialect;
  c_rows : list (list ustring);             (* the generated rows *)
  c_text : ustring;                         (* the file as real csv.writer wrote it *)
  c_exc : bool;                             (* implementation raised *)
  c_lines : list (list ustring);            (* implementation: collect() of [*][yes()-like pushes] *)
  c_headers : list ustring;                 (* implementation: CsvPath.headers *)
  c_probes : list probe;
  c_vals : list (list (option ustring))     (* implementation: per probe, the value pushed on every line *)
}.

Definition row_beq := list_beq ustr_eqb.
Definition rows_beq := list_beq row_beq.
Definition vals_beq := list_beq (opt_beq ustr_eqb).

Definition probe_model (hs : list ustring) (lines : list (list ustring)) (p : probe) : list (option ustring) :=
  match p with
  | ByIndex i => map (value_by_index i) lines
  | ByName n => map (value_by_name hs n) lines
  end.

(** model vs implementation: writer, reader + loop, headers, header values *)
Definition c06_agree (c : c06case) : bool :=
  let recs := read_file (c_d c) (c_text c) in
  let lines := filter nonblank_row recs in
  negb (c_exc c)
  && ustr_eqb (csv_write (c_d c) (c_rows c)) (c_text c)
  && rows_beq lines (c_lines c)
  && row_beq (headers_of recs) (c_headers c)
  && list_beq vals_beq (map (probe_model (headers_of recs) lines) (c_probes c)) (c_vals c).

(** the property itself on the implementation's answers (no model of the reader involved) *)
Definition c06_spec (c : c06case) : bool :=
  let want := filter nonblank_row (c_rows c) in
  let hs := map clean_header (raw_headers (c_rows c)) in
  negb (c_exc c)
  && rows_beq want (c_lines c)
  && row_beq hs (c_headers c)
  && list_beq vals_beq (map (probe_model hs want) (c_probes c)) (c_vals c)
  (* #name and #index address the same cell; a short row reads as absent *)
  && forallb (fun pv : probe * list (option ustring) =>
       match fst pv with
       | ByIndex i => vals_beq (snd pv) (map (fun l => option_map strip (nth_error l i)) (c_lines c))
       | ByName n => match header_index n (c_headers c) with
                     | Some i => vals_beq (snd pv) (map (fun l => option_map strip (nth_error l i)) (c_lines c))
                     | None => forallb (fun v => match v with None => true | Some _ => false end) (snd pv)
                     end
       end) (combine (c_probes c) (c_vals c)).


(** named-paths groups with a member that rewrites its own lines (Mgr/LinePass.v): what every member collected, against the model *)
Record c06gcase := mkC06G {
  g_kinds : list (rw ustring);                 (* the members, in group order *)
  g_byline : bool;                             (* breadth-first run (else serial) *)
  g_recs : list (list ustring);                (* the file's non-blank records *)
  g_lines : list (list (list ustring))         (* implementation: per member, the lines it collected *)
}.

Definition c06g_model (q_share : bool) (c : c06gcase) : list (list (list ustring)) :=
  if g_byline c
  then let per_rec := byline_collected ustring q_share (g_kinds c) (g_recs c) in
       map (fun k => map (fun pr => nth k pr []) per_rec) (seq 0 (length (g_kinds c)))
  else map (fun r => map (alone ustring r) (g_recs c)) (g_kinds c).

Definition c06g_agree (q_share : bool) (c : c06gcase) : bool := list_beq rows_beq (c06g_model q_share c) (g_lines c).
