(** Model of data and value flow between the members of a serial named-paths run
    (csvpath/csvpaths.py _load_csvpath with source-mode: preceding; results_manager.py
    get_last_named_result / get_variables / data_file_for_reference; productions/reference.py).
    A stage is any function from the records it reads to the lines it collects (its standalone
    run); the theorems hold for every such function. *)
From Coq Require Import ZArith List Bool.
From V Require Import Csv.CsvModel Data.DataModel Mgr.Archive.
Import ListNotations.
Open Scope Z_scope.

Notation rows := (list (list ustring)).
Record stage := mkStage { preceding : bool; runs : rows -> rows }.

(** what a member finds when it opens its predecessor's data.csv: None = there is no such file
    (the predecessor collected nothing: D14) *)
Definition data_csv (collected : rows) : option ustring :=
  match collected with [] => None | _ => Some (csv_write std collected) end.

Inductive outcome := Collected (per_member : list rows) | NoDataFile (after : list rows).

(** serial run: member k reads the original file, or — with source-mode: preceding and a
    predecessor — the bytes of the predecessor's data.csv through the reader *)
Fixpoint chain_from (orig : rows) (prev : option rows) (done : list rows) (ss : list stage) : outcome :=
  match ss with
  | [] => Collected done
  | s :: r =>
      let input :=
        if preceding s then
          match prev with
          | Some p => option_map (read_file std) (data_csv p)
          | None => Some orig
          end
        else Some orig in
      match input with
      | None => NoDataFile done
      | Some i => let c := runs s i in chain_from orig (Some c) (done ++ [c]) r
      end
  end.
Definition chain (orig : rows) (ss : list stage) : outcome := chain_from orig None [] ss.

(** the documented meaning: each preceding stage runs on exactly what its predecessor collected *)
Fixpoint compose_from (orig : rows) (prev : option rows) (ss : list stage) : list rows :=
  match ss with
  | [] => []
  | s :: r =>
      let i := if preceding s then (match prev with Some p => p | None => orig end) else orig in
      let c := runs s i in c :: compose_from orig (Some c) r
  end.

(** * variable references: $name.variables.v[.key] against the results of the most recent run *)
Section Refs.
  Variable V : Type.
  Definition vars := list (ustring * V).          (* one member's variables, dict order irrelevant for lookup *)
  Definition store := list (Z * list vars).       (* named-results name -> members' variables of its latest run *)
  Variable keq : ustring -> ustring -> bool.

  Fixpoint lookup_var (v : ustring) (vs : vars) : option V :=
    match vs with [] => None | (k, x) :: r => if keq k v then Some x else lookup_var v r end.
  (** ResultsManager.get_variables merges the members' variables; on a clash the earliest member wins *)
  Fixpoint get_variable (v : ustring) (ms : list vars) : option V :=
    match ms with [] => None | m :: r => match lookup_var v m with Some x => Some x | None => get_variable v r end end.

  (** a run of group g replaces g's results (clean_named_results + add_named_result) *)
  Definition record_run (g : Z) (ms : list vars) (st : store) : store := (g, ms) :: filter (fun e => negb (fst e =? g)) st.
  Fixpoint results_of (g : Z) (st : store) : option (list vars) :=
    match st with [] => None | (k, ms) :: r => if k =? g then Some ms else results_of g r end.
  Definition var_ref (g : Z) (v : ustring) (st : store) : option V :=
    match results_of g st with Some ms => get_variable v ms | None => None end.
End Refs.


(** * a results reference used as a file name: the run reads the referenced member's data.csv
      (ResultsManager.data_file_for_reference); None = that member collected nothing, there is no such file (D14b) *)
Definition replay_input (referenced : rows) : option rows := option_map (read_file std) (data_csv referenced).
Definition replay_chain (referenced : rows) (ss : list stage) : outcome :=
  match replay_input referenced with Some i => chain i ss | None => NoDataFile [] end.

(** * a header reference $name.headers.h (productions/reference.py _get_value_from_results): the referenced member's
      header index of h, then the stripped cell of every collected line that has one; None = unknown header (the reference raises) *)
Definition header_ref (hs : list ustring) (h : ustring) (collected : rows) : option (list ustring) :=
  match header_index h hs with
  | Some i => Some (flat_map (fun l => match nth_error l i with Some v => [strip v] | None => [] end) collected)
  | None => None
  end.
