From Coq Require Import ZArith List Bool Lia.
From V Require Import Mgr.Abort.
Import ListNotations.
Open Scope Z_scope.

Section AbortProofs.
  Variable scan_last : nat -> Z -> bool.
  Variable finished : nat -> Z -> bool.

  Lemma existsb_flat_map_false {A} (f : A -> list ev) (p : ev -> bool) l :
    (forall a, existsb p (f a) = false) -> existsb p (flat_map f l) = false.
  Proof. intros H. induction l as [|a l IH]; [reflexivity|]. cbn. rewrite existsb_app, H, IH. reflexivity. Qed.

  (** the exception reaches the caller and the run manifest never says complete *)
  Theorem serial_abort_truthful i l :
    raised (serial_abort scan_last i l) = true /\ status_complete (serial_abort scan_last i l) = false.
  Proof.
    unfold serial_abort, raised, status_complete. cbn [existsb]. rewrite !existsb_app. cbn [existsb].
    split; [rewrite !orb_true_r; reflexivity|].
    rewrite existsb_flat_map_false by (intros; reflexivity). reflexivity.
  Qed.

  Theorem byline_abort_truthful n i l :
    raised (byline_abort scan_last finished n i l) = true /\ status_complete (byline_abort scan_last finished n i l) = false.
  Proof.
    unfold byline_abort, raised, status_complete. cbn [existsb]. rewrite !existsb_app. cbn [existsb].
    split; [rewrite !orb_true_r; reflexivity|].
    assert (A: forall (g : nat -> ev) (l0 : list nat), (forall j, match g j with CompleteRun => true | _ => false end = false) ->
               existsb (fun e => match e with CompleteRun => true | _ => false end) (map g l0) = false).
    { intros g l0 Hg. induction l0 as [|a l0 IH]; [reflexivity|]. cbn. rewrite Hg, IH. reflexivity. }
    rewrite !A by (intros; reflexivity). reflexivity.
  Qed.

  (** breadth-first: every member is saved; one whose scan ended on an earlier line is recorded as completed, the others
      with the truth about the line they are on (members up to the aborting one: l, the later ones: l - 1) *)
  Lemma filter_saved_started k (g : nat -> ev) (l0 : list nat) : (forall j, match g j with MemberSaved _ _ => False | _ => True end) ->
    filter (fun e => match e with MemberSaved k0 _ => Nat.eqb k0 k | _ => false end) (map g l0) = [].
  Proof. intros Hg. induction l0 as [|a l0 IH]; [reflexivity|]. cbn [map filter]. specialize (Hg a). destruct (g a); try exact IH; contradiction. Qed.

  Lemma filter_saved_seq (f : nat -> bool) k : forall m a, (a <= k < a + m)%nat ->
    filter (fun e => match e with MemberSaved k0 _ => Nat.eqb k0 k | _ => false end) (map (fun j => MemberSaved j (f j)) (seq a m)) = [MemberSaved k (f k)].
  Proof.
    induction m as [|m IH]; intros a H; [lia|]. cbn [seq map filter].
    destruct (Nat.eqb a k) eqn:E.
    - apply Nat.eqb_eq in E. subst a. f_equal.
      assert (N: forall m' b, (k < b)%nat -> filter (fun e => match e with MemberSaved k0 _ => Nat.eqb k0 k | _ => false end) (map (fun j => MemberSaved j (f j)) (seq b m')) = []).
      { induction m' as [|m' IH']; intros b Hb; [reflexivity|]. cbn [seq map filter]. assert (Nat.eqb b k = false) as -> by (apply Nat.eqb_neq; lia). apply IH'. lia. }
      apply N. lia.
    - apply Nat.eqb_neq in E. apply IH. lia.
  Qed.

  Theorem byline_abort_saved n i l j : (j < n)%nat ->
    saved (byline_abort scan_last finished n i l) j =
      Some (let cur := if Nat.leb j i then l else l - 1 in if finished j cur then true else scan_last j cur).
  Proof.
    intros Hj. unfold saved, byline_abort. cbn [filter]. rewrite !filter_app.
    rewrite (filter_saved_started j MemberStarted) by (intros; exact I). cbn [filter app].
    cbv zeta.
    rewrite (filter_saved_seq (fun j0 => if finished j0 (if Nat.leb j0 i then l else l - 1) then true else scan_last j0 (if Nat.leb j0 i then l else l - 1)) j n 0) by lia.
    reflexivity.
  Qed.

  Corollary byline_abort_finished_member n i l j : (j < n)%nat -> finished j (if Nat.leb j i then l else l - 1) = true ->
    saved (byline_abort scan_last finished n i l) j = Some true.
  Proof. intros Hj Hf. rewrite (byline_abort_saved n i l j Hj). cbn zeta. rewrite Hf. reflexivity. Qed.

  (** the aborting member's record carries the aborting error with its line number, and is saved *)
  Theorem serial_abort_member i l :
    error_lines (serial_abort scan_last i l) i = [l] /\ saved (serial_abort scan_last i l) i = Some (scan_last i l) /\
    started (serial_abort scan_last i l) i = true.
  Proof.
    unfold serial_abort.
    assert (E: forall k, (k <= i)%nat -> error_lines (flat_map (fun j => [MemberStarted j; MemberSaved j true]) (seq k (i - k))) i = []
             /\ filter (fun e => match e with MemberSaved k0 _ => Nat.eqb k0 i | _ => false end) (flat_map (fun j => [MemberStarted j; MemberSaved j true]) (seq k (i - k))) = []).
    { intros k Hk. remember (i - k)%nat as m eqn:Em. revert k Hk Em. induction m as [|m IH]; intros k Hk Em; [split; reflexivity|].
      cbn [seq flat_map app]. unfold error_lines. cbn [flat_map app filter].
      assert (Hne: Nat.eqb k i = false) by (apply Nat.eqb_neq; lia). rewrite Hne.
      destruct (IH (S k)) as [I1 I2]; [lia|lia|]. unfold error_lines in I1. rewrite I1, I2. split; reflexivity. }
    destruct (E 0%nat (Nat.le_0_l i)) as [E1 E2]. rewrite Nat.sub_0_r in E1, E2.
    unfold error_lines, saved, started in *. cbn [flat_map filter existsb app].
    rewrite !flat_map_app, !filter_app, !existsb_app, E1, E2. cbn. rewrite Nat.eqb_refl. cbn. rewrite !orb_true_r. auto.
  Qed.

  (** members that finished before the abort keep complete results *)
  Theorem serial_abort_earlier i l j : (j < i)%nat -> saved (serial_abort scan_last i l) j = Some true.
  Proof.
    intros Hj. unfold serial_abort, saved. cbn [filter]. rewrite filter_app.
    assert (E: forall k m, (k <= j < k + m)%nat ->
      exists rest, filter (fun e => match e with MemberSaved k0 _ => Nat.eqb k0 j | _ => false end)
                     (flat_map (fun j0 => [MemberStarted j0; MemberSaved j0 true]) (seq k m)) = MemberSaved j true :: rest).
    { intros k m. revert k. induction m as [|m IH]; intros k Hk; [lia|].
      cbn [seq flat_map app filter]. destruct (Nat.eqb k j) eqn:Ek.
      - apply Nat.eqb_eq in Ek. subst k. eexists. reflexivity.
      - apply Nat.eqb_neq in Ek. apply (IH (S k)). lia. }
    destruct (E 0%nat i) as [rest Hr]; [lia|]. rewrite Hr. reflexivity.
  Qed.

  (** D13: completed in the aborting member's manifest is scanner.is_last(current line): false
      unless the abort lands on the scan's last line *)
  Theorem abort_completed_flag i l : saved (serial_abort scan_last i l) i = Some false <-> scan_last i l = false.
  Proof. destruct (serial_abort_member i l) as (_ & H & _). rewrite H. split; [intros E; inversion E; reflexivity|intros ->; reflexivity]. Qed.
End AbortProofs.
