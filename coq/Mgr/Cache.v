(** Model of the line-count/header cache (csvpath/managers/files/file_cacher.py, util/cache.py):
    what is written for a file's headers, what is read back, the per-instance memory cache and the
    on-disk cache shared by every CsvPaths of the process and of later processes.
    [q_join] is the deviation switch for defect D10: the header row was written with ",".join. *)
From Coq Require Import ZArith List Bool.
From V Require Import Csv.CsvModel Data.DataModel Mgr.Archive.
Import ListNotations.
Open Scope Z_scope.

Notation headers := (list ustring).

Fixpoint join_comma (hs : headers) : ustring :=
  match hs with [] => [] | [h] => h | h :: r => h ++ 44 :: join_comma r end.

Definition encode (q_join : bool) (hs : headers) : ustring :=
  if q_join then join_comma hs else csv_write std [hs].

(** Cache.cached_text(type csv): the first non-empty row the reader yields, else [] *)
Definition decode (t : ustring) : headers :=
  match find (fun r => match r with [] => false | _ => true end) (read_file std t) with Some r => r | None => [] end.

(** * the caches.  A file is identified by its path (Z); [truth f] is what LineCounter computes
      from the file: (line monitor, headers).  The line monitor is dumped/loaded as JSON. *)
Section Caches.
  Variable LM : Type.
  Variable truth : Z -> LM * headers.
  Variable lm_rt : LM -> LM.                 (* LineMonitor.load (LineMonitor.dump lm) *)

  Record cstate := mkCS {
    disk : Z -> option (LM * ustring);       (* cache/<sha(path)>.json / .csv *)
    mem : Z -> option (LM * headers)         (* FileCacher.pathed_lines_and_headers of the current CsvPaths *)
  }.

  (** FileCacher.get_new_line_monitor / get_original_headers *)
  Definition lookup (q_join : bool) (s : cstate) (f : Z) : cstate * (LM * headers) :=
    match mem s f with
    | Some e => (s, e)
    | None =>
        match disk s f with
        | Some (lm, t) => let e := (lm_rt lm, decode t) in (mkCS (disk s) (fun k => if k =? f then Some e else mem s k), e)
        | None => let e := truth f in
                  (mkCS (fun k => if k =? f then Some (fst e, encode q_join (snd e)) else disk s k)
                        (fun k => if k =? f then Some e else mem s k), e)
        end
    end.

  Inductive job := ViaPaths (f : Z) | Direct (f : Z) | NewPaths | NewProcess.

  (** what a job gets to see of its file: the basis of everything it computes *)
  Definition step (q_join : bool) (s : cstate) (j : job) : cstate * option (LM * headers) :=
    match j with
    | ViaPaths f => let (s', e) := lookup q_join s f in (s', Some e)
    | Direct f => (s, Some (truth f))                 (* a standalone CsvPath counts and reads the headers itself *)
    | NewPaths | NewProcess => (mkCS (disk s) (fun _ => None), None)    (* the memory cache belongs to the instance; the disk cache stays *)
    end.

  Fixpoint run (q_join : bool) (s : cstate) (js : list job) : list (option (LM * headers)) :=
    match js with [] => [] | j :: r => let (s', o) := step q_join s j in o :: run q_join s' r end.

  Definition fresh (j : job) : option (LM * headers) :=
    match j with ViaPaths f | Direct f => Some (truth f) | _ => None end.
End Caches.
