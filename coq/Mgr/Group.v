(** Model of the two schedules of a named-paths group (csvpath/csvpaths.py):
    path-major (collect_paths / fast_forward_paths / next_paths: one csvpath after another, each a
    complete CsvPath run) and line-major (next_by_line: every member sees a record before the
    next record is read), for members that do not use the cross-path signals, references or
    line rewriting.  Members share the record type; each has its own matcher and configuration. *)
From Coq Require Import ZArith List Bool.
From V Require Import Scan.ScanModel Run.RunLoop.
Import ListNotations.
Open Scope Z_scope.

Section Group.
  Variable C X : Type.
  Definition member := ((rs X -> line C -> rs X * bool) * cfg)%type.

  Definition ls0 (x0 : X) : ls C X := mkLs C X (rs0 X x0) [] [] [] false false None.

  (** path-major: member after member *)
  Definition serial (ms : list member) (x0 : X) (recs : list (line C)) : list (ls C X) :=
    map (fun mc : member => run_from C X (fst mc) (snd mc) (rs0 X x0) None recs) ms.

  (** line-major: one record, every member (a stopped member is passed over: RunLoop.step does nothing once halted) *)
  Fixpoint step_all (ms : list member) (sts : list (ls C X)) (nl : Z * line C) : list (ls C X) :=
    match ms, sts with
    | mc :: ms', a :: sts' => step C X (fst mc) (snd mc) a nl :: step_all ms' sts' nl
    | _, _ => []
    end.

  Definition last_returned (a : ls C X) : bool := match rev (trace C X a) with e :: _ => ev_returned e | [] => false end.

  (** the decisions of the members that were still running when the record arrived *)
  Fixpoint decisions (sts sts' : list (ls C X)) : list bool :=
    match sts, sts' with
    | a :: r, a' :: r' => if halted C X a then decisions r r' else last_returned a' :: decisions r r'
    | _, _ => []
    end.

  Definition keep (agree : bool) (ds : list bool) : bool := if agree then forallb (fun b => b) ds else existsb (fun b => b) ds.

  (** next_by_line: the loop ends when every member has stopped *)
  Definition byline_step (agree : bool) (ms : list member) (acc : list (ls C X) * list (line C)) (nl : Z * line C) : list (ls C X) * list (line C) :=
    let '(sts, out) := acc in
    if forallb (halted C X) sts then acc
    else let sts' := step_all ms sts nl in
         (sts', if keep agree (decisions sts sts') then out ++ [snd nl] else out).

  (** a member with run-mode: no-run takes no part: it counts as stopped from the start *)
  Definition init_member (x0 : X) (mc : member) : ls C X := if will_run (snd mc) then ls0 x0 else finish C X (ls0 x0).

  Definition byline (agree : bool) (ms : list member) (x0 : X) (recs : list (line C)) : list (ls C X) * list (line C) :=
    fold_left (byline_step agree ms) (number 0 recs) (map (init_member x0) ms, []).
End Group.
