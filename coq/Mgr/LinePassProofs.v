From Coq Require Import ZArith List Bool.
From V Require Import Mgr.LinePass.
Import ListNotations.

Section LinePassProofs.
  Variable cell : Type.
  Notation line := (line cell).
  Notation rw := (rw cell).

  Lemma pass_unshared (ms : list rw) (rec cur : line) :
    pass cell false ms rec cur = map (fun r => alone cell r rec) ms.
  Proof. revert cur. induction ms as [|r ms IH]; intros cur; [reflexivity|]. cbn [pass map]. rewrite IH. reflexivity. Qed.

  (** every member of a breadth-first run collects, for every record, what it collects alone: whatever the other
      members are, wherever it stands in the group *)
  Theorem byline_members_alone (ms : list rw) (recs : list line) :
    byline_collected cell false ms recs = map (fun rec => map (fun r => alone cell r rec) ms) recs.
  Proof. unfold byline_collected. apply map_ext. intros rec. apply pass_unshared. Qed.

  Corollary byline_member_k (ms : list rw) (recs : list line) k r : nth_error ms k = Some r ->
    map (fun per_rec => nth_error per_rec k) (byline_collected cell false ms recs) = map (fun rec => Some (alone cell r rec)) recs.
  Proof.
    intros H. rewrite byline_members_alone, map_map. apply map_ext. intros rec.
    rewrite nth_error_map, H. reflexivity.
  Qed.

  (** a member that rewrites nothing collects the record itself *)
  Corollary byline_readonly_member (ms : list rw) (recs : list line) k : nth_error ms k = Some (RwNone cell) ->
    map (fun per_rec => nth_error per_rec k) (byline_collected cell false ms recs) = map Some recs.
  Proof. intros H. rewrite (byline_member_k ms recs k _ H). reflexivity. Qed.
End LinePassProofs.

(** before the repair (D28): a read-only member after a projecting or rewriting one did not get the record *)
Lemma byline_shared_refuted :
  pass nat true [RwCollect0 nat; RwNone nat] [1; 2; 3] [1; 2; 3] = [[1]; [1]] /\
  pass nat true [RwReplace0 nat 9; RwNone nat] [1; 2; 3] [1; 2; 3] = [[9; 2; 3]; [9; 2; 3]] /\
  pass nat false [RwCollect0 nat; RwNone nat] [1; 2; 3] [1; 2; 3] = [[1]; [1; 2; 3]].
Proof. repeat split. Qed.
