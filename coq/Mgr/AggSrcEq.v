(** The aggregate verdicts generated from the source (Mgr/AggSrc.v) equal the hand-written model (Mgr/Aggregate.v) for every list of
    members: ResultsManager.is_valid — the loop over the Results' is_valid property — is [results_manager_is_valid], and
    ResultsRegistrar.all_valid — the loop over the csvpaths' is_valid — is [manifest_all_valid]; for the results of runs made in this
    process (a Result's _runtime_data is None: the branch that reads a reloaded result's saved verdict is not reached).
    Re-checked against the regenerated AggSrc.v on every run of C04. *)
From Coq Require Import ZArith List Bool.
From V Require Import Scan.PySem Mgr.Aggregate Mgr.AggSrc.
Import ListNotations.
Open Scope Z_scope.

(** some object that is not None: the CsvPath instance, a datetime *)
Definition obj : pyv := PBool true.
Definition member_src (m : member) : pyv * pyv * pyv * pyv := (obj, if m_started m then obj else PNone, PBool (m_valid m), PNone).

Lemma result_is_valid_src_eq m :
  (let '(c, sa, cv, rd) := member_src m in result_is_valid_src c sa cv rd) = PBool (result_is_valid m).
Proof. destruct m as [[|] [|]]; reflexivity. Qed.

Theorem rm_is_valid_src_eq ms : rm_is_valid_src (map member_src ms) = PBool (results_manager_is_valid ms).
Proof.
  unfold rm_is_valid_src, results_manager_is_valid. induction ms as [|m ms IH]; [reflexivity|].
  cbn [map p_for_return_false_if forallb]. pose proof (result_is_valid_src_eq m) as H. unfold member_src in *. cbv zeta in H. cbn in H.
  cbn [fst snd]. rewrite H. destruct (result_is_valid m); cbn; [exact IH|reflexivity].
Qed.

Theorem all_valid_src_eq ms : all_valid_src (map (fun m => PBool (m_valid m)) ms) = PBool (manifest_all_valid ms).
Proof.
  unfold all_valid_src, manifest_all_valid. induction ms as [|m ms IH]; [reflexivity|].
  cbn [map p_for_return_false_if forallb]. destruct (m_valid m); cbn; [exact IH|reflexivity].
Qed.
