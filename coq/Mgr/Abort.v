(** Model of an aborted named-paths run (csvpath/csvpaths.py: the except paths of
    collect_paths / fast_forward_paths / next_paths — handle_error, save(result), re-raise — and of
    next_by_line — save every member, re-raise; results_manager.start_run writes the run manifest
    with status "start", only complete_run writes "complete").
    A run is a list of events; the theorems are about what is on record when the exception leaves. *)
From Coq Require Import ZArith List Bool.
Import ListNotations.
Open Scope Z_scope.

Inductive ev :=
  | StartRun                         (* run manifest written, status start *)
  | MemberStarted (i : nat)          (* add_named_result *)
  | ErrorCollected (i : nat) (line : Z)
  | MemberSaved (i : nat) (completed : bool)   (* save(result): files + member manifest; completed = scanner.is_last(current line) *)
  | CompleteRun                      (* run manifest rewritten, status complete *)
  | Raised.                          (* the exception leaves the run method *)

(** [scan_last i l]: is l the last line member i's scan part denotes (CsvPath.completed) *)
Section Abort.
  Variable scan_last : nat -> Z -> bool.
  Variable finished : nat -> Z -> bool.   (* breadth-first: member j's scan ended on a line before l (it stopped there; its line monitor stays there) *)
  Variable n : nat.                  (* members in the group *)

  (** serial methods: members 0..i-1 finish and are saved; member i aborts on line l *)
  Definition serial_abort (i : nat) (l : Z) : list ev :=
    StartRun :: flat_map (fun j => [MemberStarted j; MemberSaved j true]) (seq 0 i)
    ++ [MemberStarted i; ErrorCollected i l; MemberSaved i (scan_last i l); Raised].

  (** breadth-first: every member has started; member i aborts on line l; all are saved.
      Members before i in the list have already looked at line l, those after it are still on line l-1; a member whose scan
      ended on an earlier line stopped there and is recorded as completed. *)
  Definition byline_abort (i : nat) (l : Z) : list ev :=
    StartRun :: map MemberStarted (seq 0 n) ++ [ErrorCollected i l]
    ++ map (fun j => let cur := if Nat.leb j i then l else l - 1 in
                    MemberSaved j (if finished j cur then true else scan_last j cur)) (seq 0 n) ++ [Raised].

  Definition status_complete (t : list ev) : bool := existsb (fun e => match e with CompleteRun => true | _ => false end) t.
  Definition raised (t : list ev) : bool := existsb (fun e => match e with Raised => true | _ => false end) t.
  Definition started (t : list ev) (j : nat) : bool := existsb (fun e => match e with MemberStarted k => Nat.eqb k j | _ => false end) t.
  Definition saved (t : list ev) (j : nat) : option bool :=
    match filter (fun e => match e with MemberSaved k _ => Nat.eqb k j | _ => false end) t with
    | MemberSaved _ c :: _ => Some c | _ => None end.
  Definition error_lines (t : list ev) (j : nat) : list Z :=
    flat_map (fun e => match e with ErrorCollected k l => if Nat.eqb k j then [l] else [] | _ => [] end) t.
End Abort.
