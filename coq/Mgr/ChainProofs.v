From Coq Require Import ZArith List Bool Lia.
From V Require Import Csv.CsvModel Csv.CsvProofs Data.DataModel Mgr.Archive Mgr.ArchiveProofs Mgr.Chain.
Import ListNotations.
Open Scope Z_scope.

(** every stage preserves "cells contain no CR" and collects something *)
Definition well_behaved (s : stage) : Prop := forall i, no_cr i -> no_cr (runs s i) /\ runs s i <> [].

Lemma read_data_csv c : no_cr c -> c <> [] -> option_map (read_file std) (data_csv c) = Some c.
Proof.
  intros Hn Hne. unfold data_csv. destruct c as [|l ls] eqn:E; [contradiction|].
  change (Some (read_file std (csv_write std (l :: ls))) = Some (l :: ls)). rewrite csv_roundtrip; [reflexivity|apply std_ok|exact Hn].
Qed.

(** chain == composition of its stages, for any stages, any chain length, any placement of 'preceding' *)
Theorem chain_is_composition orig : no_cr orig -> forall ss prev done,
  Forall well_behaved ss -> (match prev with Some p => no_cr p /\ p <> [] | None => True end) ->
  chain_from orig prev done ss = Collected (done ++ compose_from orig prev ss).
Proof.
  intros Ho. induction ss as [|s ss IH]; intros prev done Hw Hp.
  - cbn. rewrite app_nil_r. reflexivity.
  - inversion Hw as [|x l Hs Hss]; subst. cbn [chain_from compose_from].
    assert (Hin: (if preceding s then match prev with Some p => option_map (read_file std) (data_csv p) | None => Some orig end else Some orig)
               = Some (if preceding s then match prev with Some p => p | None => orig end else orig)).
    { destruct (preceding s); [|reflexivity]. destruct prev as [p|]; [|reflexivity]. destruct Hp as [Hn Hne]. apply read_data_csv; assumption. }
    rewrite Hin.
    set (i := if preceding s then match prev with Some p => p | None => orig end else orig).
    assert (Hi: no_cr i). { unfold i. destruct (preceding s); [destruct prev as [p|]; [apply Hp|exact Ho]|exact Ho]. }
    destruct (Hs i Hi) as [Hc Hne].
    rewrite (IH (Some (runs s i)) (done ++ [runs s i]) Hss (conj Hc Hne)). rewrite <- app_assoc. reflexivity.
Qed.

Corollary chain_composes orig ss : no_cr orig -> Forall well_behaved ss -> chain orig ss = Collected (compose_from orig None ss).
Proof. intros Ho Hw. unfold chain. rewrite (chain_is_composition orig Ho ss None [] Hw I). reflexivity. Qed.

(** D14 (open finding): a stage that collects nothing leaves no data.csv; its preceding successor cannot open its input *)
Theorem empty_stage_refuted :
  chain [[[49]]] [mkStage false (fun _ => []); mkStage true (fun i => i)] = NoDataFile [[]].
Proof. reflexivity. Qed.

(** variable references see the values of the most recent run of the group *)
Section RefsProofs.
  Variable V : Type.
  Variable keq : ustring -> ustring -> bool.

  Theorem var_ref_latest g v ms st : var_ref V keq g v (record_run V g ms st) = get_variable V keq v ms.
  Proof. unfold var_ref, record_run. cbn. rewrite Z.eqb_refl. reflexivity. Qed.

  Theorem var_ref_other_group g g' v ms st : g <> g' -> var_ref V keq g v (record_run V g' ms st) = var_ref V keq g v st.
  Proof.
    intros Hne. unfold var_ref, record_run. cbn. apply Z.eqb_neq in Hne. rewrite Z.eqb_sym in Hne. rewrite Hne.
    assert (Hne': (g' =? g) = false) by exact Hne.
    induction st as [|[k ms'] st IH]; [reflexivity|]. cbn. destruct (k =? g') eqn:E1; cbn.
    - apply Z.eqb_eq in E1. subst k. rewrite Hne'. exact IH.
    - destruct (k =? g); [reflexivity|exact IH].
  Qed.
End RefsProofs.


(** a results reference used as a file name replays exactly the referenced member's collected lines; a chain run over it is the
    chain over those lines: its first member and every member without source-mode: preceding read the referenced lines, a preceding
    member reads its predecessor's *)
Theorem replay_is_collected c : no_cr c -> c <> [] -> replay_input c = Some c.
Proof. exact (read_data_csv c). Qed.

Theorem replay_chain_composes c ss : no_cr c -> c <> [] -> Forall well_behaved ss ->
  replay_chain c ss = Collected (compose_from c None ss).
Proof. intros Hn Hne Hw. unfold replay_chain. rewrite (replay_is_collected c Hn Hne). apply chain_composes; assumption. Qed.

Theorem replay_empty_refuted : replay_chain [] [mkStage false (fun i => i)] = NoDataFile [].
Proof. reflexivity. Qed.

(** a header reference is the column #h of the referenced member's collected lines: the values the header h reads on each
    of them (Data/DataModel.value_by_name, i.e. Header.to_value), lines too short for it left out, in order *)
Definition somes {A} (l : list (option A)) : list A := flat_map (fun o => match o with Some a => [a] | None => [] end) l.

Theorem header_ref_is_column hs h collected vs : header_ref hs h collected = Some vs ->
  vs = somes (map (value_by_name hs h) collected).
Proof.
  unfold header_ref, value_by_name. destruct (header_index h hs) as [i|]; [|discriminate].
  intros H. injection H as <-. unfold somes, value_by_index.
  induction collected as [|l ls IH]; [reflexivity|]. cbn [flat_map map]. rewrite IH.
  destruct (nth_error l i); reflexivity.
Qed.

Theorem header_ref_unknown hs h collected : header_index h hs = None -> header_ref hs h collected = None.
Proof. intros H. unfold header_ref. rewrite H. reflexivity. Qed.

Theorem header_ref_length hs h collected vs : header_ref hs h collected = Some vs -> (length vs <= length collected)%nat.
Proof.
  unfold header_ref. destruct (header_index h hs) as [i|]; [|discriminate]. intros H. injection H as <-.
  induction collected as [|l ls IH]; [cbn; lia|]. cbn [flat_map]. rewrite app_length. cbn [length].
  destruct (nth_error l i); cbn [length]; lia.
Qed.
