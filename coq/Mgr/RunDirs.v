(** Model of run-directory bookkeeping: ResultSerializer.get_run_dir_name_from_datetime /
    get_run_dir (managers/results/result_serializer.py), CsvPaths.run_time_str / current_run_time /
    clear_run_coordination / clean (csvpaths.py), ResultsManager._find_in_dir_names
    (results_manager.py).  Times are calendar fields (UTC); a directory name is the stamp the
    reader parses back plus an optional ".N" suffix.
    Deviation switches: [q12] D7 (names written with a 12-hour clock), [qreuse] D6 (a reused
    CsvPaths instance keeps its first run directory).  No proofs here. *)
From Coq Require Import ZArith List Bool.
Import ListNotations.
Open Scope Z_scope.

Record time := mkTime { yr : Z; mo : Z; dy : Z; hr : Z; mi : Z; sc : Z }.
Definition tkey (t : time) : list Z := [yr t; mo t; dy t; hr t; mi t; sc t].

Fixpoint lex_lt (a b : list Z) : bool :=
  match a, b with
  | x :: a', y :: b' => if x <? y then true else if y <? x then false else lex_lt a' b'
  | [], _ :: _ => true
  | _, _ => false
  end.
Definition time_lt (a b : time) : bool := lex_lt (tkey a) (tkey b).

(** %I *)
Definition h12 (h : Z) : Z := if h mod 12 =? 0 then 12 else h mod 12.
(** the fields strptime("%Y-%m-%d_%H-%M-%S") reads back from the name strftime wrote *)
Definition stamp (q12 : bool) (t : time) : list Z := [yr t; mo t; dy t; (if q12 then h12 (hr t) else hr t); mi t; sc t].

Record dirname := mkDir { d_stamp : list Z; d_suffix : option nat }.
Definition zl_eqb (a b : list Z) : bool := (fix go a b := match a, b with [], [] => true | x :: a', y :: b' => (x =? y) && go a' b' | _, _ => false end) a b.
Definition dir_eqb (a b : dirname) : bool :=
  zl_eqb (d_stamp a) (d_stamp b) &&
  match d_suffix a, d_suffix b with None, None => true | Some x, Some y => Nat.eqb x y | _, _ => false end.
Definition dir_in (d : dirname) (l : list dirname) : bool := existsb (dir_eqb d) l.

(** get_run_dir: the plain name if unused, else the first unused ".i" *)
Fixpoint first_free (st : list Z) (existing : list dirname) (i : nat) (fuel : nat) : dirname :=
  match fuel with
  | O => mkDir st (Some i)
  | S f => if dir_in (mkDir st (Some i)) existing then first_free st existing (S i) f else mkDir st (Some i)
  end.
Definition get_run_dir (st : list Z) (existing : list dirname) : dirname :=
  if dir_in (mkDir st None) existing then first_free st existing 0 (length existing) else mkDir st None.

(** * the world: per named-paths name, the run directories under archive/<name>, each with the
      ids of the runs that wrote into it; and CsvPaths instances *)
Definition rundir := (Z * dirname)%type.           (* archive/<name>/<dirname> *)
Record world := mkWorld { dirs : list (rundir * list nat) }.
Definition rd_eqb (a b : rundir) : bool := (fst a =? fst b) && dir_eqb (snd a) (snd b).

Definition dirs_of (w : world) (g : Z) : list dirname := map (fun e => snd (fst e)) (filter (fun e => fst (fst e) =? g) (dirs w)).

Fixpoint write_into (d : rundir) (k : nat) (l : list (rundir * list nat)) : list (rundir * list nat) :=
  match l with
  | [] => [(d, [k])]
  | (d', ks) :: r => if rd_eqb d' d then (d', ks ++ [k]) :: r else (d', ks) :: write_into d k r
  end.

Record run := mkRun { r_group : Z; r_new_instance : bool; r_time : time; r_aborted : bool }.

(** state: the world, CsvPaths._run_time_str of the current instance, number of runs so far *)
Record hstate := mkH { h_world : world; h_rts : option rundir; h_count : nat; h_chosen : list rundir }.

Definition do_run (q12 qreuse : bool) (s : hstate) (r : run) : hstate :=
  let rts := if r_new_instance r then None else h_rts s in
  (* clean(): the repaired code clears the cached run dir at the start of every run *)
  let rts := if qreuse then rts else None in
  let d := match rts with
           | Some d => d
           | None => (r_group r, get_run_dir (stamp q12 (r_time r)) (dirs_of (h_world s) (r_group r)))
           end in
  let w' := mkWorld (write_into d (h_count s) (dirs (h_world s))) in
  (* the end of a run clears it (repaired code); an aborted run never gets there *)
  let rts' := if qreuse then Some d else (if r_aborted r then Some d else None) in
  mkH w' rts' (S (h_count s)) (h_chosen s ++ [d]).

Definition history (q12 qreuse : bool) (rs : list run) : hstate :=
  fold_left (do_run q12 qreuse) rs (mkH (mkWorld []) None O []).

(** * ':last' / ':first' : ResultsManager._find_in_dir_names, names sorted by the parsed time
      (a ".N" suffix is read as a fraction of a second) *)
(** strptime's %f: ".N" is N right-padded to six digits *)
Definition frac (o : option nat) : Z :=
  match o with
  | None => 0
  | Some n => let z := Z.of_nat n in
      if z <? 10 then z * 100000 else if z <? 100 then z * 10000 else if z <? 1000 then z * 1000
      else if z <? 10000 then z * 100 else if z <? 100000 then z * 10 else z
  end.
Definition sort_key (d : dirname) : list Z := d_stamp d ++ [frac (d_suffix d)].
Fixpoint insert_by (d : dirname) (l : list dirname) : list dirname :=
  match l with
  | [] => [d]
  | x :: r => if lex_lt (sort_key d) (sort_key x) then d :: l else x :: insert_by d r
  end.
Definition sort_dirs (l : list dirname) : list dirname := fold_right insert_by [] (rev l).   (* stable *)
Fixpoint has_prefix (p s : list Z) : bool :=
  match p, s with [], _ => true | x :: p', y :: s' => (x =? y) && has_prefix p' s' | _, _ => false end.
Definition find_in_dir_names (prefix : list Z) (names : list dirname) (last : bool) : option dirname :=
  let ns := sort_dirs (filter (fun d => has_prefix prefix (d_stamp d)) names) in
  if last then (match rev ns with d :: _ => Some d | [] => None end) else (match ns with d :: _ => Some d | [] => None end).
