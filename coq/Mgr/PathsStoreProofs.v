(** Round trip of a named-paths group through its group file; selection by identity; manifest rule. *)
From Coq Require Import ZArith List Bool Lia.
From V Require Import Csv.CsvModel Data.DataModel Mgr.PathsStore.
Import ListNotations.
Open Scope Z_scope.

Notation M := MARKER.

(** the marker does not occur in [p] *)
Fixpoint no_marker (p : ustring) : bool :=
  match p with [] => true | _ :: r => negb (is_prefix M p) && no_marker r end.

Lemma is_prefix_app m t : is_prefix m (m ++ t) = true.
Proof. induction m as [|a m IH]; [reflexivity|]. cbn. rewrite Z.eqb_refl. exact IH. Qed.

(** a newline-free pattern cannot match across a newline *)
Lemma is_prefix_nl : forall m q t, ~ In NL m -> is_prefix m (q ++ NL :: t) = is_prefix m q.
Proof.
  induction m as [|a m IH]; intros q t Hn; [destruct q; reflexivity|].
  destruct q as [|b q]; cbn.
  - assert (a <> NL) by (intros E; apply Hn; left; exact E). apply Z.eqb_neq in H. rewrite H. reflexivity.
  - rewrite IH; [reflexivity|]. intros Hin. apply Hn. right. exact Hin.
Qed.

Lemma marker_no_nl : ~ In NL M.
Proof. cbn. unfold NL. intuition discriminate. Qed.

Lemma skip_marker : forall (x : ustring) cur t, split_go M (length x) cur (x ++ t) = split_go M 0 cur t.
Proof.
  induction x as [|c x IH]; intros cur t; [reflexivity|].
  cbn [length app]. destruct t as [|d t'] eqn:Et; cbn [split_go]; try apply IH.
Qed.

Lemma at_marker cur t : split_go M 0 cur (M ++ t) = rev cur :: split_go M 0 [] t.
Proof.
  change (M ++ t) with (45 :: (tl M ++ t)). cbn [split_go].
  change (45 :: (tl M ++ t)) with (M ++ t). rewrite is_prefix_app.
  change (length M - 1)%nat with (length (tl M)). rewrite skip_marker. reflexivity.
Qed.

Lemma at_nl cur t : split_go M 0 cur (NL :: t) = split_go M 0 (NL :: cur) t.
Proof. cbn [split_go]. reflexivity. Qed.

Lemma scan_path : forall p cur t, no_marker p = true ->
  split_go M 0 cur (p ++ NL :: t) = split_go M 0 (rev p ++ cur) (NL :: t).
Proof.
  induction p as [|c p IH]; intros cur t H; [reflexivity|].
  cbn [no_marker] in H. apply andb_prop in H. destruct H as [H1 H2]. apply negb_true_iff in H1.
  change ((c :: p) ++ NL :: t) with (c :: (p ++ NL :: t)). cbn [split_go].
  change (c :: (p ++ NL :: t)) with ((c :: p) ++ NL :: t). rewrite (is_prefix_nl M (c :: p) t marker_no_nl), H1.
  rewrite (IH (c :: cur) t H2). cbn [rev]. rewrite <- app_assoc. reflexivity.
Qed.

Lemma scan_path_end : forall p cur, no_marker p = true -> split_go M 0 cur p = [rev (rev p ++ cur)].
Proof.
  induction p as [|c p IH]; intros cur H; [reflexivity|].
  cbn [no_marker] in H. apply andb_prop in H. destruct H as [H1 H2]. apply negb_true_iff in H1.
  cbn [split_go]. rewrite H1, (IH (c :: cur) H2). cbn [rev]. rewrite <- app_assoc. reflexivity.
Qed.

(** the pieces str.split returns for a stored group *)
Fixpoint pieces (cur : ustring) (ps : list ustring) : list ustring :=
  match ps with
  | [] => [rev cur]
  | p :: r => rev (NL :: NL :: cur) :: pieces (rev p ++ [NL; NL]) r
  end.

Lemma str_from_list_cons p ps : str_from_list (p :: ps) = NL :: NL :: (M ++ NL :: NL :: (p ++ str_from_list ps)).
Proof. unfold str_from_list. cbn [flat_map]. rewrite <- !app_assoc. reflexivity. Qed.

Lemma str_from_list_starts ps : ps <> [] -> exists t, str_from_list ps = NL :: t.
Proof. destruct ps as [|p r]; [contradiction|]. intros _. rewrite str_from_list_cons. eauto. Qed.

Lemma split_group : forall ps cur, Forall (fun p => no_marker p = true) ps ->
  split_go M 0 cur (str_from_list ps) = pieces cur ps.
Proof.
  induction ps as [|p ps IH]; intros cur H; [reflexivity|].
  inversion H as [|x l Hp Hps]; subst.
  rewrite str_from_list_cons, !at_nl, at_marker, !at_nl. cbn [pieces]. f_equal.
  destruct ps as [|p2 ps2].
  - cbn [str_from_list flat_map]. rewrite app_nil_r. rewrite (scan_path_end p [NL; NL] Hp). reflexivity.
  - destruct (str_from_list_starts (p2 :: ps2)) as [t Ht]; [discriminate|].
    rewrite Ht, (scan_path p [NL; NL] t Hp), <- Ht. apply IH. exact Hps.
Qed.

(** * strip *)
Lemma lstrip_nl s : lstrip (NL :: s) = lstrip s.
Proof. reflexivity. Qed.

Lemma lstrip_app_nl : forall s, lstrip (s ++ [NL]) = match lstrip s with [] => [] | x => x ++ [NL] end.
Proof.
  induction s as [|c s IH]; [reflexivity|]. cbn [app lstrip]. destruct (is_space c); [exact IH|reflexivity].
Qed.

Lemma rstrip_nl s : rev (lstrip (rev (s ++ [NL]))) = rev (lstrip (rev s)).
Proof. rewrite rev_app_distr. reflexivity. Qed.

Lemma strip_nl_l s : strip (NL :: s) = strip s.
Proof. reflexivity. Qed.

Lemma strip_nl_r s : strip (s ++ [NL]) = strip s.
Proof.
  unfold strip. rewrite lstrip_app_nl. destruct (lstrip s) as [|c x] eqn:E; [reflexivity|].
  change ((c :: x) ++ [NL]) with ((c :: x) ++ [NL]). rewrite rev_app_distr. reflexivity.
Qed.

Lemma strip_wrapped p : strip (rev (NL :: NL :: rev p ++ [NL; NL])) = strip p.
Proof.
  cbn [rev]. rewrite !rev_app_distr, rev_involutive. cbn [rev app].
  rewrite <- !app_assoc. cbn [app].
  rewrite !strip_nl_l.
  replace (p ++ [NL; NL]) with ((p ++ [NL]) ++ [NL]) by (rewrite <- app_assoc; reflexivity).
  rewrite !strip_nl_r. reflexivity.
Qed.

Lemma strip_last p : strip (rev (rev p ++ [NL; NL])) = strip p.
Proof. rewrite rev_app_distr, rev_involutive. cbn [rev app]. rewrite !strip_nl_l. reflexivity. Qed.

Lemma nonblank_strip s t : strip s = strip t -> nonblank s = nonblank t.
Proof. unfold nonblank. intros ->. reflexivity. Qed.

Lemma stored_pieces : forall ps p0, Forall (fun p => nonblank p = true) (p0 :: ps) ->
  map strip (filter nonblank (pieces (rev p0 ++ [NL; NL]) ps)) = map strip (p0 :: ps).
Proof.
  induction ps as [|p ps IH]; intros p0 H; inversion H as [|x l H0 Hr]; subst.
  - cbn [pieces filter]. rewrite (nonblank_strip _ p0 (strip_last p0)), H0. cbn. rewrite strip_last. reflexivity.
  - cbn [pieces filter]. rewrite (nonblank_strip _ p0 (strip_wrapped p0)), H0. cbn [map]. rewrite strip_wrapped.
    f_equal. apply IH. exact Hr.
Qed.

(** add_named_paths then get_named_paths: the same csvpaths (up to surrounding whitespace), same order *)
Theorem roundtrip ps : Forall (fun p => no_marker p = true) ps -> Forall (fun p => nonblank p = true) ps ->
  map strip (stored_paths (str_from_list ps)) = map strip ps.
Proof.
  intros Hm Hb. unfold stored_paths, split. rewrite (split_group ps [] Hm).
  destruct ps as [|p0 ps]; [reflexivity|].
  cbn [pieces filter]. change (nonblank (rev [NL; NL])) with false. cbn iota.
  apply stored_pieces. exact Hb.
Qed.

(** * selection *)
Section SelectProofs.
  Variable I : Type.
  Variable ieqb : I -> I -> bool.
  Hypothesis ieqb_spec : forall a b, ieqb a b = true <-> a = b.

  Lemma ieqb_refl a : ieqb a a = true. Proof. apply ieqb_spec. reflexivity. Qed.
  Lemma ieqb_neq a b : a <> b -> ieqb a b = false.
  Proof. intros H. destruct (ieqb a b) eqn:E; [|reflexivity]. apply ieqb_spec in E. contradiction. Qed.

  Theorem select l1 id p l2 : ~ In id (map fst l1) ->
    find_one I ieqb id (l1 ++ (id, p) :: l2) = Some p /\
    get_to I ieqb id (l1 ++ (id, p) :: l2) = map snd l1 ++ [p] /\
    get_from I ieqb id (l1 ++ (id, p) :: l2) = p :: map snd l2.
  Proof.
    induction l1 as [|[i q] l1 IH]; intros Hn.
    - cbn. rewrite ieqb_refl. auto.
    - cbn in Hn. assert (Hi: i <> id) by (intros E; apply Hn; left; exact E).
      assert (Hr: ~ In id (map fst l1)) by (intros E; apply Hn; right; exact E).
      destruct (IH Hr) as (H1 & H2 & H3). cbn. rewrite (ieqb_neq i id Hi), H1, H2, H3. auto.
  Qed.

  Theorem select_unknown l id : ~ In id (map fst l) -> find_one I ieqb id l = None.
  Proof.
    induction l as [|[i q] l IH]; intros Hn; [reflexivity|]. cbn in *.
    rewrite ieqb_neq; [apply IH|]; intuition.
  Qed.
End SelectProofs.

(** * manifest *)
Theorem manifest_identical_readd sha man g : man_add sha (man_add sha man g) g = man_add sha man g.
Proof.
  assert (A: forall m, man_add sha (m ++ [sha g]) g = m ++ [sha g]).
  { intros m. unfold man_add. rewrite rev_app_distr. cbn. rewrite Z.eqb_refl. reflexivity. }
  destruct (rev man) as [|f r] eqn:E.
  - assert (H: man_add sha man g = man ++ [sha g]) by (unfold man_add; rewrite E; reflexivity). rewrite H. apply A.
  - destruct (f =? sha g) eqn:Ef.
    + assert (H: man_add sha man g = man) by (unfold man_add; rewrite E, Ef; reflexivity). rewrite H. exact H.
    + assert (H: man_add sha man g = man ++ [sha g]) by (unfold man_add; rewrite E, Ef; reflexivity). rewrite H. apply A.
Qed.

Theorem manifest_gain sha man g :
  man_add sha man g = match rev man with
                      | f :: _ => if f =? sha g then man else man ++ [sha g]
                      | [] => man ++ [sha g]
                      end.
Proof. reflexivity. Qed.
