(** The record as the members of a breadth-first (line-major) run receive it: csvpaths.py next_by_line().
    A member may rewrite its line in place (replace(), append()) and what it collects may be a projection of it
    (the collect() function via limit_collection()).  [q_share = true] is the behaviour before the repair D28:
    all members were handed one list object and the loop variable was rebound to the collected projection;
    [false] is the code as it is: every member considers its own copy of the record.
    Members here match every line (the run loop proper is Run/RunLoop.v; which lines are returned is C07/C08's matter). *)
From Coq Require Import ZArith List Bool.
Import ListNotations.

Section LinePass.
  Variable cell : Type.
  Definition line := list cell.

  Inductive rw :=
  | RwNone                      (* rewrites nothing *)
  | RwReplace0 (v : cell)       (* replace(0, v): cell 0 overwritten in place *)
  | RwAppend (v : cell)         (* append(name, v): a cell added at the end, in place *)
  | RwCollect0                  (* collect(0): the line is untouched, the collected line is its projection on cell 0 *)
  | RwResetHeaders.             (* reset_headers(): the member's header names change, no line does *)

  Definition in_place (r : rw) (l : line) : line :=
    match r with
    | RwReplace0 v => match l with [] => [] | _ :: t => v :: t end
    | RwAppend v => l ++ [v]
    | _ => l
    end.

  Definition project (r : rw) (l : line) : line :=
    match r with
    | RwCollect0 => match l with [] => [] | c :: _ => [c] end
    | _ => l
    end.

  (** what a member collects for a record when it runs alone or in a serial run *)
  Definition alone (r : rw) (rec : line) : line := project r (in_place r rec).

  (** one record through the members of a breadth-first run: the line each member collects *)
  Fixpoint pass (q_share : bool) (ms : list rw) (rec cur : line) : list line :=
    match ms with
    | [] => []
    | r :: rest =>
        let mine := if q_share then cur else rec in
        let coll := project r (in_place r mine) in
        coll :: pass q_share rest rec (if q_share then coll else rec)
    end.

  Definition byline_collected (q_share : bool) (ms : list rw) (recs : list line) : list (list line) :=
    map (fun rec => pass q_share ms rec rec) recs.
End LinePass.
