From Coq Require Import ZArith List Bool Lia FinFun Sorted.
From V Require Import Mgr.RunDirs.
Import ListNotations.
Open Scope Z_scope.

(** * decidable equalities *)
Lemma zl_eqb_eq a b : zl_eqb a b = true <-> a = b.
Proof.
  unfold zl_eqb. revert b. induction a as [|x a IH]; intros [|y b]; cbn; try (split; [discriminate|discriminate]); [tauto|].
  rewrite andb_true_iff, Z.eqb_eq, IH. split; [intros [-> ->]; reflexivity|intros H; inversion H; auto].
Qed.

Lemma dir_eqb_eq a b : dir_eqb a b = true <-> a = b.
Proof.
  destruct a as [sa fa], b as [sb fb]. unfold dir_eqb. cbn. rewrite andb_true_iff, zl_eqb_eq.
  split.
  - intros [-> H]. destruct fa, fb; try discriminate; [apply Nat.eqb_eq in H; subst|]; reflexivity.
  - intros H. inversion H; subst. split; [reflexivity|]. destruct fb; [apply Nat.eqb_refl|reflexivity].
Qed.

Lemma dir_in_In d l : dir_in d l = true <-> In d l.
Proof.
  unfold dir_in. rewrite existsb_exists. split.
  - intros (x & Hx & He). apply dir_eqb_eq in He. subst. exact Hx.
  - intros H. exists d. split; [exact H|apply dir_eqb_eq; reflexivity].
Qed.

(** * get_run_dir never returns a directory that exists (also within the same second) *)
Lemma first_free_spec st ex : forall fuel i,
  dir_in (first_free st ex i fuel) ex = true ->
  forall j, (i <= j < i + fuel)%nat -> In (mkDir st (Some j)) ex.
Proof.
  induction fuel as [|f IH]; intros i H j Hj; [lia|].
  cbn in H. destruct (dir_in (mkDir st (Some i)) ex) eqn:E.
  - destruct (Nat.eq_dec j i) as [->|Hne]; [apply dir_in_In; exact E|].
    apply (IH (S i) H). lia.
  - rewrite E in H. discriminate.
Qed.

Theorem get_run_dir_fresh st ex : dir_in (get_run_dir st ex) ex = false.
Proof.
  unfold get_run_dir. destruct (dir_in (mkDir st None) ex) eqn:E0; [|exact E0].
  destruct (dir_in (first_free st ex 0 (length ex)) ex) eqn:E; [|reflexivity]. exfalso.
  pose proof (first_free_spec st ex (length ex) 0 E) as Hall.
  set (cands := mkDir st None :: map (fun j => mkDir st (Some j)) (seq 0 (length ex))).
  assert (Hnd: NoDup cands).
  { constructor.
    - intros Hin. apply in_map_iff in Hin. destruct Hin as (j & Hj & _). discriminate.
    - apply Injective_map_NoDup; [|apply seq_NoDup]. intros a b Hab. inversion Hab. reflexivity. }
  assert (Hincl: incl cands ex).
  { intros d [<-|Hd]; [apply dir_in_In; exact E0|]. apply in_map_iff in Hd. destruct Hd as (j & <- & Hj).
    apply in_seq in Hj. apply Hall. lia. }
  pose proof (NoDup_incl_length Hnd Hincl) as Hlen. unfold cands in Hlen. cbn in Hlen. rewrite map_length, seq_length in Hlen. lia.
Qed.

Theorem get_run_dir_stamp st ex : d_stamp (get_run_dir st ex) = st.
Proof.
  unfold get_run_dir. destruct (dir_in (mkDir st None) ex); [|reflexivity].
  generalize 0%nat. induction (length ex) as [|f IH]; intros i; cbn; [reflexivity|].
  destruct (dir_in (mkDir st (Some i)) ex); [apply IH|reflexivity].
Qed.

(** * every run of the repaired bookkeeping gets a directory no earlier run used, under its own name *)
Lemma rd_eqb_eq a b : rd_eqb a b = true <-> a = b.
Proof.
  destruct a as [ga da], b as [gb db]. unfold rd_eqb. cbn. rewrite andb_true_iff, Z.eqb_eq, dir_eqb_eq.
  split; [intros [-> ->]; reflexivity|intros H; inversion H; auto].
Qed.

Lemma write_into_fresh d k : forall l, ~ In d (map fst l) -> write_into d k l = l ++ [(d, [k])].
Proof.
  induction l as [|[d' ks] l IH]; intros H; [reflexivity|]. cbn in *.
  destruct (rd_eqb d' d) eqn:E; [apply rd_eqb_eq in E; subst; exfalso; apply H; left; reflexivity|].
  rewrite IH; [reflexivity|]. intros Hin. apply H. right. exact Hin.
Qed.

Lemma in_dirs_of w g d : In (g, d) (map fst (dirs w)) -> In d (dirs_of w g).
Proof.
  unfold dirs_of. intros H. apply in_map_iff in H. destruct H as ([[g' d'] ks] & Heq & Hin). cbn in Heq. inversion Heq; subst.
  apply in_map_iff. exists ((g, d), ks). split; [reflexivity|]. apply filter_In. split; [exact Hin|]. cbn. apply Z.eqb_refl.
Qed.

Theorem run_fresh q12 s r :
  let s' := do_run q12 false s r in
  exists d, h_chosen s' = h_chosen s ++ [(r_group r, d)] /\ ~ In (r_group r, d) (map fst (dirs (h_world s))) /\
            dirs (h_world s') = dirs (h_world s) ++ [((r_group r, d), [h_count s])].
Proof.
  cbn zeta. unfold do_run. cbn [h_chosen h_world dirs].
  set (d := get_run_dir (stamp q12 (r_time r)) (dirs_of (h_world s) (r_group r))).
  assert (Hf: ~ In (r_group r, d) (map fst (dirs (h_world s)))).
  { intros Hin. apply in_dirs_of in Hin. apply dir_in_In in Hin. unfold d in Hin. rewrite get_run_dir_fresh in Hin. discriminate. }
  exists d. destruct (r_new_instance r); cbn; rewrite (write_into_fresh _ _ _ Hf); auto.
Qed.

Lemma NoDup_snoc {A} (l : list A) x : NoDup l -> ~ In x l -> NoDup (l ++ [x]).
Proof.
  induction l as [|a l IH]; intros Hn Hx; cbn; [repeat constructor; auto|].
  inversion Hn; subst. constructor.
  - intros Hin. apply in_app_or in Hin. destruct Hin as [Hin|[->|[]]]; [contradiction|]. apply Hx. left. reflexivity.
  - apply IH; [assumption|]. intros Hin. apply Hx. right. exact Hin.
Qed.

(** over any history: the directories chosen are pairwise distinct, each lies under its own
    named-paths name, each has exactly one writer (so no earlier run's files are touched) *)
Theorem history_fresh q12 : forall rs,
  let h := history q12 false rs in
  NoDup (h_chosen h) /\ map fst (h_chosen h) = map r_group rs /\
  map fst (dirs (h_world h)) = h_chosen h /\ Forall (fun e => length (snd e) = 1%nat) (dirs (h_world h)).
Proof.
  intros rs. unfold history.
  assert (G: forall rs s, NoDup (h_chosen s) -> map fst (dirs (h_world s)) = h_chosen s ->
             Forall (fun e => length (snd e) = 1%nat) (dirs (h_world s)) ->
             let h := fold_left (do_run q12 false) rs s in
             NoDup (h_chosen h) /\ map fst (h_chosen h) = map fst (h_chosen s) ++ map r_group rs /\
             map fst (dirs (h_world h)) = h_chosen h /\ Forall (fun e => length (snd e) = 1%nat) (dirs (h_world h))).
  { induction rs0 as [|r rs0 IH]; intros s Hnd Hm Hf; cbn [fold_left].
    - rewrite app_nil_r. auto.
    - destruct (run_fresh q12 s r) as (d & Hc & Hfr & Hd). cbn zeta in Hc, Hd.
      destruct (IH (do_run q12 false s r)) as (I1 & I2 & I3 & I4).
      + rewrite Hc. apply NoDup_snoc; [exact Hnd|]. rewrite <- Hm. exact Hfr.
      + rewrite Hd, Hc, map_app, Hm. reflexivity.
      + rewrite Hd. apply Forall_app. split; [exact Hf|repeat constructor].
      + cbn zeta. repeat split; auto. rewrite I2, Hc, map_app. cbn. rewrite <- app_assoc. reflexivity. }
  destruct (G rs (mkH (mkWorld []) None O [])) as (H1 & H2 & H3 & H4); try constructor; auto.
Qed.

(** * names order chronologically; ':last' is the latest run *)
Lemma lex_lt_trans : forall a b c, lex_lt a b = true -> lex_lt b c = true -> lex_lt a c = true.
Proof.
  induction a as [|x a IH]; intros [|y b] [|z c] H1 H2; cbn in *; try discriminate; try reflexivity.
  destruct (x <? y) eqn:E1; destruct (y <? x) eqn:E1'; destruct (y <? z) eqn:E2; destruct (z <? y) eqn:E2';
    destruct (x <? z) eqn:E3; destruct (z <? x) eqn:E3'; try discriminate; try reflexivity; try lia.
  eapply IH; eassumption.
Qed.

Lemma lex_lt_asym : forall a b, lex_lt a b = true -> lex_lt b a = false.
Proof.
  induction a as [|x a IH]; intros [|y b] H; cbn in *; try discriminate; try reflexivity.
  destruct (x <? y) eqn:E1; destruct (y <? x) eqn:E2; try discriminate; try reflexivity; try lia. apply IH. exact H.
Qed.

Definition dle (a b : dirname) : Prop := lex_lt (sort_key b) (sort_key a) = false.   (* a sorts no later than b *)

Lemma dle_refl a : dle a a.
Proof. unfold dle. destruct (lex_lt (sort_key a) (sort_key a)) eqn:E; [|reflexivity]. pose proof (lex_lt_asym _ _ E). congruence. Qed.

Lemma insert_by_in d l x : In x (insert_by d l) <-> x = d \/ In x l.
Proof.
  induction l as [|y l IH]; cbn; [intuition|].
  destruct (lex_lt (sort_key d) (sort_key y)); cbn; [intuition|]. rewrite IH. intuition.
Qed.

Lemma insert_by_sorted d l : StronglySorted dle l -> StronglySorted dle (insert_by d l).
Proof.
  induction 1 as [|y l Hs IH Hf]; cbn; [repeat constructor|].
  destruct (lex_lt (sort_key d) (sort_key y)) eqn:E.
  - constructor; [constructor; assumption|]. constructor.
    + unfold dle. apply lex_lt_asym. exact E.
    + rewrite Forall_forall in *. intros z Hz. unfold dle. specialize (Hf z Hz). unfold dle in Hf.
      destruct (lex_lt (sort_key z) (sort_key d)) eqn:Ez; [|reflexivity].
      rewrite (lex_lt_trans _ _ _ Ez E) in Hf. discriminate.
  - constructor; [exact IH|]. rewrite Forall_forall in *. intros z Hz. apply insert_by_in in Hz. destruct Hz as [->|Hz]; [exact E|apply Hf; exact Hz].
Qed.

Lemma sort_dirs_sorted l : StronglySorted dle (sort_dirs l).
Proof. unfold sort_dirs. induction (rev l) as [|d r IH]; cbn; [constructor|apply insert_by_sorted; exact IH]. Qed.

Lemma sort_dirs_in l x : In x (sort_dirs l) <-> In x l.
Proof.
  unfold sort_dirs. rewrite (in_rev l x). induction (rev l) as [|d r IH]; cbn; [tauto|]. rewrite insert_by_in, IH. intuition.
Qed.

Lemma sorted_last_max : forall l d, StronglySorted dle l -> (match rev l with x :: _ => Some x | [] => None end) = Some d ->
  In d l /\ forall x, In x l -> dle x d.
Proof.
  induction l as [|y l IH]; intros d Hs H; [discriminate|].
  inversion Hs as [|? ? Hs' Hf]; subst. destruct l as [|z l'].
  - cbn in H. inversion H; subst. split; [left; reflexivity|]. intros x [->|[]]. apply dle_refl.
  - assert (Hr: match rev (z :: l') with x :: _ => Some x | [] => None end = Some d).
    { cbn [rev] in H |- *. destruct (rev l' ++ [z]) eqn:Er; [destruct (rev l'); discriminate|]. cbn in H. exact H. }
    destruct (IH d Hs' Hr) as [Hin Hmax]. split; [right; exact Hin|].
    intros x [->|Hx]; [|apply Hmax; exact Hx]. rewrite Forall_forall in Hf. apply Hf. exact Hin.
Qed.

(** ':last' resolves to a run directory with the given prefix after which no other such directory sorts;
    ':first' to one before which none sorts *)
Theorem find_last_is_latest prefix names d : find_in_dir_names prefix names true = Some d ->
  In d names /\ has_prefix prefix (d_stamp d) = true /\
  forall x, In x names -> has_prefix prefix (d_stamp x) = true -> lex_lt (sort_key d) (sort_key x) = false.
Proof.
  unfold find_in_dir_names. intros H.
  destruct (sorted_last_max _ d (sort_dirs_sorted _) H) as [Hin Hmax].
  apply (proj1 (sort_dirs_in _ _)) in Hin. apply filter_In in Hin. destruct Hin as [Hin Hp]. repeat split; auto.
  intros x Hx Hpx. apply (Hmax x). apply (proj2 (sort_dirs_in _ _)). apply filter_In. auto.
Qed.

Theorem find_first_is_earliest prefix names d : find_in_dir_names prefix names false = Some d ->
  In d names /\ has_prefix prefix (d_stamp d) = true /\
  forall x, In x names -> has_prefix prefix (d_stamp x) = true -> lex_lt (sort_key x) (sort_key d) = false.
Proof.
  unfold find_in_dir_names. intros H. pose proof (sort_dirs_sorted (filter (fun d0 => has_prefix prefix (d_stamp d0)) names)) as Hs.
  destruct (sort_dirs _) as [|y l] eqn:E; [discriminate|]. inversion H; subst.
  assert (Hin: In d (sort_dirs (filter (fun d0 => has_prefix prefix (d_stamp d0)) names))) by (rewrite E; left; reflexivity).
  apply (proj1 (sort_dirs_in _ _)) in Hin. apply filter_In in Hin. destruct Hin as [Hin Hp]. repeat split; auto.
  intros x Hx Hpx. assert (Hxs: In x (d :: l)) by (rewrite <- E; apply (proj2 (sort_dirs_in _ _)); apply filter_In; auto).
  inversion Hs as [|? ? _ Hf]; subst. destruct Hxs as [<-|Hxl].
  - apply dle_refl.
  - rewrite Forall_forall in Hf. exact (Hf x Hxl).
Qed.

(** names written with the 24-hour clock order as the run times do (different seconds, no suffix) *)
Lemma lex_lt_snoc : forall a b z, length a = length b -> lex_lt (a ++ [z]) (b ++ [z]) = lex_lt a b.
Proof.
  induction a as [|x a IH]; intros [|y b] z H; try discriminate; cbn.
  - rewrite Z.ltb_irrefl. reflexivity.
  - destruct (x <? y); [reflexivity|]. destruct (y <? x); [reflexivity|]. apply IH. cbn in H. lia.
Qed.

Theorem names_order t1 t2 : time_lt t1 t2 = true ->
  lex_lt (sort_key (mkDir (stamp false t1) None)) (sort_key (mkDir (stamp false t2) None)) = true.
Proof. intros H. unfold sort_key. cbn [d_stamp d_suffix frac]. rewrite lex_lt_snoc by reflexivity. exact H. Qed.

(** D7: with the 12-hour clock 13:00:00 sorts before 12:59:00 *)
Theorem twelve_hour_refuted :
  let t1 := mkTime 2026 10 1 12 59 0 in let t2 := mkTime 2026 10 1 13 0 0 in
  time_lt t1 t2 = true /\
  lex_lt (sort_key (mkDir (stamp true t1) None)) (sort_key (mkDir (stamp true t2) None)) = false /\
  find_in_dir_names [2026; 10; 1] [mkDir (stamp true t1) None; mkDir (stamp true t2) None] true = Some (mkDir (stamp true t1) None).
Proof. vm_compute. repeat split. Qed.

(** D6: a reused instance keeps its first run directory — even for another named-paths name *)
Theorem reuse_refuted :
  let t := mkTime 2026 10 1 8 0 0 in
  let rs := [mkRun 0 true t false; mkRun 1 false (mkTime 2026 10 1 8 0 5) false] in
  h_chosen (history false true rs) = [(0, mkDir (stamp false t) None); (0, mkDir (stamp false t) None)] /\
  map (fun e => length (snd e)) (dirs (h_world (history false true rs))) = [2%nat] /\
  map fst (h_chosen (history false false rs)) = [0; 1].
Proof. vm_compute. repeat split. Qed.
