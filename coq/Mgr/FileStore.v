(** Model of the named-files area (csvpath/managers/files/file_manager.py: add_named_file,
    _copy_in, _fingerprint, remove_named_file, get_named_file; file_registrar.py:
    register_complete, registered_file) as a state machine over an abstract file system, and its
    abstract specification: name -> list of (source file name, content) versions.
    Contents, names and source file names are integers; SHA-256 is a Section variable with an
    injectivity hypothesis (trusted base).  No proofs in this file. *)
From Coq Require Import ZArith List Bool.
Import ListNotations.
Open Scope Z_scope.

Section FS.
  Variable sha : Z -> Z.

  Definition path := (Z * Z * Z)%type.             (* <name>/<source file name>/<digest>.<ext> *)
  Definition path_eqb (a b : path) : bool :=
    let '(a1, a2, a3) := a in let '(b1, b2, b3) := b in (a1 =? b1) && (a2 =? b2) && (a3 =? b3).

  Record entry := mkEntry { e_src : Z; e_fp : Z }.  (* manifest entry: file_home (=source file name), fingerprint; file = (name, e_src, e_fp) *)

  Record state := mkState {
    srcs : Z -> Z;                          (* the source files' current bytes *)
    files : path -> option Z;               (* bytes stored under inputs/named_files *)
    mans : Z -> option (list entry)         (* None: the name's directory does not exist *)
  }.

  Inductive op := Add (name src : Z) | Mutate (src content : Z) | Remove (name : Z) | NewInstance.

  Definition init (s0 : Z -> Z) : state := mkState s0 (fun _ => None) (fun _ => None).

  Definition last_entry (m : list entry) : option entry := match rev m with e :: _ => Some e | [] => None end.

  Definition step (s : state) (o : op) : state :=
    match o with
    | Add n sr =>
        let c := srcs s sr in
        let p := (n, sr, sha c) in
        (* _copy_in to a temp name, _fingerprint: if <digest> exists drop the temp, else rename *)
        let files' := match files s p with Some _ => files s | None => fun q => if path_eqb q p then Some c else files s q end in
        let man := match mans s n with Some m => m | None => [] end in
        let same := match last_entry man with Some e => (e_fp e =? sha c) && (e_src e =? sr) | None => false end in
        let man' := if same then man else man ++ [mkEntry sr (sha c)] in
        mkState (srcs s) files' (fun k => if k =? n then Some man' else mans s k)
    | Mutate sr c => mkState (fun k => if k =? sr then c else srcs s k) (files s) (mans s)
    | Remove n => mkState (srcs s) (fun q => let '(a, _, _) := q in if a =? n then None else files s q)
                          (fun k => if k =? n then None else mans s k)
    | NewInstance => s
    end.

  Definition run (s0 : Z -> Z) (ops : list op) : state := fold_left step ops (init s0).

  (** get_named_file: the file of the last manifest entry *)
  Definition get_named_file (s : state) (n : Z) : option path :=
    match mans s n with
    | Some m => match last_entry m with Some e => Some (n, e_src e, e_fp e) | None => None end
    | None => None
    end.

  (** * abstract specification *)
  Record spec := mkSpec { sp_srcs : Z -> Z; sp_versions : Z -> option (list (Z * Z)) }.   (* (source file name, content) *)
  Definition spec_init (s0 : Z -> Z) : spec := mkSpec s0 (fun _ => None).
  Definition last_version (v : list (Z * Z)) : option (Z * Z) := match rev v with x :: _ => Some x | [] => None end.
  Definition spec_step (s : spec) (o : op) : spec :=
    match o with
    | Add n sr =>
        let c := sp_srcs s sr in
        let v := match sp_versions s n with Some v => v | None => [] end in
        let same := match last_version v with Some (sr', c') => (c' =? c) && (sr' =? sr) | None => false end in
        mkSpec (sp_srcs s) (fun k => if k =? n then Some (if same then v else v ++ [(sr, c)]) else sp_versions s k)
    | Mutate sr c => mkSpec (fun k => if k =? sr then c else sp_srcs s k) (sp_versions s)
    | Remove n => mkSpec (sp_srcs s) (fun k => if k =? n then None else sp_versions s k)
    | NewInstance => s
    end.
  Definition spec_run (s0 : Z -> Z) (ops : list op) : spec := fold_left spec_step ops (spec_init s0).

  (** abstraction: read every manifest entry's file back *)
  Definition abs_versions (s : state) (n : Z) : option (list (Z * option Z)) :=
    option_map (map (fun e => (e_src e, files s (n, e_src e, e_fp e)))) (mans s n).
End FS.
