(** Refinement of the named-files state machine to its specification, for histories of any length. *)
From Coq Require Import ZArith List Bool Lia.
From V Require Import Mgr.FileStore.
Import ListNotations.
Open Scope Z_scope.

Lemma Forall2_rev {A B} (P : A -> B -> Prop) l1 l2 : Forall2 P l1 l2 -> Forall2 P (rev l1) (rev l2).
Proof. induction 1 as [|a b l1 l2 H H2 IH]; cbn; [constructor|]. apply Forall2_app; [exact IH|repeat constructor; exact H]. Qed.

Lemma Forall2_impl {A B} (P Q : A -> B -> Prop) l1 l2 : (forall a b, P a b -> Q a b) -> Forall2 P l1 l2 -> Forall2 Q l1 l2.
Proof. intros H. induction 1; constructor; auto. Qed.

Section FSProofs.
  Variable sha : Z -> Z.
  Hypothesis sha_inj : forall a b, sha a = sha b -> a = b.

  Notation state := FileStore.state.
  Notation step := (FileStore.step sha).
  Notation run := (FileStore.run sha).

  (** every stored file is named by the digest of its bytes *)
  Definition G (s : state) : Prop := forall n sr d c, files s (n, sr, d) = Some c -> d = sha c.

  Definition rel_entry (s : state) (n : Z) (e : entry) (sc : Z * Z) : Prop :=
    e_src e = fst sc /\ e_fp e = sha (snd sc) /\ files s (n, e_src e, e_fp e) = Some (snd sc).

  Definition rel_name (s : state) (t : spec) (n : Z) : Prop :=
    match mans s n, sp_versions t n with
    | None, None => True
    | Some m, Some v => Forall2 (rel_entry s n) m v
    | _, _ => False
    end.

  Definition R (s : state) (t : spec) : Prop :=
    (forall k, srcs s k = sp_srcs t k) /\ (forall n, rel_name s t n) /\ G s.

  Lemma path_eqb_eq a b : path_eqb a b = true <-> a = b.
  Proof.
    destruct a as [[a1 a2] a3], b as [[b1 b2] b3]. cbn. rewrite !andb_true_iff, !Z.eqb_eq.
    split; [intros [[-> ->] ->]; reflexivity|intros H; inversion H; auto].
  Qed.

  Lemma R_init s0 : R (init s0) (spec_init s0).
  Proof. repeat split; cbn; auto. intros n sr d c H. discriminate. Qed.

  Lemma last_rel s n m v : Forall2 (rel_entry s n) m v ->
    match last_entry m, last_version v with
    | None, None => True
    | Some e, Some sc => rel_entry s n e sc
    | _, _ => False
    end.
  Proof.
    intros H. apply Forall2_rev in H. unfold last_entry, last_version.
    inversion H; subst; auto.
  Qed.

  (** files only ever gain entries under Add *)
  Lemma add_files_mono (s : state) n sr q x : files s q = Some x -> files (step s (Add n sr)) q = Some x.
  Proof.
    intros H. cbn. destruct (files s (n, sr, sha (srcs s sr))) eqn:E; [exact H|].
    destruct (path_eqb q (n, sr, sha (srcs s sr))) eqn:Eq; [|exact H].
    apply path_eqb_eq in Eq. subst q. rewrite E in H. discriminate.
  Qed.

  Lemma add_files_new (s : state) n sr : G s -> files (step s (Add n sr)) (n, sr, sha (srcs s sr)) = Some (srcs s sr).
  Proof.
    intros Hg. cbn. destruct (files s (n, sr, sha (srcs s sr))) as [c0|] eqn:E.
    - rewrite E. f_equal. apply sha_inj. symmetry. exact (Hg _ _ _ _ E).
    - assert (Hp: path_eqb (n, sr, sha (srcs s sr)) (n, sr, sha (srcs s sr)) = true) by (apply path_eqb_eq; reflexivity).
      rewrite Hp. reflexivity.
  Qed.

  Lemma rel_entry_mono (s s' : state) n e sc : (forall q x, files s q = Some x -> files s' q = Some x) ->
    rel_entry s n e sc -> rel_entry s' n e sc.
  Proof. intros Hm (H1 & H2 & H3). repeat split; auto. Qed.

  Lemma step_R s t o : R s t -> R (step s o) (spec_step t o).
  Proof.
    intros (Hs & Hn & Hg). destruct o as [n sr|sr c|n|].
    - (* Add *)
      assert (Hmono: forall q x, files s q = Some x -> files (step s (Add n sr)) q = Some x) by (intros; apply add_files_mono; assumption).
      pose proof (add_files_new s n sr Hg) as Hnew.
      split; [exact Hs|]. split.
      + intros k. unfold rel_name. cbn [FileStore.step mans spec_step sp_versions].
        destruct (k =? n) eqn:Ek.
        * apply Z.eqb_eq in Ek. subst k. rewrite <- (Hs sr).
          pose proof (Hn n) as Hrel. unfold rel_name in Hrel.
          destruct (mans s n) as [m|] eqn:Em; destruct (sp_versions t n) as [v|] eqn:Ev; try contradiction.
          -- pose proof (last_rel s n m v Hrel) as Hl.
             destruct (last_entry m) as [e|]; destruct (last_version v) as [[sr' c']|]; try contradiction.
             ++ destruct Hl as (L1 & L2 & L3). cbn [fst snd] in L1, L2, L3.
                assert (Heq: ((e_fp e =? sha (srcs s sr)) && (e_src e =? sr)) = ((c' =? srcs s sr) && (sr' =? sr))).
                { rewrite L1, L2. f_equal. destruct (c' =? srcs s sr) eqn:E1.
                  - apply Z.eqb_eq in E1. rewrite E1. apply Z.eqb_refl.
                  - apply Z.eqb_neq in E1. apply Z.eqb_neq. intros H. apply E1. apply sha_inj. exact H. }
                rewrite Heq. destruct ((c' =? srcs s sr) && (sr' =? sr)).
                ** eapply Forall2_impl; [|exact Hrel]. intros a b Hab. eapply rel_entry_mono; [exact Hmono|exact Hab].
                ** apply Forall2_app.
                   --- eapply Forall2_impl; [|exact Hrel]. intros a b Hab. eapply rel_entry_mono; [exact Hmono|exact Hab].
                   --- repeat constructor; cbn; auto.
             ++ apply Forall2_app.
                ** eapply Forall2_impl; [|exact Hrel]. intros a b Hab. eapply rel_entry_mono; [exact Hmono|exact Hab].
                ** repeat constructor; cbn; auto.
          -- cbn. repeat constructor; cbn; auto.
        * pose proof (Hn k) as Hrel. unfold rel_name in Hrel.
          destruct (mans s k) as [m|]; destruct (sp_versions t k) as [v|]; try contradiction; auto.
          eapply Forall2_impl; [|exact Hrel]. intros a b Hab. eapply rel_entry_mono; [exact Hmono|exact Hab].
      + intros n0 sr0 d c Hf. cbn in Hf.
        destruct (files s (n, sr, sha (srcs s sr))) eqn:E; [exact (Hg _ _ _ _ Hf)|].
        destruct (path_eqb (n0, sr0, d) (n, sr, sha (srcs s sr))) eqn:Eq; [|exact (Hg _ _ _ _ Hf)].
        apply path_eqb_eq in Eq. inversion Eq; subst. inversion Hf; subst. reflexivity.
    - (* Mutate *)
      split; [intros k; cbn; rewrite (Hs k); reflexivity|]. split; [|exact Hg].
      intros k. pose proof (Hn k) as Hrel. unfold rel_name in *. cbn. exact Hrel.
    - (* Remove *)
      split; [exact Hs|]. split.
      + intros k. unfold rel_name. cbn. destruct (k =? n) eqn:Ek; [exact I|].
        pose proof (Hn k) as Hrel. unfold rel_name in Hrel.
        destruct (mans s k) as [m|]; destruct (sp_versions t k) as [v|]; try contradiction; auto.
        eapply Forall2_impl; [|exact Hrel]. intros a b (H1 & H2 & H3). repeat split; auto. cbn. rewrite Ek. exact H3.
      + intros n0 sr0 d c Hf. cbn in Hf. destruct (n0 =? n); [discriminate|]. exact (Hg _ _ _ _ Hf).
    - exact (conj Hs (conj Hn Hg)).
  Qed.

  Theorem refines s0 : forall ops, R (run s0 ops) (spec_run s0 ops).
  Proof.
    intros ops. unfold FileStore.run, spec_run. generalize (R_init s0). generalize (init s0) (spec_init s0).
    induction ops as [|o ops IH]; intros s t H; [exact H|]. cbn [fold_left]. apply IH. apply step_R. exact H.
  Qed.

  (** what the refinement says to an observer: the files behind a name's manifest entries hold the
      registered contents, in registration order *)
  Corollary abs_is_spec s0 ops n :
    abs_versions (run s0 ops) n = option_map (map (fun sc : Z * Z => (fst sc, Some (snd sc)))) (sp_versions (spec_run s0 ops) n).
  Proof.
    destruct (refines s0 ops) as (_ & Hn & _). specialize (Hn n). unfold rel_name in Hn. unfold abs_versions.
    destruct (mans (run s0 ops) n) as [m|]; destruct (sp_versions (spec_run s0 ops) n) as [v|]; try contradiction; [|reflexivity].
    cbn. f_equal. induction Hn as [|e sc m v (H1 & H2 & H3) _ IH]; [reflexivity|]. cbn. rewrite H1 at 1. rewrite H3, IH. reflexivity.
  Qed.

  (** get_named_file names a file whose bytes are the most recent registered content and whose
      name is the digest of those bytes *)
  Corollary current s0 ops n p : get_named_file (run s0 ops) n = Some p ->
    exists v sr c, sp_versions (spec_run s0 ops) n = Some v /\ last_version v = Some (sr, c) /\
                   p = (n, sr, sha c) /\ files (run s0 ops) p = Some c.
  Proof.
    destruct (refines s0 ops) as (_ & Hn & _). specialize (Hn n). unfold rel_name in Hn. unfold get_named_file.
    destruct (mans (run s0 ops) n) as [m|]; [|discriminate].
    destruct (sp_versions (spec_run s0 ops) n) as [v|]; [|contradiction].
    pose proof (last_rel _ n m v Hn) as Hl. destruct (last_entry m) as [e|]; [|discriminate].
    destruct (last_version v) as [[sr c]|] eqn:Ev; [|contradiction]. destruct Hl as (H1 & H2 & H3). cbn in H1, H2, H3.
    intros H. inversion H; subst. exists v, (e_src e), c. rewrite <- H2. auto.
  Qed.

  (** a stored version's bytes never change, whatever is added, mutated or re-instantiated, until
      its own name is removed *)
  Theorem immutable (s : state) o p c : files s p = Some c ->
    (forall n, o = Remove n -> fst (fst p) <> n) -> files (step s o) p = Some c.
  Proof.
    intros H Hr. destruct o as [n sr|sr x|n|]; cbn [FileStore.step files]; auto.
    - apply add_files_mono. exact H.
    - destruct p as [[a b] d]. cbn in Hr. specialize (Hr n eq_refl). apply Z.eqb_neq in Hr. rewrite Hr. exact H.
  Qed.

  Theorem fresh_instance (s : state) : step s NewInstance = s.
  Proof. reflexivity. Qed.

  (** later edits of the source file do not affect registered content *)
  Theorem mutate_frame (s : state) sr x : files (step s (Mutate sr x)) = files s /\ mans (step s (Mutate sr x)) = mans s.
  Proof. split; reflexivity. Qed.
End FSProofs.
