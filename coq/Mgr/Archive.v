(** Model of what a named-paths run leaves in the archive (csvpath/managers/results/:
    results_manager.py start_run/add_named_result/save/complete_run, result_serializer.py _save,
    result_registrar.py register_complete/file_fingerprints, results_registrar.py;
    util/line_spooler.py CsvLineSpooler) as a sequence of writes to an abstract file system.
    JSON encoding and SHA-256 are Section variables (hypotheses named in the theorems). *)
From Coq Require Import ZArith List Bool.
From V Require Import Csv.CsvModel.
Import ListNotations.
Open Scope Z_scope.

Definition std : dialect := mkDialect 44 34.      (* the defaults of csv.writer and csv.reader: comma and double quote *)

Inductive fname := Data | Unmatched | Printouts | Vars | Errors | Meta.
Definition fname_eqb (a b : fname) : bool :=
  match a, b with Data, Data | Unmatched, Unmatched | Printouts, Printouts | Vars, Vars | Errors, Errors | Meta, Meta => true | _, _ => false end.
Definition all_files := [Data; Meta; Unmatched; Printouts; Errors; Vars].

Section Archive.
  Variable J : Type.                        (* JSON-representable values *)
  Variable jenc : J -> ustring.
  Variable jdec : ustring -> option J.
  Variable sha : ustring -> Z.

  (** what is in memory when a member finishes (or is aborted) *)
  Record mresult := mkRes {
    m_vars : J; m_errors : J; m_error_count : nat; m_meta : J;
    m_printouts : list ustring;
    m_lines : list (list ustring);          (* collected, in order *)
    m_unmatched : list (list ustring);
    m_valid : bool; m_completed : bool
  }.

  Definition fs := fname -> option ustring.
  Definition fs0 : fs := fun _ => None.

  Inductive wop := Append (f : fname) (b : ustring) | Write (f : fname) (b : ustring) | Fingerprints.

  Definition NLc : Z := 10.
  (** the header line ---- PRINTOUT: default *)
  Definition po_header : ustring := [45;45;45;45;32;80;82;73;78;84;79;85;84;58;32;100;101;102;97;117;108;116;10].
  Definition printouts_text (ps : list ustring) : ustring := po_header ++ flat_map (fun p => p ++ [NLc]) ps.

  (** the writes of one member, in the order the code performs them: the spooler appends each
      collected line while the csvpath runs; save() closes it and writes the other files;
      register_complete() fingerprints whatever exists then *)
  Definition member_ops (r : mresult) : list wop :=
    map (fun l => Append Data (write_row std l)) (m_lines r)
    ++ [Write Meta (jenc (m_meta r)); Write Errors (jenc (m_errors r)); Write Vars (jenc (m_vars r))]
    ++ (match m_unmatched r with [] => [] | u => [Write Unmatched (csv_write std u)] end)
    ++ (match m_printouts r with [] => [] | p => [Write Printouts (printouts_text p)] end)
    ++ [Fingerprints].

  Definition apply_op (st : fs * (fname -> option Z)) (o : wop) : fs * (fname -> option Z) :=
    let '(f, fp) := st in
    match o with
    | Append n b => (fun k => if fname_eqb k n then Some (match f n with Some old => old ++ b | None => b end) else f k, fp)
    | Write n b => (fun k => if fname_eqb k n then Some b else f k, fp)
    | Fingerprints => (f, fun k => option_map sha (f k))
    end.

  Definition run_ops (ops : list wop) : fs * (fname -> option Z) := fold_left apply_op ops (fs0, fun _ => None).

  (** the member manifest and the run manifest *)
  Record mmanifest := mkMM { mm_valid : bool; mm_completed : bool; mm_error_count : nat; mm_fingerprints : fname -> option Z }.
  Definition member_manifest (r : mresult) : mmanifest :=
    mkMM (m_valid r) (m_completed r) (m_error_count r) (snd (run_ops (member_ops r))).

  Record rmanifest := mkRM { rm_status_complete : bool; rm_all_valid : bool; rm_all_completed : bool; rm_error_count : nat }.
  Definition run_manifest (rs : list mresult) : rmanifest :=
    mkRM true (forallb m_valid rs) (forallb m_completed rs) (fold_right (fun r n => (m_error_count r + n)%nat) O rs).
End Archive.
