(** Interchange of the two schedules: members do not share state, so line-major and path-major
    evaluation give every member the same run. *)
From Coq Require Import ZArith List Bool Lia.
From V Require Import Scan.ScanModel Run.RunLoop Run.RunFacts Mgr.Group.
Import ListNotations.
Open Scope Z_scope.

Section GroupProofs.
  Variable C X : Type.
  Notation member := (member C X).

  Lemma step_all_length ms : forall sts nl, length sts = length ms -> length (step_all C X ms sts nl) = length ms.
  Proof. induction ms as [|m ms IH]; intros [|a sts] nl H; try discriminate; cbn; [reflexivity|]. f_equal. apply IH. cbn in H. lia. Qed.

  (** folding the line-major step over the records = folding each member over the records *)
  Lemma fold_step_all : forall (recs : list (Z * line C)) (ms : list member) sts, length sts = length ms ->
    fold_left (step_all C X ms) recs sts =
    map (fun p : member * ls C X => fold_left (step C X (fst (fst p)) (snd (fst p))) recs (snd p)) (combine ms sts).
  Proof.
    induction recs as [|nl recs IH]; intros ms sts H.
    - cbn. revert sts H. induction ms as [|m ms IHm]; intros [|a sts] H; try discriminate; cbn; [reflexivity|]. f_equal. apply IHm. cbn in H. lia.
    - cbn [fold_left]. rewrite IH by (apply step_all_length; exact H).
      clear IH. revert sts H. induction ms as [|m ms IHm]; intros [|a sts] H; try discriminate; cbn; [reflexivity|].
      f_equal. apply IHm. cbn in H. lia.
  Qed.

  (** once every member has stopped nothing changes any more *)
  Lemma step_all_halted ms : forall sts nl, forallb (halted C X) sts = true -> step_all C X ms sts nl = firstn (length ms) sts.
  Proof.
    induction ms as [|m ms IH]; intros [|a sts] nl H; cbn; try reflexivity.
    cbn in H. apply andb_prop in H. destruct H as [H1 H2]. unfold step at 1. rewrite H1. f_equal. apply IH. exact H2.
  Qed.

  Lemma byline_states agree ms : forall recs sts out, length sts = length ms ->
    fst (fold_left (byline_step C X agree ms) recs (sts, out)) = fold_left (step_all C X ms) recs sts.
  Proof.
    induction recs as [|nl recs IH]; intros sts out H; [reflexivity|].
    cbn [fold_left]. unfold byline_step at 2.
    destruct (forallb (halted C X) sts) eqn:E.
    - rewrite IH by exact H. f_equal. rewrite (step_all_halted ms sts nl E). rewrite <- H. symmetry. apply firstn_all.
    - rewrite IH by (apply step_all_length; exact H). reflexivity.
  Qed.

  (** C08: in a breadth-first run every member ends in exactly the state of its own standalone run
      (next_by_line does not call finalize(); finishing the member's loop state gives the standalone
      result), whatever the other members are *)
  Theorem byline_is_serial agree (ms : list member) x0 recs :
    map (finish C X) (fst (byline C X agree ms x0 recs)) = serial C X ms x0 recs.
  Proof.
    unfold byline. rewrite byline_states by (rewrite map_length; reflexivity).
    rewrite fold_step_all by (rewrite map_length; reflexivity).
    rewrite map_map. unfold serial. induction ms as [|m ms IH]; [reflexivity|]. cbn [map combine]. f_equal; [|exact IH].
    cbn [fst snd]. unfold init_member, run_from. destruct (will_run (snd m)); [reflexivity|].
    rewrite (fold_halted C X (fst m) (snd m)); reflexivity.
  Qed.

  (** the order of the group does not matter to any member *)
  Corollary serial_order_irrelevant (ms : list member) x0 recs mc :
    In mc ms -> In (run_from C X (fst mc) (snd mc) (rs0 X x0) None recs) (serial C X ms x0 recs).
  Proof. intros H. unfold serial. apply in_map_iff. exists mc. auto. Qed.

  (** the caller's lines: a record is yielded iff the union (with if_all_agree: the conjunction) of
      the decisions of the members still running holds; nothing is yielded after all have stopped *)
  Theorem caller_lines_step agree ms sts out nl :
    byline_step C X agree ms (sts, out) nl =
      if forallb (halted C X) sts then (sts, out)
      else (step_all C X ms sts nl,
            if keep agree (decisions C X sts (step_all C X ms sts nl)) then out ++ [snd nl] else out).
  Proof. reflexivity. Qed.
End GroupProofs.
