From Coq Require Import ZArith List Bool Lia.
From V Require Import Csv.CsvModel Csv.CsvProofs Mgr.Archive.
Import ListNotations.
Open Scope Z_scope.

Lemma std_ok : dialect_ok std.
Proof. unfold dialect_ok, std, CR, LF. cbn. repeat split; discriminate. Qed.

Section ArchiveProofs.
  Variable J : Type.
  Variable jenc : J -> ustring.
  Variable jdec : ustring -> option J.
  Variable sha : ustring -> Z.
  Hypothesis json_rt : forall j, jdec (jenc j) = Some j.

  Notation mresult := (mresult J).
  Notation member_ops := (member_ops J jenc).
  Notation run_ops := (run_ops sha).

  Lemma fname_eqb_eq a b : fname_eqb a b = true <-> a = b.
  Proof. destruct a, b; cbn; split; intros H; try discriminate; reflexivity. Qed.

  (** appends to data.csv accumulate, nothing else touches it *)
  Lemma appends_data : forall (ls : list (list ustring)) f fp f2 fp2,
    fold_left (apply_op sha) (map (fun l => Append Data (write_row std l)) ls) (f, fp) = (f2, fp2) ->
    f2 Data = match ls, f Data with
              | [], o => o
              | _, Some old => Some (old ++ csv_write std ls)
              | _, None => Some (csv_write std ls)
              end
    /\ (forall k, k <> Data -> f2 k = f k) /\ fp2 = fp.
  Proof.
    induction ls as [|l ls IH]; intros f fp f2 fp2 E.
    - cbn in E. inversion E; subst. destruct (f2 Data); auto.
    - cbn [map fold_left apply_op] in E. apply IH in E. destruct E as (H1 & H2 & H3).
      split; [|split; [|exact H3]].
      + rewrite H1. cbn [fname_eqb]. unfold csv_write. cbn [flat_map].
        destruct ls as [|l2 ls2]; destruct (f Data); cbn; rewrite ?app_nil_r, <- ?app_assoc; reflexivity.
      + intros k Hk. rewrite (H2 k Hk). destruct (fname_eqb k Data) eqn:Ek; [apply fname_eqb_eq in Ek; contradiction|reflexivity].
  Qed.

  (** what is on disk after a member has been saved *)
  Theorem member_files (r : mresult) :
    let f := fst (run_ops (member_ops r)) in
    f Data = (match m_lines J r with [] => None | ls => Some (csv_write std ls) end) /\
    f Vars = Some (jenc (m_vars J r)) /\ f Errors = Some (jenc (m_errors J r)) /\ f Meta = Some (jenc (m_meta J r)) /\
    f Unmatched = (match m_unmatched J r with [] => None | u => Some (csv_write std u) end) /\
    f Printouts = (match m_printouts J r with [] => None | p => Some (printouts_text p) end).
  Proof.
    cbn zeta. unfold Archive.run_ops, Archive.member_ops. rewrite !fold_left_app.
    destruct (fold_left (apply_op sha) (map (fun l => Append Data (write_row std l)) (m_lines J r)) (fs0, fun _ => None)) as [f0 fp0] eqn:E.
    destruct (appends_data (m_lines J r) fs0 (fun _ => None) f0 fp0 E) as (H1 & H2 & H3).
    destruct (m_unmatched J r) as [|u us]; destruct (m_printouts J r) as [|p ps]; cbn; rewrite ?H1, ?H2 by discriminate;
      destruct (m_lines J r); cbn; repeat split; reflexivity.
  Qed.

  (** the recorded fingerprints are those of the bytes finally on disk (nothing is written after them) *)
  Theorem fingerprints_final (r : mresult) : forall k,
    snd (run_ops (member_ops r)) k = option_map sha (fst (run_ops (member_ops r)) k).
  Proof.
    intros k. unfold Archive.run_ops, Archive.member_ops. rewrite !app_assoc. rewrite fold_left_app. cbn [fold_left apply_op].
    destruct (fold_left (apply_op sha) _ (fs0, fun _ => None)) as [f0 fp0]. reflexivity.
  Qed.

  (** reading the files back gives the in-memory results *)
  Theorem member_readback (r : mresult) : no_cr (m_lines J r) -> no_cr (m_unmatched J r) ->
    let f := fst (run_ops (member_ops r)) in
    option_map jdec (f Vars) = Some (Some (m_vars J r)) /\ option_map jdec (f Errors) = Some (Some (m_errors J r)) /\
    (m_lines J r <> [] -> option_map (read_file std) (f Data) = Some (m_lines J r)) /\
    (m_lines J r = [] -> f Data = None) /\
    (m_unmatched J r <> [] -> option_map (read_file std) (f Unmatched) = Some (m_unmatched J r)).
  Proof.
    intros Hl Hu. destruct (member_files r) as (H1 & H2 & H3 & H4 & H5 & H6). cbn zeta.
    rewrite H1, H2, H3, H5. cbn. rewrite !json_rt. repeat split; auto.
    - intros Hne. destruct (m_lines J r) as [|l ls] eqn:E; [contradiction|].
      change (Some (read_file std (csv_write std (l :: ls))) = Some (l :: ls)). rewrite csv_roundtrip; [reflexivity|apply std_ok|exact Hl].
    - intros ->. reflexivity.
    - intros Hne. destruct (m_unmatched J r) as [|l ls] eqn:E; [contradiction|].
      change (Some (read_file std (csv_write std (l :: ls))) = Some (l :: ls)). rewrite csv_roundtrip; [reflexivity|apply std_ok|exact Hu].
  Qed.

  Theorem run_manifest_is_conjunction (rs : list mresult) :
    rm_all_valid (run_manifest J rs) = forallb (fun r => mm_valid (member_manifest J jenc sha r)) rs /\
    rm_all_completed (run_manifest J rs) = forallb (fun r => mm_completed (member_manifest J jenc sha r)) rs /\
    rm_error_count (run_manifest J rs) = fold_right (fun r n => (mm_error_count (member_manifest J jenc sha r) + n)%nat) O rs /\
    rm_status_complete (run_manifest J rs) = true.
  Proof. cbn. repeat split. Qed.
End ArchiveProofs.
