From Coq Require Import ZArith List Bool Lia.
From V Require Import Csv.CsvModel Csv.CsvProofs Data.DataModel Mgr.Archive Mgr.ArchiveProofs Mgr.Cache.
Import ListNotations.
Open Scope Z_scope.

(** the repaired cache row survives: any header cells without CR (quotes, delimiters, newlines, empty, none) *)
Theorem header_cache_roundtrip (hs : headers) : Forall (fun h => ~ In CR h) hs -> decode (encode false hs) = hs.
Proof.
  intros H. unfold decode, encode. rewrite csv_roundtrip; [|apply std_ok|constructor; [exact H|constructor]].
  cbn. destruct hs; reflexivity.
Qed.

(** D10: with ","-join the row does not survive a header cell that starts with a quote, or the single header "" *)
Theorem header_cache_refuted :
  decode (encode true [[34; 113]; [97]]) <> [[34; 113]; [97]] /\ decode (encode true [[]]) <> [[]] /\
  decode (encode true [[97; 10; 98]]) <> [[97; 10; 98]] /\ decode (encode false [[34; 113]; [97]]) = [[34; 113]; [97]].
Proof. vm_compute. repeat split; discriminate. Qed.

Section CacheProofs.
  Variable LM : Type.
  Variable truth : Z -> LM * headers.
  Variable lm_rt : LM -> LM.
  Hypothesis lm_rt_id : forall lm, lm_rt lm = lm.
  Hypothesis truth_no_cr : forall f, Forall (fun h => ~ In CR h) (snd (truth f)).

  Notation cstate := (cstate LM).

  (** every cache entry, in memory or on disk, is what a fresh count of the file gives *)
  Definition Inv (s : cstate) : Prop :=
    (forall f e, mem LM s f = Some e -> e = truth f) /\
    (forall f lm t, disk LM s f = Some (lm, t) -> lm = fst (truth f) /\ t = encode false (snd (truth f))).

  Lemma lookup_inv s f : Inv s -> let (s', e) := lookup LM truth lm_rt false s f in Inv s' /\ e = truth f.
  Proof.
    intros [Hm Hd]. unfold lookup. destruct (mem LM s f) as [e|] eqn:Em.
    - split; [split; assumption|]. apply (Hm f e Em).
    - destruct (disk LM s f) as [[lm t]|] eqn:Ed.
      + destruct (Hd f lm t Ed) as [-> ->]. rewrite lm_rt_id, (header_cache_roundtrip _ (truth_no_cr f)).
        assert (Et: (fst (truth f), snd (truth f)) = truth f) by (destruct (truth f); reflexivity).
        rewrite Et. split; [|reflexivity]. split; cbn.
        * intros k e. destruct (k =? f) eqn:Ek; [apply Z.eqb_eq in Ek; subst; intros H; inversion H; reflexivity|apply Hm].
        * exact Hd.
      + split; [|reflexivity]. split; cbn.
        * intros k e. destruct (k =? f) eqn:Ek; [apply Z.eqb_eq in Ek; subst; intros H; inversion H; reflexivity|apply Hm].
        * intros k lm t. destruct (k =? f) eqn:Ek; [apply Z.eqb_eq in Ek; subst; intros H; inversion H; auto|apply Hd].
  Qed.

  Lemma step_inv s j : Inv s -> let (s', o) := step LM truth lm_rt false s j in Inv s' /\ o = fresh LM truth j.
  Proof.
    intros H. destruct j as [f|f| |]; cbn.
    - pose proof (lookup_inv s f H) as L. destruct (lookup LM truth lm_rt false s f) as [s' e]. destruct L as [L1 ->]. auto.
    - auto.
    - split; [|reflexivity]. destruct H as [Hm Hd]. split; cbn; [intros; discriminate|exact Hd].
    - split; [|reflexivity]. destruct H as [Hm Hd]. split; cbn; [intros; discriminate|exact Hd].
  Qed.

  (** C19: whatever was run before in the process, whether the caches are cold or warm (also
      populated by an earlier process), and however the CsvPath was created, every job sees exactly
      what it would see run first in a fresh process *)
  Theorem history_independent : forall js s, Inv s -> run LM truth lm_rt false s js = map (fresh LM truth) js.
  Proof.
    induction js as [|j js IH]; intros s H; [reflexivity|]. cbn [run map].
    pose proof (step_inv s j H) as S. destruct (step LM truth lm_rt false s j) as [s' o]. destruct S as [S1 ->].
    rewrite (IH s' S1). reflexivity.
  Qed.

  Corollary from_cold js : run LM truth lm_rt false (mkCS LM (fun _ => None) (fun _ => None)) js = map (fresh LM truth) js.
  Proof. apply history_independent. split; cbn; intros; discriminate. Qed.

  Corollary repeatable j s : Inv s ->
    let (s1, o1) := step LM truth lm_rt false s j in let (s2, o2) := step LM truth lm_rt false s1 j in o1 = o2.
  Proof.
    intros H. pose proof (step_inv s j H) as S. destruct (step LM truth lm_rt false s j) as [s1 o1]. destruct S as [S1 ->].
    pose proof (step_inv s1 j S1) as S'. destruct (step LM truth lm_rt false s1 j) as [s2 o2]. destruct S' as [_ ->]. reflexivity.
  Qed.
End CacheProofs.
