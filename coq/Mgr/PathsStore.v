(** Model of the named-paths store (csvpath/managers/paths/paths_manager.py: _str_from_list,
    _get_named_paths (str.split on the marker, blank filter), get_identified_paths_in, _find_one,
    _get_to, _get_from; paths_registrar.py: the manifest rule).  No proofs here. *)
From Coq Require Import ZArith List Bool.
From V Require Import Csv.CsvModel Data.DataModel.
Import ListNotations.
Open Scope Z_scope.

(** "---- CSVPATH ----" *)
Definition MARKER : ustring := [45;45;45;45;32;67;83;86;80;65;84;72;32;45;45;45;45].
Definition NL : Z := 10.

Fixpoint is_prefix (m s : ustring) : bool :=
  match m, s with
  | [], _ => true
  | _ :: _, [] => false
  | a :: m', b :: s' => (a =? b) && is_prefix m' s'
  end.

(** str.split(M): leftmost, non-overlapping occurrences.  [skip] counts marker characters still to
    be consumed, [cur] is the piece being collected (reversed) *)
Fixpoint split_go (M : ustring) (skip : nat) (cur : ustring) (s : ustring) : list ustring :=
  match s with
  | [] => [rev cur]
  | c :: r =>
      match skip with
      | S k => split_go M k cur r
      | O => if is_prefix M s then rev cur :: split_go M (length M - 1) [] r
             else split_go M 0 (c :: cur) r
      end
  end.
Definition split (M s : ustring) : list ustring := split_go M 0 [] s.

Definition str_from_list (ps : list ustring) : ustring :=
  flat_map (fun p => [NL; NL] ++ MARKER ++ [NL; NL] ++ p) ps.

Definition nonblank (s : ustring) : bool := match strip s with [] => false | _ => true end.

(** what add_named_paths writes and get_named_paths reads back *)
Definition stored_paths (group_file : ustring) : list ustring := filter nonblank (split MARKER group_file).

(** * selection by identity *)
Section Select.
  Variable I : Type.
  Variable ieqb : I -> I -> bool.
  Definition idpaths := list (I * ustring).

  Fixpoint find_one (id : I) (l : idpaths) : option ustring :=
    match l with [] => None | (i, p) :: r => if ieqb i id then Some p else find_one id r end.
  Fixpoint get_to (id : I) (l : idpaths) : list ustring :=
    match l with [] => [] | (i, p) :: r => if ieqb i id then [p] else p :: get_to id r end.
  Fixpoint get_from (id : I) (l : idpaths) : list ustring :=
    match l with [] => [] | (i, p) :: r => if ieqb i id then map snd l else get_from id r end.
End Select.

(** * the manifest rule: an entry per change of the group file's fingerprint *)
Definition man_add (sha : ustring -> Z) (man : list Z) (group_file : ustring) : list Z :=
  match rev man with
  | f :: _ => if f =? sha group_file then man else man ++ [sha group_file]
  | [] => man ++ [sha group_file]
  end.

(** * identities (CsvPath.identity after MetadataParser.extract_metadata) *)
From V Require Import Meta.MetaModel.

Definition k_id := [105;100].    Definition k_Id := [73;100].    Definition k_ID := [73;68].
Definition k_name := [110;97;109;101]. Definition k_Name := [78;97;109;101]. Definition k_NAME := [78;65;77;69].

Definition identity_of_fields (fs : fields) : ustring :=
  let get k := match lookup k fs with Some (Some v) => Some v | Some None => Some [] | None => None end in
  match get k_id with Some v => v | None =>
  match get k_Id with Some v => v | None =>
  match get k_ID with Some v => v | None =>
  match get k_name with Some v => v | None =>
  match get k_Name with Some v => v | None =>
  match get k_NAME with Some v => v | None => [] end end end end end end.

(** None = the metadata parser raises on this csvpath *)
Definition identity_of_path (p : ustring) : option ustring :=
  let '(_, cm) := extract_csvpath_and_comment (strip p) in
  match strip cm with
  | [] => Some []
  | c => option_map identity_of_fields (collect_metadata c)
  end.

(** a whole store: name -> (group file text, manifest fingerprints); remove deletes both *)
Record pstore := mkPS { ps_file : Z -> option ustring; ps_man : Z -> list Z }.
Inductive pop := PAdd (name : Z) (paths : list ustring) | PRemove (name : Z) | PNew.
Definition pstep (sha : ustring -> Z) (s : pstore) (o : pop) : pstore :=
  match o with
  | PAdd n ps =>
      let g := str_from_list ps in
      mkPS (fun k => if k =? n then Some g else ps_file s k) (fun k => if k =? n then man_add sha (ps_man s n) g else ps_man s k)
  | PRemove n => mkPS (fun k => if k =? n then None else ps_file s k) (fun k => if k =? n then [] else ps_man s k)
  | PNew => s
  end.
