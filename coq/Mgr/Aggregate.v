(** The aggregate verdict of a named-paths run: Result.is_valid (managers/results/result.py),
    ResultsManager.is_valid (results_manager.py) and ResultsRegistrar.all_valid
    (results_registrar.py, written to the run manifest). *)
From Coq Require Import List Bool.
Import ListNotations.

Record member := mkMember { m_started : bool;    (* the csvpath looked at a record: run_started_at is set *)
                            m_valid : bool }.    (* CsvPath.is_valid *)

Definition result_is_valid (m : member) : bool := if m_started m then m_valid m else false.
Definition results_manager_is_valid (ms : list member) : bool := forallb result_is_valid ms.
Definition manifest_all_valid (ms : list member) : bool := forallb m_valid ms.

(** for members that read at least one record both aggregates are the conjunction of the verdicts *)
Theorem aggregate_agree ms : forallb m_started ms = true ->
  results_manager_is_valid ms = manifest_all_valid ms.
Proof.
  induction ms as [|m ms IH]; [reflexivity|]. cbn. intros H. apply andb_prop in H. destruct H as [H1 H2].
  unfold result_is_valid at 1. rewrite H1. f_equal. exact (IH H2).
Qed.

(** D12 (open finding): a member that read no record (run-mode: no-run, or an empty file) *)
Theorem aggregate_unstarted_refuted :
  results_manager_is_valid [mkMember false true] = false /\ manifest_all_valid [mkMember false true] = true.
Proof. split; reflexivity. Qed.
