From Coq Require Import ZArith List Bool Lia.
From V Require Import Scan.ScanModel Scan.ScanSpec.
Import ListNotations.
Open Scope Z_scope.

Lemma mem_In x l : mem x l = true <-> In x l.
Proof.
  unfold mem. rewrite existsb_exists. split.
  - intros [y [Hy He]]. apply Z.eqb_eq in He. subst. exact Hy.
  - intros H. exists x. split; [exact H | apply Z.eqb_refl].
Qed.

Lemma mem_false x l : mem x l = false <-> ~ In x l.
Proof. rewrite <- mem_In. destruct (mem x l); split; congruence. Qed.

Lemma In_add_if_absent y x l : In y (add_if_absent x l) <-> In y l \/ y = x.
Proof.
  unfold add_if_absent. destruct (mem x l) eqn:E.
  - apply mem_In in E. split; [tauto|]. intros [H|H]; subst; auto.
  - rewrite in_app_iff. simpl. split; intros [H|H]; auto.
    + destruct H as [H|[]]; auto.
Qed.

Lemma In_add_range_n y n : forall st l,
  In y (add_range_n st n l) <-> In y l \/ (st <= y < st + Z.of_nat n).
Proof.
  induction n as [|n IH]; intros st l.
  - simpl. split; [tauto|]. intros [H|H]; [exact H|lia].
  - cbn [add_range_n]. rewrite IH, In_add_if_absent, Nat2Z.inj_succ. intuition lia.
Qed.

Lemma In_add_range y f t l : In y (add_range f t l) <-> In y l \/ (f <= y <= t).
Proof. unfold add_range. rewrite In_add_range_n. intuition lia. Qed.

Lemma add_range_n_nonempty n : forall st l, l <> [] -> add_range_n st n l <> [].
Proof.
  induction n as [|n IH]; intros st l H; simpl; [exact H|].
  apply IH. unfold add_if_absent. destruct (mem st l); [exact H|].
  destruct l; simpl; congruence.
Qed.

Lemma add_range_nonempty_from_empty f t : f <= t -> add_range f t [] <> [].
Proof.
  intros H. unfold add_range.
  destruct (Z.to_nat (t + 1 - f)) eqn:E; [lia|].
  cbn [add_range_n]. apply add_range_n_nonempty. unfold add_if_absent. simpl. congruence.
Qed.

Lemma add_range_nonempty f t l : l <> [] -> add_range f t l <> [].
Proof. apply add_range_n_nonempty. Qed.

Lemma fold_max_ge r : forall x y, (In y r \/ y = x) -> y <= fold_left Z.max r x.
Proof.
  induction r as [|a r IH]; intros x y H; simpl.
  - destruct H as [[]|H]; lia.
  - destruct H as [[H|H]|H].
    + subst. specialize (IH (Z.max x y) (Z.max x y)). lia.
    + apply IH. auto.
    + subst. specialize (IH (Z.max x a) (Z.max x a)). lia.
Qed.

Lemma list_max_ge l m y : list_max l = Some m -> In y l -> y <= m.
Proof.
  destruct l as [|x r]; simpl; [congruence|]. intros H Hy. inversion H; subst.
  apply fold_max_ge. destruct Hy; auto.
Qed.

(** * The invariant of the parse of an [Items] shape *)

Definition covered (its : list item) (l : Z) : Prop := exists it, In it its /\ covers it l = true.

(** state A: everything already moved into [these] *)
Definition invA (its : list item) (top : Z) (s : sc) : Prop :=
  from_line s = None /\ to_line s = None /\ all_lines s = false /\ these s <> [] /\
  (forall l, In l (these s) <-> covered its l) /\ (forall l, In l (these s) -> l <= top).

(** state B: a leading forward range still held in from/to *)
Definition invB (a b : Z) (s : sc) : Prop :=
  from_line s = Some a /\ to_line s = Some b /\ all_lines s = false /\ these s = [].

Lemma covered_app its it l : covered (its ++ [it]) l <-> covered its l \/ covers it l = true.
Proof.
  unfold covered. split.
  - intros [i [Hi Hc]]. apply in_app_iff in Hi. destruct Hi as [Hi|[Hi|[]]]; subst; eauto.
  - intros [[i [Hi Hc]]|H]; [exists i|exists it]; rewrite in_app_iff; simpl; auto.
Qed.

Lemma p0_A its top s : invA its top s -> p0 s = PAlias.
Proof. intros (_&_&_&Hn&_). unfold p0. destruct (these s); congruence. Qed.

Lemma p0_ne s : these s <> [] -> p0 s = PAlias.
Proof. unfold p0. destruct (these s); congruence. Qed.

Lemma app_ne {A} (l : list A) x : l ++ [x] <> [].
Proof. destruct l; discriminate. Qed.

Lemma extend_alias s : these s <> [] -> extend_if s PAlias = Some s.
Proof.
  intros H. unfold extend_if, deref. destruct (these s) as [|z r] eqn:E; [congruence|].
  cbn [map]. assert (Hm: mem z (z :: r) = true) by (apply mem_In; left; reflexivity).
  rewrite Hm. reflexivity.
Qed.

Lemma extend_fresh_new s n : ~ In n (these s) ->
  extend_if s (PFresh [Some n]) = Some (mkSc (these s ++ [n]) (from_line s) (to_line s) (all_lines s)).
Proof.
  intros H. unfold extend_if, deref. apply mem_false in H. rewrite H. reflexivity.
Qed.

Lemma extend_fresh_old s n : In n (these s) -> extend_if s (PFresh [Some n]) = Some s.
Proof. intros H. unfold extend_if, deref. apply mem_In in H. rewrite H. reflexivity. Qed.

(** [+ n] from state A *)
Lemma plus_A its top s n : invA its top s -> top < n ->
  exists s', red_expr false (Some (s, PAlias)) (Plus, TNum n) = Some (s', PAlias) /\
             invA (its ++ [One n]) n s' /\ these s' = these s ++ [n].
Proof.
  intros HA Hn. pose proof HA as (Hf&Ht&Ha&Hne&Hcov&Hle).
  assert (Hnot: ~ In n (these s)) by (intro Hi; apply Hle in Hi; lia).
  exists (mkSc (these s ++ [n]) (from_line s) (to_line s) (all_lines s)). split; [|split].
  - unfold red_expr, red_term, add_two_lines, move_range_to_these. rewrite Hf. cbn [tru negb orb].
    rewrite (extend_alias s Hne). rewrite (extend_fresh_new s n Hnot).
    rewrite p0_ne; [rewrite Hf; reflexivity|apply app_ne].
  - unfold invA. cbn [these from_line to_line all_lines]. repeat split; auto.
    + destruct (these s); discriminate.
    + intros Hi. apply covered_app. apply in_app_iff in Hi. destruct Hi as [Hi|[Hi|[]]].
      * left. apply Hcov. exact Hi.
      * right. subst. simpl. apply Z.eqb_refl.
    + intros Hc. apply covered_app in Hc. apply in_app_iff. destruct Hc as [Hc|Hc].
      * left. apply Hcov. exact Hc.
      * right. simpl in Hc. apply Z.eqb_eq in Hc. subst. left. reflexivity.
    + intros l Hi. apply in_app_iff in Hi. destruct Hi as [Hi|[Hi|[]]]; [apply Hle in Hi; lia|lia].
  - reflexivity.
Qed.

Lemma last_map_some (l : list Z) n : last (map Some (l ++ [n])) None = Some n.
Proof.
  rewrite map_app. apply last_last.
Qed.

(** [- b] after [+ a] from state A with at least two entries in [these] *)
Lemma minus_A its (s0 s : sc) a b :
  invA (its ++ [One a]) a s -> these s = these s0 ++ [a] -> these s0 <> [] -> a <= b ->
  exists s', red_expr false (Some (s, PAlias)) (Minus, TNum b) = Some (s', PAlias) /\
             invA (its ++ [Rng a b]) b s'.
Proof.
  intros HA Hth Hne0 Hab. pose proof HA as (Hf&Ht&Ha&Hne&Hcov&Hle).
  exists (mkSc (add_range a b (these s)) None None (all_lines s)). split.
  - unfold red_expr, red_term, collect_a_line_range. rewrite Hf. cbn [tru andb].
    unfold deref. rewrite Hth.
    destruct (these s0) as [|z0 r0] eqn:E0; [congruence|].
    cbn [app map].
    destruct (map Some (r0 ++ [a])) as [|y ys] eqn:E1; [destruct r0; discriminate|].
    cbn [length].
    replace (1 <? Z.of_nat (S (S (length ys)))) with true by (symmetry; apply Z.ltb_lt; lia).
    assert (Hl: last (Some z0 :: y :: ys) None = Some a).
    { rewrite <- E1. change (Some z0 :: map Some (r0 ++ [a])) with (map Some ((z0 :: r0) ++ [a])).
      apply last_map_some. }
    rewrite Hl. cbn [these from_line to_line all_lines].
    unfold move_range_to_these. cbn [these from_line to_line all_lines tru negb orb].
    rewrite p0_ne; [rewrite Hth; reflexivity|cbn [these]; apply add_range_nonempty; cbn; congruence].
  - unfold invA. cbn [these from_line to_line all_lines]. repeat split; auto.
    + apply add_range_nonempty. exact Hne.
    + intros Hi. apply In_add_range in Hi. apply covered_app. destruct Hi as [Hi|Hi].
      * apply Hcov in Hi. apply covered_app in Hi. destruct Hi as [Hi|Hi]; [left; exact Hi|].
        right. simpl in *. apply Z.eqb_eq in Hi. subst. lia.
      * right. simpl. lia.
    + intros Hc. apply In_add_range. apply covered_app in Hc. destruct Hc as [Hc|Hc].
      * left. apply Hcov. apply covered_app. left. exact Hc.
      * right. simpl in Hc. lia.
    + intros l Hi. apply In_add_range in Hi. destruct Hi as [Hi|Hi]; [apply Hle in Hi; lia|lia].
Qed.

(** [+ n] from state B *)
Lemma plus_B a b s n : invB a b s -> a <= b -> b < n ->
  exists s', red_expr false (Some (s, PFresh [Some a])) (Plus, TNum n) = Some (s', PAlias) /\
             invA ([Rng a b] ++ [One n]) n s' /\ exists t0, these s' = t0 ++ [n] /\ t0 <> [].
Proof.
  intros (Hf&Ht&Ha&Hth) Hab Hn.
  set (s1 := mkSc (add_range a b []) None None false).
  assert (Hin_a: In a (these s1)) by (apply In_add_range; right; lia).
  assert (Hnot: ~ In n (these s1)) by (intro Hi; apply In_add_range in Hi; destruct Hi as [[]|Hi]; lia).
  exists (mkSc (add_range a b [] ++ [n]) None None false). split; [|split].
  - unfold red_expr, red_term, add_two_lines, move_range_to_these.
    rewrite Hf, Ht, Hth, Ha. cbn [tru negb orb]. fold s1.
    rewrite (extend_fresh_old s1 a Hin_a). rewrite (extend_fresh_new s1 n Hnot).
    rewrite p0_ne; [reflexivity|apply app_ne].
  - unfold invA. cbn [these from_line to_line all_lines]. repeat split; auto.
    + destruct (add_range a b []); discriminate.
    + intros Hi. apply in_app_iff in Hi. destruct Hi as [Hi|[Hi|[]]].
      * apply In_add_range in Hi. destruct Hi as [[]|Hi]. exists (Rng a b). split; [left; reflexivity|simpl; lia].
      * subst. exists (One l). split; [right; left; reflexivity|simpl; apply Z.eqb_refl].
    + intros [it [Hi Hc]]. apply in_app_iff. destruct Hi as [Hi|[Hi|[]]]; subst; simpl in Hc.
      * left. apply In_add_range. right. lia.
      * right. left. apply Z.eqb_eq in Hc. exact Hc.
    + intros l Hi. apply in_app_iff in Hi. destruct Hi as [Hi|[Hi|[]]]; [|lia].
      apply In_add_range in Hi. destruct Hi as [[]|Hi]. lia.
  - exists (add_range a b []). split; [reflexivity|]. apply add_range_nonempty_from_empty. exact Hab.
Qed.

(** * Processing the tail of an [Items] shape *)

Inductive pstate := StA (its : list item) (top : Z) (s : sc) | StB (a b : Z) (s : sc).

Lemma tail_from_A : forall r its top s,
  invA its top s -> asc top r ->
  exists s', fold_left (red_expr false) (flat_map toks_of_item r) (Some (s, PAlias)) = Some (s', PAlias)
             /\ exists top', invA (its ++ r) top' s'.
Proof.
  induction r as [|it r IH]; intros its top s HA Hasc.
  - exists s. split; [reflexivity|]. exists top. rewrite app_nil_r. exact HA.
  - destruct Hasc as (Hlo & Hlh & Hasc). destruct it as [n|a b]; cbn [lo hi] in *.
    + destruct (plus_A its top s n HA Hlo) as (s1 & Hred & HA1 & _).
      destruct (IH (its ++ [One n]) n s1 HA1 Hasc) as (s' & Hf & top' & HA').
      exists s'. split.
      * cbn [flat_map toks_of_item app fold_left]. rewrite Hred. exact Hf.
      * exists top'. rewrite <- app_assoc in HA'. exact HA'.
    + destruct (plus_A its top s a HA Hlo) as (s1 & Hred & HA1 & Hth).
      pose proof HA as (_&_&_&Hne&_).
      destruct (minus_A its s s1 a b HA1 Hth Hne Hlh) as (s2 & Hred2 & HA2).
      destruct (IH (its ++ [Rng a b]) b s2 HA2 Hasc) as (s' & Hf & top' & HA').
      exists s'. split.
      * cbn [flat_map toks_of_item app fold_left]. rewrite Hred, Hred2. exact Hf.
      * exists top'. rewrite <- app_assoc in HA'. exact HA'.
Qed.

Lemma first_one n : invA [One n] n (mkSc [n] None None false).
Proof.
  unfold invA. cbn. repeat split; try congruence.
  - intros [H|[]]. subst. exists (One l). split; [left; reflexivity|simpl; apply Z.eqb_refl].
  - intros [it [[Hi|[]] Hc]]. subst. simpl in Hc. apply Z.eqb_eq in Hc. auto.
  - intros l [H|[]]. lia.
Qed.

Lemma extend_first a : extend_if sc0 (PFresh [Some a]) = Some (mkSc [a] None None false).
Proof. reflexivity. Qed.

Lemma p0_first a : p0 (mkSc [a] None None false) = PAlias.
Proof. reflexivity. Qed.

Lemma parse_items_one n r : asc n r ->
  exists s top, parse false (ast_of (Items (One n) r)) = Some s /\ invA (One n :: r) top s.
Proof.
  intros Hasc. cbn [ast_of parse red_term collect_a_line_number].
  rewrite extend_first, p0_first.
  destruct (tail_from_A r [One n] n _ (first_one n) Hasc) as (s' & Hf & top' & HA').
  rewrite Hf. exists s', top'. split; [reflexivity|exact HA'].
Qed.

Lemma first_rng a b :
  red_expr false (Some (mkSc [a] None None false, PAlias)) (Minus, TNum b) =
    Some (mkSc [] (Some a) (Some b) false, PFresh [Some a]).
Proof.
  unfold red_expr, red_term, collect_a_line_range, deref. cbn. rewrite Z.eqb_refl. reflexivity.
Qed.

Lemma parse_items_rng a b r : a <= b -> asc b r ->
  exists s, parse false (ast_of (Items (Rng a b) r)) = Some s /\
    ((r = [] /\ invB a b s) \/ exists top, invA (Rng a b :: r) top s).
Proof.
  intros Hab Hasc. cbn [ast_of parse red_term collect_a_line_number].
  rewrite extend_first, p0_first. cbn [fold_left]. rewrite first_rng.
  destruct r as [|it r].
  - cbn. eexists. split; [reflexivity|]. left. split; [reflexivity|]. unfold invB. cbn. auto.
  - destruct Hasc as (Hlo & Hlh & Hasc).
    assert (HB: invB a b (mkSc [] (Some a) (Some b) false)) by (unfold invB; cbn; auto).
    destruct it as [n|a2 b2]; cbn [lo hi] in *.
    + destruct (plus_B a b _ n HB Hab Hlo) as (s1 & Hred & HA1 & _).
      destruct (tail_from_A r _ n s1 HA1 Hasc) as (s' & Hf & top' & HA').
      exists s'. split.
      * cbn [flat_map toks_of_item app fold_left]. rewrite Hred, Hf. reflexivity.
      * right. exists top'. rewrite <- app_assoc in HA'. exact HA'.
    + destruct (plus_B a b _ a2 HB Hab Hlo) as (s1 & Hred & HA1 & t0 & Hth & Hne).
      destruct (minus_A [Rng a b] (mkSc t0 None None false) s1 a2 b2 HA1 Hth Hne Hlh) as (s2 & Hred2 & HA2).
      destruct (tail_from_A r _ b2 s2 HA2 Hasc) as (s' & Hf & top' & HA').
      exists s'. split.
      * cbn [flat_map toks_of_item app fold_left]. rewrite Hred, Hred2, Hf. reflexivity.
      * right. exists top'. rewrite <- app_assoc in HA'. exact HA'.
Qed.

Lemma existsb_covered its l : existsb (fun it => covers it l) its = true <-> covered its l.
Proof. rewrite existsb_exists. reflexivity. Qed.

Lemma includes_A its top s l : invA its top s -> includes s l = existsb (fun it => covers it l) its.
Proof.
  intros (Hf&Ht&Ha&Hne&Hcov&Hle). unfold includes. rewrite Hf, Ht, Ha.
  destruct (mem l (these s)) eqn:E.
  - apply mem_In in E. apply Hcov in E. apply existsb_covered in E. congruence.
  - apply mem_false in E. destruct (existsb _ its) eqn:E2; [|reflexivity].
    apply existsb_covered in E2. apply Hcov in E2. contradiction.
Qed.

Lemma includes_B a b s l : invB a b s -> a <= b -> includes s l = (a <=? l) && (l <=? b).
Proof.
  intros (Hf&Ht&Ha&Hth) Hab. unfold includes. rewrite Hf, Ht, Ha.
  destruct (a =? l) eqn:E1; [apply Z.eqb_eq in E1; subst; lia|].
  destruct (b <? a) eqn:E2; [lia|]. reflexivity.
Qed.

Theorem includes_denotes : forall sh l, wf sh ->
  exists s, parse false (ast_of sh) = Some s /\ includes s l = denotes sh l.
Proof.
  intros sh l Hwf. destruct sh as [|n|a b|i r].
  - eexists. split; [reflexivity|]. reflexivity.
  - eexists. split; [reflexivity|]. reflexivity.
  - eexists. split; [cbn; rewrite Z.eqb_refl; reflexivity|].
    unfold includes, denotes. cbn [from_line to_line all_lines].
    destruct (a =? l) eqn:E1; [apply Z.eqb_eq in E1; subst; lia|].
    destruct (b <? a) eqn:E2; lia.
  - destruct Hwf as (Hlh & Hasc). destruct i as [n|a b]; cbn [lo hi] in *.
    + destruct (parse_items_one n r Hasc) as (s & top & Hp & HA).
      exists s. split; [exact Hp|]. rewrite (includes_A _ _ _ l HA). reflexivity.
    + destruct (parse_items_rng a b r Hlh Hasc) as (s & Hp & [[Hr HB]|[top HA]]).
      * exists s. split; [exact Hp|]. subst r. rewrite (includes_B a b s l HB Hlh).
        cbn. rewrite orb_false_r. reflexivity.
      * exists s. split; [exact Hp|]. rewrite (includes_A _ _ _ l HA). reflexivity.
Qed.

(** is_last is sound: once it answers true (so the run stops) no later line, up to the end
    of the file, is denoted. *)
Theorem is_last_sound : forall sh s e l l', wf sh -> parse false (ast_of sh) = Some s ->
  is_last false s e l = true -> l < l' -> (forall E, e = Some E -> l' <= E) ->
  denotes sh l' = false.
Proof.
  intros sh s e l l' Hwf Hp Hl Hlt He.
  destruct sh as [|n|a b|i r].
  - cbn in Hp. inversion Hp; subst. cbn in Hl. destruct e as [E|]; cbn in Hl; [|discriminate].
    apply Z.eqb_eq in Hl. specialize (He E eq_refl). lia.
  - cbn in Hp. inversion Hp; subst. cbn in Hl. destruct e as [E|]; cbn in Hl; [|discriminate].
    apply Z.eqb_eq in Hl. specialize (He E eq_refl). lia.
  - cbn in Hp. rewrite Z.eqb_refl in Hp. inversion Hp; subst. clear Hp.
    unfold is_last in Hl. cbn [from_line to_line all_lines these tru andb list_max] in Hl.
    unfold denotes. destruct (b <? a) eqn:E; cbn [oeqb] in Hl.
    + destruct (a =? l) eqn:E2; [|discriminate]. lia.
    + destruct (b =? l) eqn:E2; [|discriminate]. lia.
  - destruct Hwf as (Hlh & Hasc).
    assert (HAcase: forall top, invA (i :: r) top s -> denotes (Items i r) l' = false).
    { intros top HA. cbn [denotes]. rewrite <- (includes_A _ _ _ l' HA).
      destruct HA as (Hf&Ht&Ha&Hne&Hcov&Hle).
      unfold is_last in Hl. rewrite Hf, Ht, Ha in Hl. cbn [oeqb tru negb] in Hl.
      destruct (list_max (these s)) as [m|] eqn:Em; [|discriminate].
      rewrite andb_true_r in Hl. apply Z.eqb_eq in Hl. subst m.
      unfold includes. rewrite Hf, Ht, Ha.
      destruct (mem l' (these s)) eqn:E; [|reflexivity].
      apply mem_In in E. apply (list_max_ge _ _ _ Em) in E. lia. }
    destruct i as [n|a b]; cbn [lo hi] in *.
    + destruct (parse_items_one n r Hasc) as (s1 & top & Hp1 & HA). rewrite Hp in Hp1. inversion Hp1; subst s1.
      eapply HAcase; eauto.
    + destruct (parse_items_rng a b r Hlh Hasc) as (s1 & Hp1 & [[Hr HB]|[top HA]]);
        rewrite Hp in Hp1; inversion Hp1; subst s1.
      * subst r. destruct HB as (Hf&Ht&Ha&Hth). unfold is_last in Hl. rewrite Hf, Ht, Ha, Hth in Hl.
        cbn [tru andb list_max oeqb] in Hl. destruct (b <? a) eqn:E; [lia|]. cbn [oeqb] in Hl.
        destruct (b =? l) eqn:E2; [|discriminate]. cbn. lia.
      * eapply HAcase; eauto.
Qed.

(** The deviation D3 (truthiness of line 0), as witnesses. *)
Definition parse_or_empty q a := match parse q a with Some s => s | None => sc0 end.

Lemma scan_zero_refuted :
  includes (parse_or_empty true (ast_of (Items (Rng 0 3) [One 9]))) 9 = false /\
  denotes (Items (Rng 0 3) [One 9]) 9 = true /\
  is_last true (parse_or_empty true (ast_of (Range 3 0))) (Some 9) 0 = true /\
  denotes (Range 3 0) 2 = true.
Proof. vm_compute. auto. Qed.
