(** The functions generated from csvpath/scanning/scanner.py (Scan/ScanSrc.v) equal the hand-written model (Scan/ScanModel.v):
    for every scanner state and every line, Scanner.includes / Scanner.is_last as written in the source — under Python's own
    semantics for None, `and`, chained comparisons, `in`, max() — return exactly the model's answer, and never raise.
    Re-checked against the regenerated ScanSrc.v on every run of C02 / C13. *)
From Coq Require Import ZArith List Bool Lia.
From V Require Import Scan.ScanModel Scan.PySem Scan.ScanSrc.
Import ListNotations.
Open Scope Z_scope.

Ltac splits := repeat match goal with
  | |- context [if ?b then _ else _] => destruct b eqn:?
  end.

Theorem includes_src_eq : forall (s : sc) (line : Z) (e : pyv),
  includes_src (PInt line) (of_oz (from_line s)) (of_oz (to_line s)) (PBool (all_lines s)) (PList (these s)) e = PBool (includes s line).
Proof.
  intros [th f t al] line e. unfold includes, includes_src, mem. cbn [from_line to_line all_lines these of_oz].
  destruct f as [f|]; destruct t as [t|]; destruct al; cbn;
    repeat (match goal with
            | |- context [f =? line] => destruct (f =? line) eqn:?
            | |- context [line <=? ?z] => destruct (line <=? z) eqn:?
            | |- context [?z <=? line] => destruct (z <=? line) eqn:?
            | |- context [t <? f] => destruct (t <? f) eqn:?
            | |- context [line <? t] => destruct (line <? t) eqn:?
            | |- context [existsb (Z.eqb line) th] => destruct (existsb (Z.eqb line) th) eqn:?
            end; cbn); try reflexivity; try lia.
Qed.

Lemma list_max_fold (x : Z) (r : list Z) : list_max (x :: r) = Some (fold_left Z.max r x).
Proof. reflexivity. Qed.

Theorem is_last_src_eq : forall (s : sc) (line : Z) (e : option Z),
  is_last_src (PInt line) (of_oz (from_line s)) (of_oz (to_line s)) (PBool (all_lines s)) (PList (these s)) (of_oz e) = PBool (is_last false s e line).
Proof.
  intros [th f t al] line e. unfold is_last, is_last_src, oeqb, tru. cbn [from_line to_line all_lines these of_oz].
  destruct f as [f|]; destruct t as [t|]; destruct al; destruct e as [e|]; destruct th as [|x r]; cbn;
    repeat (match goal with
            | |- context [t <? f] => destruct (t <? f) eqn:?
            | |- context [line =? ?z] => destruct (line =? z) eqn:?
            | |- context [?z =? line] => destruct (z =? line) eqn:?
            end; cbn); try reflexivity; try lia.
Qed.
