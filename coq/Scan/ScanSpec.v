(** What a scan part denotes (property C02), independent of the scanner. *)
From Coq Require Import ZArith List Bool.
From V Require Import Scan.ScanModel.
Import ListNotations.
Open Scope Z_scope.

Inductive item := One (n : Z) | Rng (a b : Z).
Inductive shape :=
| All                         (* [*]   *)
| From (n : Z)                (* [n*]  *)
| Range (a b : Z)             (* [a-b], either order *)
| Items (i : item) (l : list item).   (* [i+i+...] numbers and forward ranges *)

Definition covers (it : item) (l : Z) : bool :=
  match it with One n => n =? l | Rng a b => (a <=? l) && (l <=? b) end.

Definition denotes (sh : shape) (l : Z) : bool :=
  match sh with
  | All => true
  | From n => n <=? l
  | Range a b => (Z.min a b <=? l) && (l <=? Z.max a b)
  | Items i r => existsb (fun it => covers it l) (i :: r)
  end.

Definition lo (it : item) : Z := match it with One n => n | Rng a _ => a end.
Definition hi (it : item) : Z := match it with One n => n | Rng _ b => b end.

(** ascending, non-overlapping, ranges forward *)
Fixpoint asc (prev : Z) (l : list item) : Prop :=
  match l with
  | [] => True
  | it :: r => prev < lo it /\ lo it <= hi it /\ asc (hi it) r
  end.

Definition wf (sh : shape) : Prop :=
  match sh with
  | Items i r => lo i <= hi i /\ asc (hi i) r
  | _ => True
  end.

Definition toks_of_item (it : item) : list (sop * term) :=
  match it with
  | One n => [(Plus, TNum n)]
  | Rng a b => [(Plus, TNum a); (Minus, TNum b)]
  end.

Definition ast_of (sh : shape) : sast :=
  match sh with
  | All => (TStar, [])
  | From n => (TNumStar n, [])
  | Range a b => (TNum a, [(Minus, TNum b)])
  | Items (One n) r => (TNum n, flat_map toks_of_item r)
  | Items (Rng a b) r => (TNum a, (Minus, TNum b) :: flat_map toks_of_item r)
  end.
