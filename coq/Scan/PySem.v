(** The Python values and operators that the translated scanner functions (Scan/ScanSrc.v, generated) use, with Python's own
    semantics: None compares equal only to None, ordering a None is a TypeError ([PErr]), `and` / `or` short-circuit and
    return an operand, truthiness of None / 0 / [] is false.  [PErr] is absorbing, so a translated function that can raise
    cannot be proved equal to a total model. *)
From Coq Require Import ZArith List Bool.
Import ListNotations.
Open Scope Z_scope.

Inductive pyv := PInt (z : Z) | PNone | PBool (b : bool) | PList (l : list Z) | PErr.

Definition p_truth (v : pyv) : option bool :=
  match v with
  | PInt z => Some (negb (z =? 0)) | PNone => Some false | PBool b => Some b
  | PList l => Some (match l with [] => false | _ => true end) | PErr => None
  end.

Definition p_if (c : pyv) (a b : unit -> pyv) : pyv :=
  match p_truth c with Some true => a tt | Some false => b tt | None => PErr end.
Definition p_and (a : pyv) (b : unit -> pyv) : pyv :=
  match p_truth a with Some true => b tt | Some false => a | None => PErr end.
Definition p_or (a : pyv) (b : unit -> pyv) : pyv :=
  match p_truth a with Some true => a | Some false => b tt | None => PErr end.
Definition p_not (a : pyv) : pyv := match p_truth a with Some b => PBool (negb b) | None => PErr end.

Definition p_is_none (v : pyv) : pyv := match v with PNone => PBool true | PErr => PErr | _ => PBool false end.
Definition p_is_not_none (v : pyv) : pyv := match v with PNone => PBool false | PErr => PErr | _ => PBool true end.
Definition p_is_false (v : pyv) : pyv := match v with PBool false => PBool true | PErr => PErr | _ => PBool false end.      (* x is False *)
Definition p_is_true (v : pyv) : pyv := match v with PBool true => PBool true | PErr => PErr | _ => PBool false end.      (* x is True *)

(* bool is a subclass of int in Python: True == 1 *)
Definition as_int (v : pyv) : option Z := match v with PInt z => Some z | PBool b => Some (if b then 1 else 0) | _ => None end.

Fixpoint zlist_eqb (a b : list Z) : bool :=
  match a, b with [], [] => true | x :: a', y :: b' => (x =? y) && zlist_eqb a' b' | _, _ => false end.

Definition p_eq (a b : pyv) : pyv :=
  match a, b with
  | PErr, _ | _, PErr => PErr
  | PNone, PNone => PBool true
  | PList x, PList y => PBool (zlist_eqb x y)
  | _, _ => match as_int a, as_int b with Some x, Some y => PBool (x =? y) | _, _ => PBool false end
  end.
Definition p_ne (a b : pyv) : pyv := match p_eq a b with PBool r => PBool (negb r) | v => v end.

Definition p_cmp (f : Z -> Z -> bool) (a b : pyv) : pyv :=
  match as_int a, as_int b with Some x, Some y => PBool (f x y) | _, _ => PErr end.      (* None < 1: TypeError *)
Definition p_lt := p_cmp Z.ltb.
Definition p_le := p_cmp Z.leb.
Definition p_gt := p_cmp (fun x y => y <? x).
Definition p_ge := p_cmp (fun x y => y <=? x).

(* int arithmetic (bool is an int); anything else is a TypeError *)
Definition p_add (a b : pyv) : pyv := match as_int a, as_int b with Some x, Some y => PInt (x + y) | _, _ => PErr end.
Definition p_sub (a b : pyv) : pyv := match as_int a, as_int b with Some x, Some y => PInt (x - y) | _, _ => PErr end.

Definition p_in (a l : pyv) : pyv :=
  match a, l with
  | PErr, _ | _, PErr => PErr
  | _, PList xs => PBool (match as_int a with Some x => existsb (Z.eqb x) xs | None => false end)
  | _, _ => PErr
  end.
Definition p_len (l : pyv) : pyv := match l with PList xs => PInt (Z.of_nat (length xs)) | _ => PErr end.
Definition p_max (l : pyv) : pyv := match l with PList (x :: r) => PInt (fold_left Z.max r x) | _ => PErr end.   (* max([]): ValueError *)

(** the loop idiom `for x in xs: if test(x): return False` followed by `return True` *)
Fixpoint p_for_return_false_if (test : pyv -> pyv) (xs : list pyv) : pyv :=
  match xs with [] => PBool true | x :: r => p_if (test x) (fun _ => PBool false) (fun _ => p_for_return_false_if test r) end.
(** d[k] on the values modelled here: there is no dictionary among them, so reaching a subscript is an error value *)
Definition p_getitem (d k : pyv) : pyv := PErr.

Definition of_oz (o : option Z) : pyv := match o with Some z => PInt z | None => PNone end.
