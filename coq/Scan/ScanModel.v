(** Model of csvpath/scanning/scanner.py: the yacc actions (in PLY's LALR reduce
    order for the left-recursive [expression] rule), [includes] and [is_last].
    No proofs in this file. *)
From Coq Require Import ZArith List Bool.
Import ListNotations.
Open Scope Z_scope.

(** The deviation switch D3: the pinned code tested [from_line]/[to_line] by
    truthiness in five places, so that line 0 behaved like None.
    [q = true] is that behaviour, [q = false] is [is None]/[is not None]. *)
Definition tru (q : bool) (o : option Z) : bool :=
  match o with None => false | Some z => if q then negb (z =? 0) else true end.

Record sc := mkSc { these : list Z; from_line : option Z; to_line : option Z; all_lines : bool }.
Definition sc0 : sc := mkSc [] None None false.

Inductive term := TNum (n : Z) | TNumStar (n : Z) | TStar.
Inductive sop := Plus | Minus.
Definition sast : Type := term * list (sop * term).

(** The semantic value PLY carries for a reduced symbol.  [PAlias] is "the very
    list object that is [self.these]" (p[0] = self.these), which the next
    reduction sees through the alias, mutations included. *)
Inductive pval := PNone | PAlias | PFresh (l : list (option Z)).

Definition mem (x : Z) (l : list Z) : bool := existsb (Z.eqb x) l.
Definition add_if_absent (x : Z) (l : list Z) : list Z := if mem x l then l else l ++ [x].
Fixpoint add_range_n (start : Z) (n : nat) (l : list Z) : list Z :=
  match n with O => l | S k => add_range_n (start + 1) k (add_if_absent start l) end.
(** for i in range(f, t+1): if i not in l: l.append(i) *)
Definition add_range (f t : Z) (l : list Z) : list Z := add_range_n f (Z.to_nat (t + 1 - f)) l.

Definition deref (s : sc) (p : pval) : option (list (option Z)) :=
  match p with PNone => None | PAlias => Some (map Some (these s)) | PFresh l => Some l end.

Fixpoint all_some (l : list (option Z)) : option (list Z) :=
  match l with
  | [] => Some []
  | Some z :: r => match all_some r with Some r' => Some (z :: r') | None => None end
  | None :: _ => None
  end.

(** [if p and p[0] not in self.these: self.these.extend(p)];
    [None] = a Python None would enter [these] (outside the model). *)
Definition extend_if (s : sc) (p : pval) : option sc :=
  match deref s p with
  | None => Some s
  | Some [] => Some s
  | Some (Some z :: r) =>
      if mem z (these s) then Some s
      else match all_some r with
           | Some r' => Some (mkSc (these s ++ z :: r') (from_line s) (to_line s) (all_lines s))
           | None => None end
  | Some (None :: _) => None
  end.

Definition move_range_to_these (q : bool) (s : sc) : sc :=
  if negb (tru q (from_line s)) || negb (tru q (to_line s)) then s
  else match from_line s, to_line s with
       | Some f, Some t => mkSc (add_range f t (these s)) None None (all_lines s)
       | _, _ => s
       end.

Definition red_term (s : sc) (t : term) : sc * pval :=
  match t with
  | TNum n => (s, PFresh [Some n])
  | TNumStar n => (mkSc (these s) (Some n) (to_line s) true, PNone)
  | TStar => (mkSc (these s) (from_line s) (to_line s) true, PNone)
  end.

Definition collect_a_line_number (q : bool) (s : sc) (p1 : pval) : option sc :=
  match p1 with
  | PNone => if negb (tru q (from_line s))
             then Some (mkSc (these s) None (to_line s) (all_lines s)) else Some s
  | _ => extend_if s p1
  end.

Definition add_two_lines (q : bool) (s : sc) (p1 p3 : pval) : option sc :=
  let s := move_range_to_these q s in
  match extend_if s p1 with
  | Some s => extend_if s p3
  | None => None
  end.

Definition hd_opt {A} (l : list A) : option A := match l with [] => None | x :: _ => Some x end.

Definition collect_a_line_range (q : bool) (s : sc) (p1 p3 : pval) : option sc :=
  if tru q (from_line s) && tru q (to_line s) then
    let s := move_range_to_these q s in
    match deref s p1, deref s p3 with
    | Some (Some f :: _), Some (Some t :: _) =>
        Some (mkSc (add_range f t (these s)) (from_line s) (to_line s) (all_lines s))
    | _, _ => None
    end
  else
    match deref s p1, deref s p3 with
    | Some l1, Some (t :: _) =>
        let s1 :=
          match l1 with
          | [f] => let th := match these s, f with
                             | [x], Some fz => if x =? fz then [] else these s
                             | _, _ => these s end in
                   mkSc th f (to_line s) (all_lines s)
          | _ => s
          end in
        let s2 := mkSc (these s1) (from_line s1) t (all_lines s1) in
        if (1 <? Z.of_nat (length l1)) then
          match last l1 None with
          | Some f => Some (move_range_to_these q (mkSc (these s2) (Some f) (to_line s2) (all_lines s2)))
          | None => Some (move_range_to_these q (mkSc (these s2) None (to_line s2) (all_lines s2)))
          end
        else Some s2
    | _, _ => None
    end.

Definition p0 (s : sc) : pval :=
  match these s with [] => PFresh [from_line s] | _ => PAlias end.

Definition red_expr (q : bool) (acc : option (sc * pval)) (ot : sop * term) : option (sc * pval) :=
  match acc with
  | None => None
  | Some (s, p1) =>
      let '(o, t) := ot in
      let '(s', p3) := red_term s t in
      match (match o with Plus => add_two_lines q s' p1 p3 | Minus => collect_a_line_range q s' p1 p3 end) with
      | Some s'' => Some (s'', p0 s'')
      | None => None
      end
  end.

Definition parse (q : bool) (a : sast) : option sc :=
  let '(t0, rest) := a in
  let '(s1, v1) := red_term sc0 t0 in
  match collect_a_line_number q s1 v1 with
  | None => None
  | Some s2 => match fold_left (red_expr q) rest (Some (s2, p0 s2)) with
               | Some (s, _) => Some s
               | None => None
               end
  end.

Definition oeqb (o : option Z) (l : Z) : bool := match o with Some z => z =? l | None => false end.

Definition includes (s : sc) (line : Z) : bool :=
  match from_line s, to_line s with
  | None, _ => if all_lines s then true
               else if mem line (these s) then true
               else match to_line s with Some t => line <? t | None => false end
  | Some f, ot =>
      if all_lines s then f <=? line
      else if f =? line then true
      else match ot with
           | Some t => if t <? f then (t <=? line) && (line <=? f) else (f <=? line) && (line <=? t)
           | None => mem line (these s)
           end
  end.

Definition list_max (l : list Z) : option Z :=
  match l with [] => None | x :: r => Some (fold_left Z.max r x) end.

(** [e] is line_monitor.physical_end_line_number *)
Definition is_last (q : bool) (s : sc) (e : option Z) (line : Z) : bool :=
  let '(f, t) :=
    match from_line s, to_line s with
    | Some f, Some t => if tru q (Some f) && tru q (Some t) && (t <? f) then (Some t, Some f) else (Some f, Some t)
    | f, t => (f, t)
    end in
  if all_lines s then oeqb e line
  else if oeqb t line then true
  else match list_max (these s) with
       | Some m => (m =? line) && negb (tru q t)
       | None => false
       end.
