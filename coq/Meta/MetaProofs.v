(** Proofs about the metadata parser model: the outer comment is split off without touching the
    csvpath; 'key: value' fields are recovered. *)
From Coq Require Import ZArith List Bool Lia ZifyBool.
From V Require Import Csv.CsvModel Data.DataModel Meta.MetaModel.
Import ListNotations.
Open Scope Z_scope.

(** * extract_csvpath_and_comment *)
Definition plainb (c : Z) : bool := negb ((c =? TILDE) || (c =? LBR) || (c =? RBR) || (c =? DOLLAR)).

Lemma plainb_neq c : plainb c = true -> (c =? TILDE) = false /\ (c =? LBR) = false /\ (c =? RBR) = false /\ (c =? DOLLAR) = false.
Proof.
  unfold plainb. intros H. apply negb_true_iff in H.
  destruct (c =? TILDE), (c =? LBR), (c =? RBR), (c =? DOLLAR); cbn in H; try discriminate; auto.
Qed.

Lemma extract_in_comment : forall cm rest, forallb plainb cm = true ->
  extract 1 (cm ++ TILDE :: rest) = (fst (extract 0 rest), cm ++ snd (extract 0 rest)).
Proof.
  induction cm as [|c cm IH]; intros rest H.
  - cbn. destruct (extract 0 rest); reflexivity.
  - cbn [forallb] in H. apply andb_prop in H. destruct H as [Hc H].
    destruct (plainb_neq c Hc) as (H1 & H2 & H3 & H4).
    cbn [app extract]. rewrite H1, H2, H3, H4. cbn. rewrite (IH rest H). reflexivity.
Qed.

Lemma extract_outside : forall ws rest, forallb plainb ws = true -> extract 0 (ws ++ rest) = extract 0 rest.
Proof.
  induction ws as [|c ws IH]; intros rest H; [reflexivity|].
  cbn [forallb] in H. apply andb_prop in H. destruct H as [Hc H].
  destruct (plainb_neq c Hc) as (H1 & H2 & H3 & H4).
  cbn [app extract]. rewrite H1, H2, H3, H4. cbn. apply IH. exact H.
Qed.

Lemma has_rbr_end body : has_rbr (body ++ [RBR]) = true.
Proof. unfold has_rbr. rewrite existsb_app. cbn. apply orb_true_r. Qed.

(** inside the csvpath everything is kept, up to and including the final ']' *)
Lemma extract_inside : forall body, extract 2 (body ++ [RBR]) = (body ++ [RBR], []).
Proof.
  induction body as [|c body IH]; [reflexivity|].
  cbn [app extract].
  destruct (c =? TILDE); [cbn; rewrite IH; reflexivity|].
  destruct (c =? LBR); [rewrite IH; reflexivity|].
  destruct (c =? RBR).
  - rewrite has_rbr_end. cbn. rewrite IH. reflexivity.
  - destruct (c =? DOLLAR); cbn; rewrite IH; reflexivity.
Qed.

Theorem extract_with_comment cm ws body :
  forallb plainb cm = true -> forallb plainb ws = true ->
  extract_csvpath_and_comment (TILDE :: cm ++ TILDE :: ws ++ DOLLAR :: body ++ [RBR]) = (DOLLAR :: body ++ [RBR], cm).
Proof.
  intros Hc Hw. unfold extract_csvpath_and_comment. cbn [extract]. cbn.
  rewrite (extract_in_comment cm _ Hc), (extract_outside ws _ Hw).
  cbn [extract]. cbn. rewrite extract_inside. cbn. rewrite app_nil_r. reflexivity.
Qed.

Theorem extract_without_comment ws body : forallb plainb ws = true ->
  extract_csvpath_and_comment (ws ++ DOLLAR :: body ++ [RBR]) = (DOLLAR :: body ++ [RBR], []).
Proof.
  intros Hw. unfold extract_csvpath_and_comment. rewrite (extract_outside ws _ Hw).
  cbn [extract]. cbn. rewrite extract_inside. reflexivity.
Qed.

(** * collect_metadata *)
Ltac urw H := let h := fresh "h" in pose proof H as h; unfold ustring, fields in *; rewrite h; clear h.

Definition good_key (k : ustring) : Prop := k <> [] /\ forallb is_word k = true.
Definition good_val (v : ustring) : Prop :=
  (exists c v', v = c :: v' /\ is_word c = true) /\
  (exists c v', rev v = c :: v' /\ is_space c = false) /\
  forallb (fun c => negb (c =? COLON)) v = true.
Definition good (kv : ustring * ustring) : Prop := good_key (fst kv) /\ good_val (snd kv).

Definition render_kv (kv : ustring * ustring) : ustring := fst kv ++ [COLON; 32] ++ snd kv ++ [32].
Definition render (kvs : list (ustring * ustring)) : ustring := flat_map render_kv kvs.

Lemma mrun_app s a b : mrun s (a ++ b) = match mrun s a with Some s' => mrun s' b | None => None end.
Proof.
  revert s. induction a as [|c a IH]; intros s; [reflexivity|].
  cbn [app mrun]. destruct (mstep s c); [apply IH|reflexivity].
Qed.

Lemma word_not_colon c : is_word c = true -> (c =? COLON) = false.
Proof.
  unfold is_word, is_alnum, COLON. intros H. destruct (c =? 58) eqn:E; [|reflexivity].
  apply Z.eqb_eq in E. subst c. cbn in H. discriminate.
Qed.

Lemma word_not_space c : is_word c = true -> is_space c = false.
Proof. unfold is_word, is_alnum, is_space. lia. Qed.

(** a run of word characters (a key) *)
Lemma run_key : forall k w F n f, forallb is_word k = true ->
  mrun (mkMs w F (Some n) (Some f)) k = Some (mkMs (w ++ k) F (Some n) (Some (f ++ k))).
Proof.
  induction k as [|c k IH]; intros w F n f H.
  - cbn. rewrite !app_nil_r. reflexivity.
  - cbn [forallb] in H. apply andb_prop in H. destruct H as [Hc H].
    cbn [mrun]. unfold mstep, mstep_gen. rewrite (word_not_colon c Hc), Hc. cbn [cw mfields mname mfield].
    rewrite IH by exact H. rewrite <- !app_assoc. reflexivity.
Qed.

Lemma run_key0 : forall k w F, forallb is_word k = true ->
  mrun (mkMs w F None None) k = Some (mkMs (w ++ k) F None None).
Proof.
  induction k as [|c k IH]; intros w F H.
  - cbn. rewrite app_nil_r. reflexivity.
  - cbn [forallb] in H. apply andb_prop in H. destruct H as [Hc H].
    cbn [mrun]. unfold mstep, mstep_gen. rewrite (word_not_colon c Hc), Hc. cbn [cw mfields mname mfield].
    rewrite IH by exact H. rewrite <- app_assoc. reflexivity.
Qed.

(** text without ':' after the value has started *)
Lemma run_text : forall t w F n f, forallb (fun c => negb (c =? COLON)) t = true ->
  exists w', mrun (mkMs w F (Some n) (Some f)) t = Some (mkMs w' F (Some n) (Some (f ++ t))).
Proof.
  induction t as [|c t IH]; intros w F n f H.
  - exists w. cbn. rewrite app_nil_r. reflexivity.
  - cbn [forallb] in H. apply andb_prop in H. destruct H as [Hc H]. apply negb_true_iff in Hc.
    cbn [mrun]. unfold mstep, mstep_gen. rewrite Hc. cbn [cw mfields mname mfield snoc].
    assert (G: forall w2, exists w', mrun (mkMs w2 F (Some n) (Some (f ++ [c]))) t = Some (mkMs w' F (Some n) (Some (f ++ c :: t)))).
    { intros w2. destruct (IH w2 F n (f ++ [c]) H) as [w' Hw]. exists w'. rewrite <- app_assoc in Hw. exact Hw. }
    destruct (is_word c); [|destruct (is_blank c)]; cbn iota; apply G.
Qed.

Lemma strip_word k : forallb is_word k = true -> strip k = k.
Proof.
  intros H. unfold strip.
  assert (L: forall s, forallb is_word s = true -> lstrip s = s).
  { intros [|c s] Hs; [reflexivity|]. cbn in Hs. apply andb_prop in Hs. destruct Hs as [Hc _].
    cbn. rewrite (word_not_space c Hc). reflexivity. }
  rewrite (L k H). rewrite L; [apply rev_involutive|].
  rewrite forallb_forall in *. intros x Hx. apply H. apply in_rev. exact Hx.
Qed.

Lemma strip_val_sp v : good_val v -> strip (v ++ [32]) = v.
Proof.
  intros ((c & v' & Hv & Hc) & (d & r & Hr & Hd) & _). unfold strip.
  subst v. cbn [app lstrip]. rewrite (word_not_space c Hc).
  change (c :: v' ++ [32]) with ((c :: v') ++ [32]). rewrite rev_app_distr. cbn [rev app lstrip].
  change (is_space 32) with true. cbn iota. cbn [rev] in Hr. rewrite Hr. cbn [lstrip]. rewrite Hd.
  rewrite <- Hr. rewrite rev_app_distr, rev_involutive. reflexivity.
Qed.

Lemma firstn_drop_suffix (f k : ustring) : firstn (length (f ++ k) - length k) (f ++ k) = f.
Proof.
  rewrite app_length. replace (length f + length k - length k)%nat with (length f + 0)%nat by lia.
  rewrite firstn_app_2. cbn. apply app_nil_r.
Qed.

(** " value " after "key:" *)
Lemma run_value F n v : good_val v ->
  mrun (mkMs [] F (Some n) None) (32 :: v ++ [32]) = Some (mkMs [] F (Some n) (Some (v ++ [32]))).
Proof.
  intros ((c & v' & Hv & Hc) & Hlast & Hnc). subst v.
  cbn [mrun]. unfold mstep at 1; unfold mstep_gen at 1. cbn. cbn [app mrun]. unfold mstep at 1; unfold mstep_gen at 1.
  rewrite (word_not_colon c Hc), Hc. cbn [cw mfields mname mfield app].
  rewrite mrun_app. cbn [forallb] in Hnc. apply andb_prop in Hnc. destruct Hnc as [_ Hnc].
  destruct (run_text v' [c] F n [c] Hnc) as [w' Hw]. urw Hw.
  cbn [mrun]. unfold mstep, mstep_gen. cbn. reflexivity.
Qed.

Definition setkv (F : fields) (kv : ustring * ustring) : fields := set_field (fst kv) (Some (snd kv)) F.

Lemma run_rest : forall kvs F n v, good_val v -> Forall good kvs ->
  option_map mfinish (mrun (mkMs [] F (Some n) (Some (v ++ [32]))) (render kvs)) =
  match n with
  | [] => None
  | _ => Some (fold_left setkv ((n, v) :: kvs) F)
  end \/ n = [].
Proof.
  induction kvs as [|[k v2] kvs IH]; intros F n v Hv Hk.
  - destruct n as [|c n]; [right; reflexivity|left].
    cbn. unfold mfinish, setkv. cbn. rewrite (strip_val_sp v Hv). reflexivity.
  - destruct n as [|c n]; [right; reflexivity|left].
    inversion Hk as [|x l [Hgk Hgv] Hk' E1]; subst. cbn [fst snd] in Hgk, Hgv. destruct Hgk as [Hne Hw].
    cbn [render flat_map]. unfold render_kv at 1. cbn [fst snd]. rewrite !mrun_app.
    urw (run_key k [] F (c :: n) (v ++ [32]) Hw). cbn [app].
    change ([COLON; 32] ++ v2 ++ [32]) with (COLON :: (32 :: v2 ++ [32])).
    remember (32 :: v2 ++ [32]) as tl eqn:Etl. cbn [mrun]. unfold mstep at 1; unfold mstep_gen at 1. cbn [mname mfield cw mfields]. rewrite Z.eqb_refl.
    rewrite firstn_drop_suffix, (strip_val_sp v Hv), (strip_word k Hw).
    subst tl. urw (run_value (set_field (c :: n) (Some v) F) k v2 Hgv).
    destruct (IH (set_field (c :: n) (Some v) F) k v2 Hgv Hk') as [H|H].
    + cbn iota beta. unfold render in H. urw H. destruct k; [contradiction|]. reflexivity.
    + contradiction.
Qed.

Theorem collect_render kv kvs : Forall good (kv :: kvs) ->
  collect_metadata (render (kv :: kvs)) = Some (fold_left setkv (kv :: kvs) []).
Proof.
  intros H. inversion H as [|x l [[Hne Hw] Hgv] Hk E1]; subst. destruct kv as [k v]. cbn [fst snd] in *.
  unfold collect_metadata. cbn [render flat_map]. unfold render_kv at 1. cbn [fst snd]. rewrite !mrun_app.
  unfold ms0. urw (run_key0 k [] [] Hw). cbn [app].
  change ([COLON; 32] ++ v ++ [32]) with (COLON :: (32 :: v ++ [32])).
  remember (32 :: v ++ [32]) as tl eqn:Etl. cbn [mrun]. unfold mstep at 1; unfold mstep_gen at 1. cbn [mname mfield cw mfields]. rewrite Z.eqb_refl.
  rewrite (strip_word k Hw). subst tl. urw (run_value [] k v Hgv).
  destruct (run_rest kvs [] k v Hgv Hk) as [H1|H1]; [|contradiction].
  cbn iota beta. refine (eq_trans H1 _). destruct k; [contradiction|reflexivity].
Qed.

(** what a lookup in the result gives: the value of the last field with that key *)
Lemma lookup_set_same k v F : lookup k (set_field k v F) = Some v.
Proof.
  induction F as [|[k' v'] F IH]; cbn.
  - assert (E: ustr_eqb k k = true) by (induction k as [|c k IHk]; cbn; [reflexivity|rewrite Z.eqb_refl; exact IHk]).
    rewrite E. reflexivity.
  - destruct (ustr_eqb k' k) eqn:E; cbn; rewrite E; [reflexivity|exact IH].
Qed.

Lemma print_mode_only_stdout {A} (is_stdout : A -> bool) (ps : list A) :
  filter (fun p => negb (is_stdout p)) (remove_first is_stdout ps) = filter (fun p => negb (is_stdout p)) ps.
Proof.
  induction ps as [|p ps IH]; [reflexivity|]. cbn. destruct (is_stdout p) eqn:E; cbn; [reflexivity|].
  rewrite E. cbn. rewrite IH. reflexivity.
Qed.

(** free comment text never makes the comment parser fail (repaired D23) *)
Lemma mstep_total s c : exists s', mstep s c = Some s'.
Proof.
  unfold mstep, mstep_gen. destruct (c =? COLON).
  - destruct (mname s); [destruct (mfield s)|]; eexists; reflexivity.
  - destruct (is_word c); [eexists; reflexivity|]. destruct (is_blank c); eexists; reflexivity.
Qed.
Theorem collect_metadata_total : forall comment, exists fs, collect_metadata comment = Some fs.
Proof.
  intros comment. unfold collect_metadata.
  assert (H: forall t s, exists s', mrun s t = Some s').
  { induction t as [|c r IH]; intros s; [eexists; reflexivity|]. cbn [mrun]. destruct (mstep_total s c) as [s' ->]. apply IH. }
  destruct (H comment ms0) as [s' ->]. eexists. reflexivity.
Qed.
(** D23 witness: "a: :" *)
Theorem key_without_value_refuted : collect_metadata_d23 [97; 58; 32; 58] = None /\ collect_metadata [97; 58; 32; 58] = Some [([97], None)].
Proof. split; vm_compute; reflexivity. Qed.
