(** Model of csvpath/util/metadata_parser.py: the two character state machines
    extract_csvpath_and_comment and collect_metadata, and of the mode values read from the
    metadata (the classes under csvpath/modes).  Python str = list of code points.  No proofs here. *)
From Coq Require Import ZArith List Bool.
From V Require Import Csv.CsvModel Data.DataModel.
Import ListNotations.
Open Scope Z_scope.

Definition TILDE : Z := 126.
Definition LBR : Z := 91.
Definition RBR : Z := 93.
Definition DOLLAR : Z := 36.
Definition COLON : Z := 58.

Definition has_rbr (t : ustring) : bool := existsb (Z.eqb RBR) t.

Definition cons1 (c : Z) (p : ustring * ustring) : ustring * ustring := (c :: fst p, snd p).
Definition cons2 (c : Z) (p : ustring * ustring) : ustring * ustring := (fst p, c :: snd p).

(** extract_csvpath_and_comment: state 0 = outside, 1 = outer comment, 2 = inside the csvpath;
    result = (csvpath2, comment) *)
Fixpoint extract (st : Z) (t : ustring) : ustring * ustring :=
  match t with
  | [] => ([], [])
  | c :: r =>
      if c =? TILDE then
        (if st =? 0 then extract 1 r else if st =? 1 then extract 0 r else cons1 c (extract st r))
      else if c =? LBR then cons1 c (extract 2 r)
      else if c =? RBR then cons1 c (extract (if (st =? 2) && negb (has_rbr r) then 0 else st) r)
      else if c =? DOLLAR then
        (if st =? 0 then cons1 c (extract 2 r) else if st =? 1 then cons2 c (extract 1 r) else cons1 c (extract st r))
      else
        (if st =? 0 then extract 0 r else if st =? 1 then cons2 c (extract 1 r) else cons1 c (extract st r))
  end.
Definition extract_csvpath_and_comment (t : ustring) : ustring * ustring := extract 0 t.

(** str.isalnum() on the code points the generators use: ASCII letters and digits, and
    e-acute, sharp s, U+4E2D (alphabetic); everything else the harness generates is not alphanumeric *)
Definition is_alnum (c : Z) : bool :=
  ((48 <=? c) && (c <=? 57)) || ((65 <=? c) && (c <=? 90)) || ((97 <=? c) && (c <=? 122))
  || (c =? 233) || (c =? 223) || (c =? 20013).
Definition is_word (c : Z) : bool := is_alnum c || (c =? 45) || (c =? 95).
Definition is_blank (c : Z) : bool := (c =? 32) || (c =? 10) || (c =? 13) || (c =? 9).

Definition fields := list (ustring * option ustring).
Fixpoint set_field (k : ustring) (v : option ustring) (fs : fields) : fields :=
  match fs with
  | [] => [(k, v)]
  | (k', v') :: r => if ustr_eqb k' k then (k', v) :: r else (k', v') :: set_field k v r
  end.

Record mstate := mkMs {
  cw : ustring;              (* current_word *)
  mfields : fields;
  mname : option ustring;
  mfield : option ustring
}.

Definition ms0 : mstate := mkMs [] [] None None.

Definition snoc (s : option ustring) (c : Z) : option ustring :=
  match s with Some f => Some (f ++ [c]) | None => None end.

(** one character of collect_metadata.  [q] is the deviation switch of the repaired defect D23: a ':'
    closing a key that has no value text yet sliced None (None[0:...]) and the parse raised TypeError
    (None here); repaired, the key is recorded without a value. *)
Definition mstep_gen (q : bool) (s : mstate) (c : Z) : option mstate :=
  if c =? COLON then
    match mname s with
    | Some n =>
        match mfield s with
        | None => if q then None else Some (mkMs [] (set_field n None (mfields s)) (Some (strip (cw s))) None)
        | Some f =>
            let f' := firstn (length f - length (cw s)) f in
            Some (mkMs [] (set_field n (Some (strip f')) (mfields s)) (Some (strip (cw s))) None)
        end
    | None => Some (mkMs [] (mfields s) (Some (strip (cw s))) None)
    end
  else if is_word c then
    Some (mkMs (cw s ++ [c]) (mfields s) (mname s)
            (match mname s with
             | Some _ => match mfield s with None => Some [c] | Some f => Some (f ++ [c]) end
             | None => mfield s
             end))
  else if is_blank c then
    Some (mkMs [] (mfields s) (mname s) (match mname s with Some _ => snoc (mfield s) c | None => mfield s end))
  else
    Some (mkMs [] (mfields s) (mname s) (snoc (mfield s) c)).
Definition mstep := mstep_gen false.

Fixpoint mrun (s : mstate) (t : ustring) : option mstate :=
  match t with
  | [] => Some s
  | c :: r => match mstep s c with Some s' => mrun s' r | None => None end
  end.

Definition mfinish (s : mstate) : fields :=
  match mname s with
  | Some (c :: n) => set_field (c :: n) (option_map strip (mfield s)) (mfields s)
  | _ => mfields s
  end.

Definition collect_metadata (comment : ustring) : option fields :=
  option_map mfinish (mrun ms0 comment).

(** the unrepaired behaviour (D23), kept for the witness and for attributing a disagreement *)
Fixpoint mrun_d23 (s : mstate) (t : ustring) : option mstate :=
  match t with
  | [] => Some s
  | c :: r => match mstep_gen true s c with Some s' => mrun_d23 s' r | None => None end
  end.
Definition collect_metadata_d23 (comment : ustring) : option fields := option_map mfinish (mrun_d23 ms0 comment).

Fixpoint lookup (k : ustring) (fs : fields) : option (option ustring) :=
  match fs with
  | [] => None
  | (k', v) :: r => if ustr_eqb k' k then Some v else lookup k r
  end.

(** print-mode: no-default removes the first StdOutPrinter and nothing else *)
Fixpoint remove_first {A} (p : A -> bool) (l : list A) : list A :=
  match l with [] => [] | x :: r => if p x then r else x :: remove_first p r end.
