(** Counters of the run loop: match_count is the number of lines the match part voted for
    (for a matcher that does not itself touch the match counters: no onmatch look-ahead). *)
From Coq Require Import ZArith List Bool Lia.
From V Require Import Scan.ScanModel Run.RunLoop Run.RunFacts.
Import ListNotations.
Open Scope Z_scope.

Section RunCounters.
  Variable C X : Type.
  Variable m : rs X -> line C -> rs X * bool.
  Hypothesis m_keeps : forall s l, match_count X (fst (m s l)) = match_count X s /\ cur_mc X (fst (m s l)) = cur_mc X s.

  Definition votes (t : list ev) : Z := Z.of_nat (length (filter ev_vote t)).

  Lemma consider_mc c s l :
    match_count X (fst (consider C X m c s l)) = match_count X s + (if ev_vote (snd (consider C X m c s l)) then 1 else 0).
  Proof.
    unfold consider.
    destruct (oeqb (end_line c) (pln X s) && is_nil l).
    - destruct (m_keeps (set_frozen X s) l) as [H _]. destruct (m (set_frozen X s) l) as [s2 v]. cbn in *. lia.
    - destruct (is_nil l); [cbn; lia|]. destruct (includes (scanner c) (pln X s)); [|cbn; lia].
      cbn [adv]. destruct (0 <? adv X s).
      + destruct (is_last _ _ _ _); cbn; lia.
      + match goal with |- context [m ?ss l] => destruct (m_keeps ss l) as [H1 H2]; destruct (m ss l) as [s2 v] end.
        cbn in H1, H2. destruct (is_last _ _ _ _); destruct v; cbn; unfold raise_match_count_if; cbn; rewrite ?H1, ?H2, ?Z.eqb_refl; cbn; lia.
  Qed.

  Lemma step_mc c (a : ls C X) nl :
    match_count X (st C X (step C X m c a nl)) - votes (trace C X (step C X m c a nl)) = match_count X (st C X a) - votes (trace C X a).
  Proof.
    unfold step. destruct (halted C X a); [reflexivity|]. destruct nl as [n l].
    pose proof (consider_mc c (track X (st C X a) n) l) as H. cbn [track match_count] in H.
    destruct (consider C X m c (track X (st C X a) n) l) as [s' e]. cbn [fst snd] in H.
    assert (V: votes (trace C X a ++ [e]) = votes (trace C X a) + (if ev_vote e then 1 else 0)).
    { unfold votes. rewrite filter_app, app_length. cbn. destruct (ev_vote e); cbn; lia. }
    destruct (ev_returned e); destruct (budget C X a) as [[|[|k]]|]; cbn; destruct (stopped X s'); cbn; rewrite V; lia.
  Qed.

  (** C03: after a run match_count is the number of records the match part voted for *)
  Theorem match_count_is_votes c x0 recs :
    let r := run_from C X m c (rs0 X x0) None recs in match_count X (st C X r) = votes (trace C X r).
  Proof.
    cbn zeta. unfold run_from.
    assert (F: forall l a, match_count X (st C X (fold_left (step C X m c) l a)) - votes (trace C X (fold_left (step C X m c) l a))
                           = match_count X (st C X a) - votes (trace C X a)).
    { induction l as [|nl l IH]; intros a; [reflexivity|]. cbn [fold_left]. rewrite IH. apply step_mc. }
    assert (G: forall a, match_count X (st C X (finish C X a)) = match_count X (st C X a) /\ trace C X (finish C X a) = trace C X a).
    { intros a. unfold finish. destruct (halted C X a); cbn; auto. }
    destruct (will_run c).
    - destruct (G (fold_left (step C X m c) (number 0 recs) (mkLs C X (rs0 X x0) [] [] [] false false None))) as [G1 G2].
      rewrite G1, G2. pose proof (F (number 0 recs) (mkLs C X (rs0 X x0) [] [] [] false false None)) as H. cbn in H. cbn. lia.
    - destruct (G (mkLs C X (rs0 X x0) [] [] [] false false None)) as [G1 G2]. rewrite G1, G2. reflexivity.
  Qed.
End RunCounters.
