(** Model of the run loop of csvpath/csvpath.py:
    next() / _next_line() / track_line() / _consider_line() / raise_match_count_if()
    / finalize() and the three entry points collect(nexts) / next() / fast_forward(),
    parametric in the matcher (a Section variable): every theorem about this file
    holds for every matcher.  No proofs in this file. *)
From Coq Require Import ZArith List Bool.
From V Require Import Scan.ScanModel.
Import ListNotations.
Open Scope Z_scope.

Section Run.
  Variable C : Type.               (* a cell *)
  Variable X : Type.               (* everything the match part owns: variables, printouts, errors, ... *)
  Definition line := list C.

  (** The part of CsvPath's state the run loop reads or writes. *)
  Record rs := mkRs {
    pln : Z;                 (* line_monitor.physical_line_number (valid once a record was tracked) *)
    scan_count : Z;
    match_count : Z;
    cur_mc : Z;              (* _current_match_count *)
    adv : Z;                 (* advance_count *)
    stopped : bool;
    frozen : bool;           (* _freeze_path *)
    x : X
  }.

  (** The matcher: CsvPath.matches(line).  It may change [stopped] (stop()),
      [adv] (advance()), [match_count] (an onmatch look-ahead raising the count
      early) and its own state [x]. *)
  Variable m : rs -> line -> rs * bool.

  Record cfg := mkCfg {
    scanner : sc;
    q_scan : bool;           (* deviation switch D3, see ScanModel.tru *)
    end_line : option Z;     (* physical_end_line_number from the pre-scan *)
    cwnm : bool;             (* collect_when_not_matched: return-mode no-matches *)
    collecting : bool;       (* set by collect() *)
    unmatched_avail : bool;  (* unmatched-mode keep *)
    will_run : bool          (* run-mode *)
  }.

  Definition is_nil {A} (l : list A) : bool := match l with [] => true | _ => false end.

  Definition raise_match_count_if (s : rs) : rs :=
    if cur_mc s =? match_count s
    then mkRs (pln s) (scan_count s) (match_count s + 1) (cur_mc s) (adv s) (stopped s) (frozen s) (x s)
    else s.

  Definition set_stopped (s : rs) : rs :=
    mkRs (pln s) (scan_count s) (match_count s) (cur_mc s) (adv s) true (frozen s) (x s).
  Definition set_frozen (s : rs) : rs :=
    mkRs (pln s) (scan_count s) (match_count s) (cur_mc s) (adv s) (stopped s) true (x s).

  (** What happened to one record; the per-record trace is what the theorems talk about. *)
  Record ev := mkEv {
    ev_line : Z;
    ev_offered : bool;       (* scanner included it, it counted as scanned *)
    ev_evaluated : bool;     (* the matcher ran on it (not advanced over) *)
    ev_vote : bool;          (* matcher's answer (false when not evaluated) *)
    ev_returned : bool;      (* _consider_line answered True: the line is yielded *)
    ev_lastblank : bool      (* the frozen extra evaluation of a blank final record *)
  }.

  Definition consider (c : cfg) (s : rs) (l : line) : rs * ev :=
    let n := pln s in
    if oeqb (end_line c) n && is_nil l then
      let '(s2, _) := m (set_frozen s) l in (s2, mkEv n false false false false true)
    else if is_nil l then (s, mkEv n false false false false false)
    else if includes (scanner c) n then
      let s1 := mkRs n (scan_count s + 1) (match_count s) (match_count s) (adv s) (stopped s) (frozen s) (x s) in
      let '(s2, evald, vote) :=
        if 0 <? adv s1
        then (mkRs n (scan_count s1) (match_count s1) (cur_mc s1) (adv s1 - 1) (stopped s1) (frozen s1) (x s1), false, false)
        else let '(s2, v) := m s1 l in (s2, true, v) in
      let s3 := if is_last (q_scan c) (scanner c) (end_line c) n then set_stopped s2 else s2 in
      if vote then (raise_match_count_if s3, mkEv n true evald true (negb (cwnm c)) false)
      else (s3, mkEv n true evald false (cwnm c) false)
    else (s, mkEv n false false false false false).

  (** The loop of next(): [budget] models collect(nexts=n): [None] = run to the
      end; [Some k] = the consumer breaks after the k-th yielded line, leaving
      the generator suspended (no finalize()). *)
  Record ls := mkLs {
    st : rs;
    trace : list ev;                 (* one entry per record read *)
    returned : list line;
    unmatched : list line;
    halted : bool;                   (* loop left: stopped, or consumer broke *)
    finalized : bool;
    budget : option nat
  }.

  Definition track (s : rs) (n : Z) : rs :=
    mkRs n (scan_count s) (match_count s) (cur_mc s) (adv s) (stopped s) (frozen s) (x s).

  Definition step (c : cfg) (a : ls) (nl : Z * line) : ls :=
    if halted a then a else
    let '(n, l) := nl in
    let '(s', e) := consider c (track (st a) n) l in
    let ret := if ev_returned e then returned a ++ [l] else returned a in
    let unm := if negb (ev_returned e) && collecting c && unmatched_avail c then unmatched a ++ [l] else unmatched a in
    let '(brk, bud) :=
      if ev_returned e then
        match budget a with
        | None => (false, None)
        | Some (S (S k)) => (false, Some (S k))
        | Some _ => (true, Some O)
        end
      else (false, budget a) in
    if brk then mkLs s' (trace a ++ [e]) ret unm true false bud
    else if stopped s' then mkLs (set_frozen s') (trace a ++ [e]) ret unm true true bud
    else mkLs s' (trace a ++ [e]) ret unm false false bud.

  Fixpoint number {A} (n : Z) (l : list A) : list (Z * A) :=
    match l with [] => [] | a :: r => (n, a) :: number (n + 1) r end.

  Definition finish (a : ls) : ls :=
    if halted a then a
    else mkLs (set_frozen (st a)) (trace a) (returned a) (unmatched a) true true (budget a).

  Definition run_from (c : cfg) (s0 : rs) (bud : option nat) (recs : list line) : ls :=
    if will_run c
    then finish (fold_left (step c) (number 0 recs) (mkLs s0 [] [] [] false false bud))
    else finish (mkLs s0 [] [] [] false false bud).

  Definition rs0 (x0 : X) : rs := mkRs 0 0 0 0 0 false false x0.

  (** collect(): collecting = True; next(): consumer takes every line;
      fast_forward(): consumer drops every line.  [collect_n k] = collect(nexts=k). *)
  Definition with_collecting (c : cfg) (b : bool) : cfg :=
    mkCfg (scanner c) (q_scan c) (end_line c) (cwnm c) b (unmatched_avail c) (will_run c).

  Definition collect (c : cfg) (x0 : X) (recs : list line) : ls :=
    run_from (with_collecting c true) (rs0 x0) None recs.
  Definition collect_n (k : nat) (c : cfg) (x0 : X) (recs : list line) : ls :=
    run_from (with_collecting c true) (rs0 x0) (Some k) recs.
  Definition next_all (c : cfg) (x0 : X) (recs : list line) : ls :=
    run_from (with_collecting c false) (rs0 x0) None recs.
  Definition fast_forward (c : cfg) (x0 : X) (recs : list line) : ls :=
    run_from (with_collecting c false) (rs0 x0) None recs.

  Definition end_of (recs : list line) : option Z :=
    match recs with [] => None | _ => Some (Z.of_nat (length recs) - 1) end.

End Run.
