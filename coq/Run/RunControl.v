(** Run-loop facts behind C13 (stop / advance / last), for every matcher. *)
From Coq Require Import ZArith List Bool Lia.
From V Require Import Scan.ScanModel Run.RunLoop Run.RunFacts.
Import ListNotations.
Open Scope Z_scope.

Section RunControl.
  Variable C X : Type.
  Variable m : rs X -> line C -> rs X * bool.
  Notation consider := (consider C X m).
  Notation step := (step C X m).

  Definition last_true (c : cfg) (n : Z) : bool :=
    oeqb (end_line c) n || is_last (q_scan c) (scanner c) (end_line c) n.

  (** advance(n) pending: the next scanned line is counted as scanned but the match part does
      not run on it: no vote, no match count, no side effect; it is returned only in
      return-mode no-matches *)
  Theorem consider_advancing c s l : 0 < adv X s -> is_nil l = false -> includes (scanner c) (pln X s) = true ->
    let s' := fst (consider c s l) in let e := snd (consider c s l) in
    x X s' = x X s /\ match_count X s' = match_count X s /\ scan_count X s' = scan_count X s + 1 /\
    adv X s' = adv X s - 1 /\ frozen X s' = frozen X s /\
    stopped X s' = (stopped X s || is_last (q_scan c) (scanner c) (end_line c) (pln X s)) /\
    ev_offered e = true /\ ev_evaluated e = false /\ ev_vote e = false /\ ev_returned e = cwnm c.
  Proof.
    intros Ha Hl Hi. unfold consider. rewrite Hl, andb_false_r, Hi. cbn [adv].
    apply Z.ltb_lt in Ha. rewrite Ha.
    destruct (is_last (q_scan c) (scanner c) (end_line c) (pln X s)); cbn;
      rewrite ?orb_true_r, ?orb_false_r; repeat split; reflexivity.
  Qed.

  (** a record that is not offered (blank, or outside the scan) changes nothing *)
  Theorem consider_not_offered c s l : (oeqb (end_line c) (pln X s) && is_nil l) = false ->
    (is_nil l = true \/ includes (scanner c) (pln X s) = false) ->
    consider c s l = (s, mkEv (pln X s) false false false false false).
  Proof.
    intros H1 H2. unfold consider. rewrite H1. destruct (is_nil l); [reflexivity|].
    destruct H2 as [H2|H2]; [discriminate|]. rewrite H2. reflexivity.
  Qed.

  (** once a step leaves the run stopped, nothing further is read, evaluated or returned *)
  Theorem stopped_halts c (a : ls C X) nl rest : halted C X a = false -> budget C X a = None ->
    stopped X (fst (consider c (track X (st C X a) (fst nl)) (snd nl))) = true ->
    fold_left (step c) rest (step c a nl) = step c a nl /\ halted C X (step c a nl) = true /\
    finalized C X (step c a nl) = true.
  Proof.
    intros Hh Hb Hs. destruct nl as [n l]. cbn [fst snd] in Hs.
    assert (H: halted C X (step c a (n, l)) = true /\ finalized C X (step c a (n, l)) = true).
    { unfold RunLoop.step. rewrite Hh, Hb.
      destruct (RunLoop.consider C X m c (track X (st C X a) n) l) as [s' e]. cbn [fst] in Hs.
      destruct (ev_returned e); cbn; rewrite Hs; cbn; auto. }
    destruct H as [H1 H2]. split; [|auto]. apply (fold_halted C X m). exact H1.
  Qed.

  (** an evaluated line on which the scanner says "last" stops the run *)
  Theorem scan_last_stops c s l : is_nil l = false -> includes (scanner c) (pln X s) = true ->
    is_last (q_scan c) (scanner c) (end_line c) (pln X s) = true ->
    stopped X (fst (consider c s l)) = true.
  Proof.
    intros Hl Hi Hlast. unfold consider. rewrite Hl, andb_false_r, Hi, Hlast. cbn [adv].
    destruct (0 <? adv X s).
    - cbn. reflexivity.
    - match goal with |- context [m ?ss l] => destruct (m ss l) as [s2 v] end.
      destruct v; cbn; unfold raise_match_count_if; cbn;
        repeat match goal with |- context [if ?b then _ else _] => destruct b end; reflexivity.
  Qed.

  (** last() can be true on at most one evaluated line: a line on which it is true is either the
      file's final record or makes the run stop *)
  Theorem last_once c s l : is_nil l = false -> includes (scanner c) (pln X s) = true ->
    last_true c (pln X s) = true ->
    end_line c = Some (pln X s) \/ stopped X (fst (consider c s l)) = true.
  Proof.
    intros Hl Hi Ht. unfold last_true in Ht. apply orb_prop in Ht. destruct Ht as [Ht|Ht].
    - left. unfold oeqb in Ht. destruct (end_line c) as [E|]; [|discriminate]. apply Z.eqb_eq in Ht. subst. reflexivity.
    - right. apply scan_last_stops; assumption.
  Qed.

  (** the blank final record: the matcher runs once on a frozen path; no line is returned, the
      record does not count as scanned or matched by the loop *)
  Theorem blank_last_record c s : end_line c = Some (pln X s) ->
    let s' := fst (consider c s []) in let e := snd (consider c s []) in
    s' = fst (m (set_frozen X s) []) /\ ev_returned e = false /\ ev_offered e = false /\ ev_lastblank e = true.
  Proof.
    intros He. unfold consider. rewrite He. cbn [oeqb]. rewrite Z.eqb_refl. cbn [is_nil andb].
    destruct (m (set_frozen X s) []) as [s2 v]. cbn. auto.
  Qed.
End RunControl.
