(** C07, last clause: collect(nexts=k) returns the first k lines of collect() and performs no side
    effect belonging to a later line.  For every matcher: the budgeted loop is the unbudgeted loop
    over a prefix of the records, which ends with the record holding the k-th returned line. *)
From Coq Require Import ZArith List Bool Lia.
From V Require Import Scan.ScanModel Run.RunLoop Run.RunFacts.
Import ListNotations.
Open Scope Z_scope.

Section RunPrefix.
  Variable C X : Type.
  Variable m : rs X -> line C -> rs X * bool.

  Notation rs := (rs X).
  Notation consider := (consider C X m).
  Notation step := (step C X m).
  Notation run_from := (run_from C X m).
  Notation ls := (ls C X).
  Notation line := (line C).

  Definition core_same (a b : ls) : Prop :=
    st C X a = st C X b /\ trace C X a = trace C X b /\ returned C X a = returned C X b /\ unmatched C X a = unmatched C X b.

  Lemma firstn_own_length {A} (l rest : list A) k : length l = k -> l = firstn k (l ++ rest).
  Proof. intros <-. rewrite firstn_app, Nat.sub_diag, firstn_all. cbn [firstn]. rewrite app_nil_r. reflexivity. Qed.

  Lemma set_frozen_idem (s : rs) : set_frozen X (set_frozen X s) = set_frozen X s.
  Proof. reflexivity. Qed.

  (** one record: either both loops go on in step (the budget shrinking with a returned line), or the budgeted one
      breaks on this record, which is then a returned one *)
  Lemma step_budget c (ab an : ls) nl r :
    halted C X ab = false -> halted C X an = false -> budget C X ab = Some (S r) -> budget C X an = None -> core_same ab an ->
    let b' := step c ab nl in let n' := step c an nl in
    (core_same b' n' /\ halted C X b' = halted C X n' /\ finalized C X b' = finalized C X n' /\ budget C X n' = None /\
       exists r', budget C X b' = Some (S r') /\
         (length (returned C X n') + r' = length (returned C X an) + r)%nat)
    \/ (r = 0%nat /\ halted C X b' = true /\ finalized C X b' = false /\
        trace C X b' = trace C X n' /\ returned C X b' = returned C X n' /\ unmatched C X b' = unmatched C X n' /\
        set_frozen X (st C X b') = set_frozen X (st C X n') /\
        length (returned C X b') = S (length (returned C X an)) /\
        exists t e, trace C X n' = t ++ [e] /\ ev_returned e = true).
  Proof.
    intros Hb Hn Bb Bn (Hs & Ht & Hr & Hu). cbn zeta. unfold step. rewrite Hb, Hn. destruct nl as [n l].
    rewrite Hs. destruct (consider c (track X (st C X an) n) l) as [s' e].
    rewrite Bb, Bn, Ht, Hr, Hu.
    destruct (ev_returned e) eqn:Er; cbn [negb andb].
    - destruct r as [|r].
      + right. destruct (stopped X s'); cbn; rewrite ?app_length; cbn; repeat split; auto; try lia;
          exists (trace C X an), e; auto.
      + left. destruct (stopped X s'); cbn; unfold core_same; cbn; repeat split; auto;
          exists r; rewrite app_length; cbn; split; auto; lia.
    - left. destruct (collecting c && unmatched_avail c); destruct (stopped X s'); cbn; unfold core_same; cbn;
        repeat split; auto; exists r; split; auto.
  Qed.

  Lemma step_returned_grows c (a : ls) nl : exists rest, returned C X (step c a nl) = returned C X a ++ rest.
  Proof.
    unfold step. destruct (halted C X a); [exists []; rewrite app_nil_r; reflexivity|].
    destruct nl as [n l]. destruct (consider c (track X (st C X a) n) l) as [s' e].
    destruct (ev_returned e); cbn [negb andb].
    - exists [l]. destruct (budget C X a) as [[|[|k]]|]; cbn; destruct (stopped X s'); reflexivity.
    - exists []. rewrite app_nil_r. destruct (collecting c && unmatched_avail c); destruct (stopped X s'); reflexivity.
  Qed.

  Lemma fold_returned_grows c : forall (recs : list (Z * line)) (a : ls),
    exists rest, returned C X (fold_left (step c) recs a) = returned C X a ++ rest.
  Proof.
    induction recs as [|nl recs IH]; intros a; [exists []; rewrite app_nil_r; reflexivity|].
    cbn [fold_left]. destruct (IH (step c a nl)) as [r1 H1]. destruct (step_returned_grows c a nl) as [r2 H2].
    exists (r2 ++ r1). rewrite H1, H2, app_assoc. reflexivity.
  Qed.

  Lemma fold_budget c : forall (recs : list line) n (ab an : ls) r,
    halted C X ab = false -> halted C X an = false -> budget C X ab = Some (S r) -> budget C X an = None -> core_same ab an ->
    finalized C X ab = finalized C X an ->
    let fb := fold_left (step c) (number n recs) ab in
    let fn := fold_left (step c) (number n recs) an in
    (* the budget was not used up: the two loops did the same *)
    (core_same fb fn /\ halted C X fb = halted C X fn /\ finalized C X fb = finalized C X fn /\
       (length (returned C X fn) < length (returned C X an) + S r)%nat)
    \/ (* the consumer broke: the budgeted loop is the unbudgeted one over the first j records, the last of them returned *)
    (exists j, (j <= length recs)%nat /\
      let fp := fold_left (step c) (number n (firstn j recs)) an in
      trace C X fb = trace C X fp /\ returned C X fb = returned C X fp /\ unmatched C X fb = unmatched C X fp /\
      set_frozen X (st C X fb) = set_frozen X (st C X fp) /\
      halted C X fb = true /\ finalized C X fb = false /\
      length (returned C X fb) = (length (returned C X an) + S r)%nat /\
      (exists t e, trace C X fp = t ++ [e] /\ ev_returned e = true) /\
      (exists rest, returned C X fn = returned C X fp ++ rest)).
  Proof.
    induction recs as [|l recs IH]; intros n ab an r Hb Hn Bb Bn Hc Hfz.
    - cbn. left. split; [exact Hc|]. repeat split; try congruence; lia.
    - cbn [number fold_left]. cbn zeta.
      destruct (step_budget c ab an (n, l) r Hb Hn Bb Bn Hc) as [(Hc' & Hh & Hf & Bn' & r' & Bb' & Hlen) | (Hr0 & Hh & Hf & Ht & Hr & Hu & Hs & Hlen & Hlast)].
      + destruct (halted C X (step c an (n, l))) eqn:Ehn.
        * left. rewrite (fold_halted C X m c _ _ Ehn), (fold_halted C X m c _ _ Hh).
          split; [exact Hc'|]. repeat split; auto; try congruence; lia.
        * assert (Ehb : halted C X (step c ab (n, l)) = false) by congruence.
          destruct (IH (n + 1) _ _ r' Ehb Ehn Bb' Bn' Hc' Hf) as [(Hc2 & Hh2 & Hf2 & Hl2) | (j & Hj & H1 & H2 & H3 & H4 & H5 & H6 & H7 & H8 & H9)].
          -- left. split; [exact Hc2|]. repeat split; auto; lia.
          -- right. exists (S j). split; [cbn; lia|]. cbn [firstn number fold_left].
             repeat split; auto; lia.
      + right. exists 1%nat. split; [cbn; lia|]. cbn [firstn number fold_left].
        rewrite (fold_halted C X m c _ _ Hh).
        repeat split; auto; try lia.
        apply fold_returned_grows.
  Qed.

  (** C07: collect(nexts=k), k >= 1.  It returns the first k lines of collect(); and what it leaves behind — trace, unmatched lines,
      the whole run state up to the frozen flag that finalize() sets — is what the unbudgeted loop leaves on the first j records,
      where (if k lines were found) record j is the one that gave the k-th line: no side effect of a later record. *)
  Theorem collect_n_prefix c x0 (recs : list line) k : (0 < k)%nat ->
    let rn := run_from c (rs0 X x0) (Some k) recs in
    let ra := run_from c (rs0 X x0) None recs in
    returned C X rn = firstn k (returned C X ra) /\
    exists j, (j <= length recs)%nat /\
      let rp := run_from c (rs0 X x0) None (firstn j recs) in
      trace C X rn = trace C X rp /\ returned C X rn = returned C X rp /\ unmatched C X rn = unmatched C X rp /\
      set_frozen X (st C X rn) = set_frozen X (st C X rp) /\
      ((k <= length (returned C X ra))%nat ->
         length (returned C X rn) = k /\ exists t e, trace C X rp = t ++ [e] /\ ev_returned e = true).
  Proof.
    intros Hk. destruct k as [|r]; [lia|]. cbn zeta. unfold run_from.
    destruct (will_run c).
    2:{ cbn. split; [reflexivity|]. exists 0%nat. cbn. repeat split; auto; lia. }
    set (ib := mkLs C X (rs0 X x0) [] [] [] false false (Some (S r))).
    set (i0 := mkLs C X (rs0 X x0) [] [] [] false false None).
    assert (Hc : core_same ib i0) by (unfold core_same; cbn; auto).
    destruct (fold_budget c recs 0 ib i0 r eq_refl eq_refl eq_refl eq_refl Hc eq_refl) as [((Hs & Ht & Hr & Hu) & Hh & Hf & Hl) | (j & Hj & H1 & H2 & H3 & H4 & H5 & H6 & H7 & H8 & rest & H9)].
    - (* fewer than k lines in the whole file *)
      assert (Hi : returned C X i0 = []) by reflexivity. rewrite Hi in Hl. cbn [length Nat.add] in Hl.
      assert (Hfin : forall a b : ls, st C X a = st C X b -> trace C X a = trace C X b -> returned C X a = returned C X b ->
                 unmatched C X a = unmatched C X b -> halted C X a = halted C X b ->
                 st C X (finish C X a) = st C X (finish C X b) /\ trace C X (finish C X a) = trace C X (finish C X b) /\
                 returned C X (finish C X a) = returned C X (finish C X b) /\ unmatched C X (finish C X a) = unmatched C X (finish C X b)).
      { intros a b E1 E2 E3 E4 E5. unfold finish. rewrite E5. destruct (halted C X b); cbn; rewrite ?E1; auto. }
      destruct (Hfin _ _ Hs Ht Hr Hu Hh) as (F1 & F2 & F3 & F4).
      assert (Hret : forall a : ls, returned C X (finish C X a) = returned C X a) by (intros a; unfold finish; destruct (halted C X a); reflexivity).
      split.
      + rewrite F3, firstn_all2; [reflexivity|]. rewrite Hret. lia.
      + exists (length recs). split; [lia|]. rewrite firstn_all. cbn zeta. fold i0.
        split; [congruence|]. split; [congruence|]. split; [congruence|]. split; [congruence|].
        intros Hge. rewrite Hret in Hge. lia.
    - cbn zeta in *. assert (Hi : returned C X i0 = []) by reflexivity. rewrite Hi in H7. cbn [length Nat.add] in H7.
      assert (Hret : forall a : ls, returned C X (finish C X a) = returned C X a) by (intros a; unfold finish; destruct (halted C X a); reflexivity).
      assert (Htr : forall a : ls, trace C X (finish C X a) = trace C X a) by (intros a; unfold finish; destruct (halted C X a); reflexivity).
      assert (Hun : forall a : ls, unmatched C X (finish C X a) = unmatched C X a) by (intros a; unfold finish; destruct (halted C X a); reflexivity).
      assert (Hst : forall a : ls, set_frozen X (st C X (finish C X a)) = set_frozen X (st C X a)) by (intros a; unfold finish; destruct (halted C X a); reflexivity).
      split.
      + rewrite !Hret, H9, <- H2. apply firstn_own_length. exact H7.
      + exists j. split; [exact Hj|]. fold i0. rewrite !Hret, !Htr, !Hun, !Hst.
        split; [exact H1|]. split; [exact H2|]. split; [exact H3|]. split; [exact H4|].
        intros _. split; [rewrite H7; reflexivity|exact H8].
  Qed.
End RunPrefix.
