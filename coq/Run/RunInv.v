(** Lifting an invariant of the match part to a whole run: the run loop itself never touches the
    matcher's own state, so whatever every matcher step preserves holds at the end of every run —
    any file, any scan, any entry point, any budget. *)
From Coq Require Import ZArith List Bool Lia.
From V Require Import Scan.ScanModel Run.RunLoop.
Import ListNotations.
Open Scope Z_scope.

Section RunInv.
  Variable C X : Type.
  Variable m : rs X -> line C -> rs X * bool.
  (** the invariant may mention the line being read (pln) as well as the matcher's state *)
  Variable I : X -> Prop.
  Hypothesis m_keeps : forall s l, I (x X s) -> I (x X (fst (m s l))).

  Lemma consider_inv c s l : I (x X s) -> I (x X (fst (consider C X m c s l))).
  Proof.
    intros H. unfold consider.
    destruct (oeqb (end_line c) (pln X s) && is_nil l).
    - pose proof (m_keeps (set_frozen X s) l H) as K. destruct (m (set_frozen X s) l) as [s2 v]. exact K.
    - destruct (is_nil l); [exact H|]. destruct (includes (scanner c) (pln X s)); [|exact H].
      cbn [adv]. destruct (0 <? adv X s).
      + destruct (is_last _ _ _ _); exact H.
      + match goal with |- context [m ?ss l] => pose proof (m_keeps ss l H) as K; destruct (m ss l) as [s2 v] end.
        cbn [fst] in K. destruct (is_last _ _ _ _); destruct v; cbn [fst]; unfold raise_match_count_if, set_stopped; cbn;
          try (destruct (_ =? _)); exact K.
  Qed.

  Lemma step_inv c (a : ls C X) nl : I (x X (st C X a)) -> I (x X (st C X (step C X m c a nl))).
  Proof.
    intros H. unfold step. destruct (halted C X a); [exact H|]. destruct nl as [n l].
    pose proof (consider_inv c (track X (st C X a) n) l H) as K.
    destruct (consider C X m c (track X (st C X a) n) l) as [s' e]. cbn [fst] in K.
    destruct (ev_returned e); destruct (budget C X a) as [[|[|k]]|]; cbn; destruct (stopped X s'); cbn; exact K.
  Qed.

  Theorem run_invariant c s0 bud recs : I (x X s0) -> I (x X (st C X (run_from C X m c s0 bud recs))).
  Proof.
    intros H. unfold run_from.
    assert (F: forall l a, I (x X (st C X a)) -> I (x X (st C X (fold_left (step C X m c) l a)))).
    { induction l as [|nl l IH]; intros a Ha; [exact Ha|]. cbn [fold_left]. apply IH. apply step_inv. exact Ha. }
    assert (G: forall a, I (x X (st C X a)) -> I (x X (st C X (finish C X a)))).
    { intros a Ha. unfold finish. destruct (halted C X a); exact Ha. }
    destruct (will_run c); apply G; [apply F|]; exact H.
  Qed.
End RunInv.
