(** The per-record step generated from csvpath/csvpath.py and csvpath/util/line_monitor.py (Run/RunSrc.v) equals the hand-written
    run-loop model's [consider] (Run/RunLoop.v), for EVERY matcher that leaves the line monitor alone, every scanner state, every
    run-loop state and every record: CsvPath._consider_line as written in the source — calling the source's own Scanner.includes /
    Scanner.is_last (Scan/ScanSrc.v), raise_match_count_if, stop() and LineMonitor.is_last_line_and_blank — never raises, leaves
    exactly the model's state and returns exactly the model's "the line is yielded".  Re-checked against the regenerated RunSrc.v on
    every run of C07 / C13. *)
From Coq Require Import ZArith List Bool Lia.
From V Require Import Scan.ScanModel Scan.PySem Scan.ScanSrc Scan.ScanSrcEq Run.RunLoop Run.RunSem Run.RunSrc.
Import ListNotations.
Open Scope Z_scope.

Section Eq.
  Variable C : Type.
  Variable X : Type.
  Variable m : rs X -> list C -> rs X * bool.
  (** the matcher does not move the line monitor *)
  Hypothesis m_pln : forall s l, pln X (fst (m s l)) = pln X s.

  Lemma last_blank_eq (e : option Z) (n : Z) (l : list C) :
    is_last_line_and_blank_src (of_oz e) (PInt n) (line_pyv C l) = PBool (oeqb e n && is_nil l).
  Proof.
    unfold is_last_line_and_blank_src, oeqb, is_nil, line_pyv. destruct e as [e|]; destruct l as [|c l]; cbn;
      try (destruct (e =? n) eqn:E; cbn; reflexivity); reflexivity.
  Qed.

  Lemma len_nil (l : list C) : p_eq (p_len (line_pyv C l)) (PInt 0) = PBool (is_nil l).
  Proof.
    destruct l as [|c0 l0]; [reflexivity|]. unfold line_pyv, p_len, p_eq. cbn [map length as_int is_nil].
    replace (Z.of_nat (S (length (map (fun _ : C => 0) l0))) =? 0) with false; [reflexivity|]. symmetry. apply Z.eqb_neq. lia.
  Qed.

  Lemma raise_eq (s : rs X) : raise_match_count_if_src X s = Some (raise_match_count_if X s, PNone).
  Proof. unfold raise_match_count_if_src, raise_match_count_if, ifo, bind_z. cbn. destruct (cur_mc X s =? match_count X s); reflexivity. Qed.

  Theorem consider_line_src_eq (c : cfg) (s : rs X) (l : list C) : q_scan c = false ->
    consider_line_src C X m (of_oz (from_line (scanner c))) (of_oz (to_line (scanner c))) (PBool (all_lines (scanner c))) (PList (these (scanner c)))
      (of_oz (end_line c)) (cwnm c) true s l
    = Some (fst (consider C X m c s l), PBool (ev_returned (snd (consider C X m c s l)))).
  Proof.
    intros Hq. unfold consider_line_src, consider. rewrite last_blank_eq. unfold ifo at 1. cbn [p_truth].
    destruct (oeqb (end_line c) (pln X s) && is_nil l) eqn:Elb.
    - destruct (m (set_frozen_b X s true) l) as [s2 v] eqn:Em. unfold set_frozen_b in Em. unfold set_frozen. rewrite Em. reflexivity.
    - rewrite len_nil. unfold ifo at 1. cbn [p_and p_truth].
      destruct (is_nil l) eqn:En; [reflexivity|]. rewrite includes_src_eq. unfold ifo at 1. cbn [p_truth].
      destruct (includes (scanner c) (pln X s)); [|reflexivity].
      cbn [p_add as_int bind_z]. unfold set_scan_count, set_cur_mc. cbn [match_count scan_count adv pln cur_mc stopped frozen x p_gt p_cmp as_int].
      unfold ifo at 1. cbn [p_truth].
      destruct (0 <? adv X s) eqn:Ea.
      + cbn [p_sub as_int bind_z]. unfold set_adv. cbn [pln scan_count match_count cur_mc adv stopped frozen x].
        rewrite !is_last_src_eq. rewrite Hq. unfold ifo. cbn [p_truth p_is_true].
        destruct (is_last false (scanner c) (end_line c) (pln X s)); destruct (cwnm c); reflexivity.
      + destruct (m _ l) as [s9 mv] eqn:Em.
        pose proof (m_pln (mkRs X (pln X s) (scan_count X s + 1) (match_count X s) (match_count X s) (adv X s) (stopped X s) (frozen X s) (x X s)) l) as Hp.
        rewrite Em in Hp. cbn [fst pln] in Hp. rewrite !is_last_src_eq, Hp, Hq. unfold ifo. cbn [p_truth p_is_true].
        destruct (is_last false (scanner c) (end_line c) (pln X s)); destruct mv; cbn [p_truth]; rewrite ?raise_eq; destruct (cwnm c); reflexivity.
  Qed.
End Eq.
