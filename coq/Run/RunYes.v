(** The run loop with the matcher [yes()] (every offered line matches, no side effect):
    the returned lines are exactly the denoted non-blank records.  Used by C06 (fidelity of
    delivered lines) on top of the csv round trip. *)
From Coq Require Import ZArith List Bool Lia.
From V Require Import Scan.ScanModel Scan.ScanSpec Scan.ScanProofs Run.RunLoop Run.RunProofs Run.RunFacts.
Import ListNotations.
Open Scope Z_scope.

Section RunYes.
  Variable C X : Type.

  Definition yes_m (s : rs X) (l : line C) : rs X * bool := (s, true).

  Lemma yes_quiet : quiet C X yes_m.
  Proof. intros s l. cbn. auto. Qed.

  Lemma consider_yes c s l : cwnm c = false -> adv X s = 0 ->
    ev_returned (snd (consider C X yes_m c s l)) = ev_offered (snd (consider C X yes_m c s l)).
  Proof.
    intros Hc Ha. unfold consider, yes_m. rewrite Hc.
    destruct (oeqb (end_line c) (pln X s) && is_nil l); [reflexivity|].
    destruct (is_nil l); [reflexivity|].
    destruct (includes (scanner c) (pln X s)); [|reflexivity].
    cbn [adv]. rewrite Ha. cbn. reflexivity.
  Qed.

  Section Fixed.
    Variable sh : shape.
    Variable c : cfg.
    Variable E : Z.
    Hypothesis Hwf : wf sh.
    Hypothesis Hparse : parse false (ast_of sh) = Some (scanner c).
    Hypothesis Hq_scan : q_scan c = false.
    Hypothesis Hend : end_line c = Some E.
    Hypothesis Hcw : cwnm c = false.

    Lemma fold_yes_returned : forall (recs : list (line C)) n (a : ls C X),
      n + Z.of_nat (length recs) - 1 = E ->
      halted C X a = false -> budget C X a = None ->
      adv X (st C X a) = 0 -> stopped X (st C X a) = false ->
      returned C X (fold_left (step C X yes_m c) (number n recs) a) =
        returned C X a ++ map snd (filter (want C sh) (number n recs)).
    Proof.
      induction recs as [|l recs IH]; intros n a Hlen Hh Hb Ha Hs.
      - cbn. rewrite app_nil_r. reflexivity.
      - cbn [number fold_left].
        pose proof (consider_quiet C X yes_m c (track X (st C X a) n) l yes_quiet) as Hc.
        cbn [adv stopped track pln scan_count] in Hc. specialize (Hc Ha Hs). cbn zeta in Hc.
        pose proof (step_spec C X yes_m c a n l Hh) as Hst. cbn zeta in Hst.
        pose proof (consider_yes c (track X (st C X a) n) l Hcw) as Hy.
        cbn [adv track] in Hy. specialize (Hy Ha).
        destruct (consider C X yes_m c (track X (st C X a) n) l) as [s' e] eqn:Ec. cbn [fst snd] in Hc, Hst, Hy.
        destruct Hc as (Hline & Hoff & Hadv & Hsc & Hstop).
        destruct Hst as (_ & Hret & _ & _ & Hnb). destruct (Hnb Hb) as (Hbud & Hhalt & Hst').
        assert (Hwant: want C sh (n, l) = ev_offered e).
        { unfold want. cbn [fst snd]. rewrite Hoff, (includes_is_denotes sh c Hwf Hparse). reflexivity. }
        cbn [length] in Hlen. cbn [filter]. rewrite Hwant.
        set (a' := step C X yes_m c a (n, l)) in *.
        destruct (stopped X s') eqn:Es.
        + rewrite (RunFacts.fold_halted C X yes_m c _ a' Hhalt).
          destruct (Hstop eq_refl) as (Hoffd & Hlast). rewrite Hq_scan, Hend in Hlast.
          rewrite (rest_not_wanted C sh c E Hwf Hparse n Hlast recs (n + 1)); [|lia|lia].
          rewrite Hret, Hy, Hoffd. reflexivity.
        + rewrite (IH (n + 1) a'); try congruence; try lia.
          rewrite Hret, Hy. destruct (ev_offered e); cbn [map snd app]; rewrite <- ?app_assoc; reflexivity.
    Qed.

    Theorem yes_returns_denoted (recs : list (line C)) (x0 : X) :
      end_of C recs = Some E -> will_run c = true ->
      returned C X (run_from C X yes_m c (rs0 X x0) None recs) = map snd (filter (want C sh) (number 0 recs)).
    Proof.
      intros He Hw. unfold run_from. rewrite Hw.
      assert (Hlen: 0 + Z.of_nat (length recs) - 1 = E).
      { unfold end_of in He. destruct recs as [|l0 recs0]; [discriminate|].
        assert (He2: Z.of_nat (length (l0 :: recs0)) - 1 = E) by congruence. lia. }
      pose proof (fold_yes_returned recs 0 (mkLs C X (rs0 X x0) [] [] [] false false None) Hlen) as H.
      cbn [halted budget st adv stopped rs0 returned app] in H.
      specialize (H eq_refl eq_refl eq_refl eq_refl).
      unfold finish. destruct (halted C X _); cbn [returned]; exact H.
    Qed.
  End Fixed.

  (** filter on numbered records by a predicate of the record only *)
  Lemma filter_number_snd (p : line C -> bool) : forall (recs : list (line C)) n,
    map snd (filter (fun nl : Z * line C => p (snd nl)) (number n recs)) = filter p recs.
  Proof.
    induction recs as [|r recs IH]; intros n; [reflexivity|].
    cbn [number filter snd]. destruct (p r); cbn [map snd]; rewrite IH; reflexivity.
  Qed.
End RunYes.
