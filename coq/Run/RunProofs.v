(** Facts about the run loop that hold for every matcher. *)
From Coq Require Import ZArith List Bool Lia.
From V Require Import Scan.ScanModel Scan.ScanSpec Scan.ScanProofs Run.RunLoop.
Import ListNotations.
Open Scope Z_scope.

Section RunProofs.
  Variable C X : Type.
  Variable m : rs X -> line C -> rs X * bool.

  Notation rs := (rs X).
  Notation consider := (consider C X m).
  Notation step := (step C X m).
  Notation run_from := (run_from C X m).
  Notation ls := (ls C X).

  (** A matcher that never calls stop()/advance() and does not touch the scan counter
      (no matcher does: scan_count is written only by _consider_line). *)
  Definition quiet : Prop := forall s l,
    stopped X (fst (m s l)) = stopped X s /\ adv X (fst (m s l)) = adv X s /\
    scan_count X (fst (m s l)) = scan_count X s.

  Definition offered_lines (t : list (ev)) : list Z := map ev_line (filter ev_offered t).

  Definition nonblank (l : line C) : bool := negb (is_nil l).

  Lemma consider_quiet c s l : quiet -> adv X s = 0 -> stopped X s = false ->
    let s' := fst (consider c s l) in let e := snd (consider c s l) in
    ev_line e = pln X s /\
    ev_offered e = includes (scanner c) (pln X s) && nonblank l /\
    adv X s' = 0 /\
    scan_count X s' = scan_count X s + (if ev_offered e then 1 else 0) /\
    (stopped X s' = true -> ev_offered e = true /\ is_last (q_scan c) (scanner c) (end_line c) (pln X s) = true).
  Proof.
    intros Hq Ha Hs. unfold consider, nonblank.
    destruct (oeqb (end_line c) (pln X s) && is_nil l) eqn:E1.
    - apply andb_prop in E1. destruct E1 as [_ E1]. rewrite E1.
      destruct (m (set_frozen X s) l) as [s2 v] eqn:Em. cbn.
      pose proof (Hq (set_frozen X s) l) as (H1 & H2 & H3). rewrite Em in *. cbn in *.
      rewrite andb_false_r. repeat split; try congruence; try lia.
    - destruct (is_nil l) eqn:E2.
      + cbn. rewrite andb_false_r. repeat split; try congruence; try lia.
      + destruct (includes (scanner c) (pln X s)) eqn:E3.
        * cbn [adv]. rewrite Ha. cbn [Z.ltb Z.compare].
          match goal with |- context [m ?ss l] => set (s1 := ss) end.
          destruct (m s1 l) as [s2 v] eqn:Em.
          pose proof (Hq s1 l) as (H1 & H2 & H3). rewrite Em in *. cbn in H1, H2, H3.
          destruct (is_last (q_scan c) (scanner c) (end_line c) (pln X s)) eqn:E4;
            destruct v; cbn; unfold raise_match_count_if;
            repeat match goal with |- context [if ?b then _ else _] => destruct b end; cbn;
            repeat split; try congruence; try lia.
        * cbn. repeat split; try congruence; try lia.
  Qed.

  Lemma fold_halted c (recs : list (Z * line C)) (a : ls) : halted C X a = true -> fold_left (step c) recs a = a.
  Proof.
    intros H. induction recs as [|r recs IH]; [reflexivity|].
    cbn [fold_left]. unfold step at 2. rewrite H. exact IH.
  Qed.

  Definition want (sh : shape) (nl : Z * line C) : bool := denotes sh (fst nl) && nonblank (snd nl).

  Section Fixed.
    Variable sh : shape.
    Variable c : cfg.
    Variable E : Z.
    Hypothesis Hwf : wf sh.
    Hypothesis Hparse : parse false (ast_of sh) = Some (scanner c).
    Hypothesis Hq_scan : q_scan c = false.
    Hypothesis Hend : end_line c = Some E.
    Hypothesis Hquiet : quiet.

    Lemma includes_is_denotes l : includes (scanner c) l = denotes sh l.
    Proof.
      destruct (includes_denotes sh l Hwf) as (s & Hp & Hi). rewrite Hparse in Hp. inversion Hp; subst. exact Hi.
    Qed.

    Lemma rest_not_wanted l : is_last false (scanner c) (Some E) l = true ->
      forall (recs : list (line C)) n, l < n -> n + Z.of_nat (length recs) - 1 = E ->
      filter (want sh) (number n recs) = [].
    Proof.
      intros Hl recs. induction recs as [|r recs IH]; intros n Hn Hlen; [reflexivity|].
      cbn [number filter]. unfold want at 1. cbn [fst snd].
      rewrite (is_last_sound sh (scanner c) (Some E) l n Hwf Hparse Hl Hn).
      - cbn [andb]. apply IH; [lia|]. cbn [length] in Hlen. lia.
      - intros E' HE. injection HE as HE2. cbn [length] in Hlen. lia.
    Qed.

    Lemma step_unbudgeted (a : ls) n l :
      halted C X a = false -> budget C X a = None ->
      let s' := fst (consider c (track X (st C X a) n) l) in
      let e := snd (consider c (track X (st C X a) n) l) in
      let a' := step c a (n, l) in
      trace C X a' = trace C X a ++ [e] /\ budget C X a' = None /\
      halted C X a' = stopped X s' /\
      scan_count X (st C X a') = scan_count X s' /\ adv X (st C X a') = adv X s' /\
      stopped X (st C X a') = stopped X s'.
    Proof.
      intros Hh Hb. unfold step. rewrite Hh, Hb.
      destruct (consider c (track X (st C X a) n) l) as [s' e]. cbn [fst snd].
      destruct (ev_returned e); cbn; destruct (stopped X s') eqn:Es; cbn; repeat split; auto.
    Qed.

    Lemma fold_offered : forall (recs : list (line C)) n (a : ls),
      n + Z.of_nat (length recs) - 1 = E ->
      halted C X a = false -> budget C X a = None ->
      adv X (st C X a) = 0 -> stopped X (st C X a) = false ->
      let r := fold_left (step c) (number n recs) a in
      offered_lines (trace C X r) = offered_lines (trace C X a) ++ map fst (filter (want sh) (number n recs)) /\
      scan_count X (st C X r) = scan_count X (st C X a) + Z.of_nat (length (filter (want sh) (number n recs))).
    Proof.
      induction recs as [|l recs IH]; intros n a Hlen Hh Hb Ha Hs.
      - cbn. rewrite app_nil_r. split; [reflexivity|lia].
      - cbn [number fold_left].
        pose proof (consider_quiet c (track X (st C X a) n) l Hquiet) as Hc.
        cbn [adv stopped track pln scan_count] in Hc. specialize (Hc Ha Hs). cbn zeta in Hc.
        pose proof (step_unbudgeted a n l Hh Hb) as Hst. cbn zeta in Hst.
        destruct (consider c (track X (st C X a) n) l) as [s' e] eqn:Ec. cbn [fst snd] in Hc, Hst.
        destruct Hc as (Hline & Hoff & Hadv & Hsc & Hstop).
        destruct Hst as (Htr & Hbud & Hhalt & Hsc' & Hadv' & Hstopped').
        assert (Hwant: want sh (n, l) = ev_offered e).
        { unfold want. cbn [fst snd]. rewrite Hoff, includes_is_denotes. reflexivity. }
        assert (Htr2: offered_lines (trace C X a ++ [e]) =
                     offered_lines (trace C X a) ++ (if ev_offered e then [n] else [])).
        { unfold offered_lines. rewrite filter_app, map_app. cbn [filter].
          destruct (ev_offered e); cbn [map]; rewrite ?Hline; reflexivity. }
        cbn [length] in Hlen. cbn [filter]. rewrite Hwant.
        set (a' := step c a (n, l)) in *.
        destruct (stopped X s') eqn:Es.
        + (* the scanner said this was the last line: the loop is left *)
          rewrite (fold_halted c _ a' Hhalt).
          destruct (Hstop eq_refl) as (Hoffd & Hlast). rewrite Hq_scan, Hend in Hlast.
          rewrite (rest_not_wanted n Hlast recs (n + 1)); [|lia|lia].
          rewrite Htr, Htr2, Hoffd. cbn [map fst length]. split; [reflexivity|].
          rewrite Hsc', Hsc, Hoffd. lia.
        + destruct (IH (n + 1) a') as (IH1 & IH2); try congruence; try lia.
          cbn zeta in IH1, IH2. rewrite IH1, IH2, Htr, Htr2, Hsc', Hsc.
          destruct (ev_offered e); cbn [map fst length app]; rewrite <- ?app_assoc; cbn [app]; split; try reflexivity; try lia.
    Qed.

    (** C02 at run level: which records are offered to the match part. *)
    Theorem run_offered (recs : list (line C)) (x0 : X) :
      end_of C recs = Some E -> will_run c = true ->
      let r := run_from c (rs0 X x0) None recs in
      offered_lines (trace C X r) = map fst (filter (want sh) (number 0 recs)) /\
      scan_count X (st C X r) = Z.of_nat (length (filter (want sh) (number 0 recs))).
    Proof.
      intros He Hw. unfold run_from. rewrite Hw.
      assert (Hlen: 0 + Z.of_nat (length recs) - 1 = E).
      { unfold end_of in He. destruct recs as [|l0 recs0]; [discriminate|].
        assert (He2: Z.of_nat (length (l0 :: recs0)) - 1 = E) by congruence. lia. }
      destruct (fold_offered recs 0 (mkLs C X (rs0 X x0) [] [] [] false false None) Hlen) as (H1 & H2); try reflexivity.
      cbn zeta in *. unfold finish.
      destruct (halted C X _); cbn [trace st scan_count set_frozen]; rewrite ?H1, ?H2; cbn; auto.
    Qed.
  End Fixed.
End RunProofs.
