(** What the generated Run/RunSrc.v (CsvPath._consider_line, raise_match_count_if, LineMonitor.is_last_line_and_blank, translated from
    the source) is written over: the run loop's state record of Run/RunLoop.v with one setter per attribute the methods assign, the
    Python values of Scan/PySem.v for every expression, and statement combinators in which a Python error (a test that is not a
    bool/int/None/list, an int attribute assigned something else) ends the method with [None]. *)
From Coq Require Import ZArith List Bool.
From V Require Import Scan.ScanModel Scan.PySem Run.RunLoop.
Import ListNotations.
Open Scope Z_scope.

Section RunSem.
  Variable C : Type.
  Variable X : Type.
  Notation rs := (rs X).

  Definition set_scan_count (s : rs) (v : Z) : rs := mkRs X (pln X s) v (match_count X s) (cur_mc X s) (adv X s) (stopped X s) (frozen X s) (x X s).
  Definition set_match_count (s : rs) (v : Z) : rs := mkRs X (pln X s) (scan_count X s) v (cur_mc X s) (adv X s) (stopped X s) (frozen X s) (x X s).
  Definition set_cur_mc (s : rs) (v : Z) : rs := mkRs X (pln X s) (scan_count X s) (match_count X s) v (adv X s) (stopped X s) (frozen X s) (x X s).
  Definition set_adv (s : rs) (v : Z) : rs := mkRs X (pln X s) (scan_count X s) (match_count X s) (cur_mc X s) v (stopped X s) (frozen X s) (x X s).
  Definition set_stopped_b (s : rs) (b : bool) : rs := mkRs X (pln X s) (scan_count X s) (match_count X s) (cur_mc X s) (adv X s) b (frozen X s) (x X s).
  Definition set_frozen_b (s : rs) (b : bool) : rs := mkRs X (pln X s) (scan_count X s) (match_count X s) (cur_mc X s) (adv X s) (stopped X s) b (x X s).

  (** a record as Python sees it here: only its length is ever looked at *)
  Definition line_pyv (l : list C) : pyv := PList (map (fun _ => 0) l).

  Definition ifo {A} (c : pyv) (a b : unit -> option A) : option A :=
    match p_truth c with Some true => a tt | Some false => b tt | None => None end.
  (** an int attribute takes an int (a Python error value, or anything else, ends the method) *)
  Definition bind_z {A} (v : pyv) (k : Z -> option A) : option A := match v with PInt z => k z | _ => None end.
End RunSem.
