(** Matcher-independent facts about the run loop used by C01, C07, C13 and C15. *)
From Coq Require Import ZArith List Bool Lia.
From V Require Import Scan.ScanModel Run.RunLoop.
Import ListNotations.
Open Scope Z_scope.

Section RunFacts.
  Variable C X : Type.
  Variable m : rs X -> line C -> rs X * bool.

  Notation rs := (rs X).
  Notation consider := (consider C X m).
  Notation step := (step C X m).
  Notation run_from := (run_from C X m).
  Notation ls := (ls C X).
  Notation line := (line C).

  (** select the records whose flag is set *)
  Fixpoint sel (flags : list bool) (recs : list line) : list line :=
    match flags, recs with
    | f :: fs, r :: rs => if f then r :: sel fs rs else sel fs rs
    | _, _ => []
    end.

  Lemma sel_app f1 f2 r1 r2 : length f1 = length r1 ->
    sel (f1 ++ f2) (r1 ++ r2) = sel f1 r1 ++ sel f2 r2.
  Proof.
    revert r1. induction f1 as [|f f1 IH]; intros [|r r1] H; try discriminate; [reflexivity|].
    cbn [app sel]. injection H as H. rewrite (IH r1 H). destruct f; reflexivity.
  Qed.

  (** one step of a loop that has not been left *)
  Lemma step_spec c (a : ls) n l : halted C X a = false ->
    let s' := fst (consider c (track X (st C X a) n) l) in
    let e := snd (consider c (track X (st C X a) n) l) in
    let a' := step c a (n, l) in
    trace C X a' = trace C X a ++ [e] /\
    returned C X a' = returned C X a ++ (if ev_returned e then [l] else []) /\
    unmatched C X a' = unmatched C X a ++
        (if negb (ev_returned e) && collecting c && unmatched_avail c then [l] else []) /\
    (halted C X a' = false -> st C X a' = s') /\
    (budget C X a = None -> budget C X a' = None /\ halted C X a' = stopped X s' /\
        st C X a' = (if stopped X s' then set_frozen X s' else s')).
  Proof.
    intros Hh. unfold step. rewrite Hh.
    destruct (consider c (track X (st C X a) n) l) as [s' e]. cbn [fst snd].
    destruct (ev_returned e); cbn [negb andb].
    - destruct (budget C X a) as [[|[|k]]|]; cbn; rewrite ?app_nil_r;
        try (destruct (stopped X s'); cbn; repeat split; auto; discriminate).
    - destruct (collecting c && unmatched_avail c); destruct (stopped X s') eqn:Es; cbn; rewrite ?app_nil_r;
        repeat split; auto; try discriminate; intros H; rewrite ?H; auto.
  Qed.

  Lemma fold_halted c (recs : list (Z * line)) (a : ls) : halted C X a = true -> fold_left (step c) recs a = a.
  Proof.
    intros H. induction recs as [|r recs IH]; [reflexivity|].
    cbn [fold_left]. unfold step at 2. rewrite H. exact IH.
  Qed.

  (** The lines returned / kept as unmatched are exactly the records read whose event says
      returned / not returned: they partition the records read, in file order. *)
  Lemma fold_partition c : forall (recs : list line) n (a : ls),
    let r := fold_left (step c) (number n recs) a in
    exists t', trace C X r = trace C X a ++ t' /\ (length t' <= length recs)%nat /\
      returned C X r = returned C X a ++ sel (map ev_returned t') (firstn (length t') recs) /\
      unmatched C X r = unmatched C X a ++
         (if collecting c && unmatched_avail c
          then sel (map (fun e => negb (ev_returned e)) t') (firstn (length t') recs) else []).
  Proof.
    induction recs as [|l recs IH]; intros n a.
    - cbn [number fold_left]. exists []. cbn [length map firstn sel].
      destruct (collecting c && unmatched_avail c); rewrite !app_nil_r; repeat split; auto.
    - cbn [number fold_left]. destruct (halted C X a) eqn:Hh.
      + replace (step c a (n, l)) with a by (unfold step; rewrite Hh; reflexivity).
        rewrite fold_halted by exact Hh.
        exists []. cbn [length map firstn sel].
        destruct (collecting c && unmatched_avail c); rewrite !app_nil_r; repeat split; auto; apply Nat.le_0_l.
      + pose proof (step_spec c a n l Hh) as Hs. cbn zeta in Hs.
        destruct Hs as (Ht & Hr & Hu & _).
        destruct (IH (n + 1) (step c a (n, l))) as (t' & Ht' & Hlen & Hr' & Hu').
        set (e := snd (consider c (track X (st C X a) n) l)) in *.
        exists (e :: t'). cbn [length firstn map]. repeat split.
        * rewrite Ht', Ht, <- app_assoc. reflexivity.
        * lia.
        * rewrite Hr', Hr, <- app_assoc. cbn [sel]. destruct (ev_returned e); reflexivity.
        * rewrite Hu', Hu, <- app_assoc. cbn [sel].
          destruct (collecting c && unmatched_avail c) eqn:Ec.
          -- rewrite <- andb_assoc, Ec, andb_true_r. destruct (ev_returned e); reflexivity.
          -- rewrite <- andb_assoc, Ec, andb_false_r. reflexivity.
  Qed.

  (** Observable part of a loop state that must not depend on the entry point *)
  Definition same_but_unmatched (a b : ls) : Prop :=
    st C X a = st C X b /\ trace C X a = trace C X b /\ returned C X a = returned C X b /\
    halted C X a = halted C X b /\ finalized C X a = finalized C X b /\ budget C X a = budget C X b.

  Lemma consider_collecting c b s l : consider (with_collecting c b) s l = consider c s l.
  Proof. reflexivity. Qed.

  Lemma step_collecting c b1 b2 (a1 a2 : ls) nl : same_but_unmatched a1 a2 ->
    same_but_unmatched (step (with_collecting c b1) a1 nl) (step (with_collecting c b2) a2 nl).
  Proof.
    intros (Hs & Ht & Hr & Hh & Hf & Hb). unfold step. rewrite Hh.
    destruct (halted C X a2) eqn:Eh; [unfold same_but_unmatched; repeat split; auto; congruence|].
    destruct nl as [n l]. rewrite !consider_collecting, Hs.
    destruct (consider c (track X (st C X a2) n) l) as [s' e].
    rewrite Hb, Hr, Ht.
    destruct (ev_returned e); destruct (budget C X a2) as [[|[|k]]|]; cbn;
      destruct (stopped X s'); unfold same_but_unmatched; cbn; repeat split; auto.
  Qed.

  Lemma fold_collecting c b1 b2 : forall recs (a1 a2 : ls), same_but_unmatched a1 a2 ->
    same_but_unmatched (fold_left (step (with_collecting c b1)) recs a1)
                       (fold_left (step (with_collecting c b2)) recs a2).
  Proof.
    induction recs as [|nl recs IH]; intros a1 a2 H; [exact H|].
    cbn [fold_left]. apply IH. apply step_collecting. exact H.
  Qed.

  Lemma finish_same (a b : ls) : same_but_unmatched a b -> same_but_unmatched (finish C X a) (finish C X b).
  Proof.
    intros (Hs & Ht & Hr & Hh & Hf & Hb). unfold finish. rewrite Hh.
    destruct (halted C X b) eqn:Eh; unfold same_but_unmatched; cbn; rewrite ?Hs; repeat split; auto; congruence.
  Qed.

  (** C07: collect(), next() and fast_forward() are the same run (for any budget). *)
  Theorem entry_points_agree c s0 bud recs b1 b2 :
    same_but_unmatched (run_from (with_collecting c b1) s0 bud recs) (run_from (with_collecting c b2) s0 bud recs).
  Proof.
    unfold run_from. cbn [will_run with_collecting].
    destruct (will_run c); apply finish_same.
    - apply fold_collecting. unfold same_but_unmatched; cbn; repeat split; auto.
    - unfold same_but_unmatched; cbn; repeat split; auto.
  Qed.

  (** C15: run-mode no-run reads nothing, returns nothing, changes nothing. *)
  Theorem no_run c s0 bud recs : will_run c = false ->
    let r := run_from c s0 bud recs in
    trace C X r = [] /\ returned C X r = [] /\ unmatched C X r = [] /\ st C X r = set_frozen X s0.
  Proof. intros H. unfold run_from. rewrite H. cbn. auto. Qed.

  (** C15: return-mode.  Flipping collect_when_not_matched changes nothing but which of the
      offered lines are returned: exactly the complement. *)
  Definition with_cwnm (c : cfg) (b : bool) : cfg :=
    mkCfg (scanner c) (q_scan c) (end_line c) b (collecting c) (unmatched_avail c) (will_run c).

  Definition flip_ev (e : ev) : ev :=
    mkEv (ev_line e) (ev_offered e) (ev_evaluated e) (ev_vote e) (ev_offered e && negb (ev_returned e)) (ev_lastblank e).

  Lemma consider_cwnm c s l :
    fst (consider (with_cwnm c true) s l) = fst (consider (with_cwnm c false) s l) /\
    snd (consider (with_cwnm c true) s l) = flip_ev (snd (consider (with_cwnm c false) s l)).
  Proof.
    unfold consider. cbn [with_cwnm end_line scanner q_scan cwnm].
    destruct (oeqb (end_line c) (pln X s) && is_nil l).
    - destruct (m (set_frozen X s) l). cbn. auto.
    - destruct (is_nil l); [cbn; auto|].
      destruct (includes (scanner c) (pln X s)); [|cbn; auto].
      match goal with |- context [if ?b then (_, false, false) else _] => destruct b end.
      + cbn. destruct (is_last _ _ _ _); cbn; auto.
      + match goal with |- context [m ?ss l] => destruct (m ss l) as [s2 v] end.
        destruct v; destruct (is_last _ _ _ _); cbn; auto.
  Qed.

  Definition flip_related (a b : ls) : Prop :=     (* a: no-matches mode, b: default mode *)
    st C X a = st C X b /\ trace C X a = map flip_ev (trace C X b) /\
    halted C X a = halted C X b /\ finalized C X a = finalized C X b /\
    budget C X a = None /\ budget C X b = None.

  Lemma step_cwnm c (a b : ls) nl : flip_related a b ->
    flip_related (step (with_cwnm c true) a nl) (step (with_cwnm c false) b nl).
  Proof.
    intros (Hs & Ht & Hh & Hf & Hba & Hbb). unfold step. rewrite Hh.
    destruct (halted C X b) eqn:Eh; [unfold flip_related; repeat split; auto; congruence|].
    destruct nl as [n l]. rewrite Hs.
    pose proof (consider_cwnm c (track X (st C X b) n) l) as (H1 & H2).
    destruct (consider (with_cwnm c true) (track X (st C X b) n) l) as [s1 e1].
    destruct (consider (with_cwnm c false) (track X (st C X b) n) l) as [s2 e2].
    cbn [fst snd] in H1, H2. subst s1 e1. rewrite Hba, Hbb, Ht.
    destruct (ev_returned (flip_ev e2)); destruct (ev_returned e2); cbn;
      destruct (stopped X s2); unfold flip_related; cbn; rewrite ?map_app; repeat split; auto.
  Qed.

  Theorem return_mode_complement c s0 recs :
    let a := run_from (with_cwnm c true) s0 None recs in
    let b := run_from (with_cwnm c false) s0 None recs in
    st C X a = st C X b /\ trace C X a = map flip_ev (trace C X b).
  Proof.
    cbn zeta. unfold run_from. cbn [will_run with_cwnm].
    assert (H0: flip_related (mkLs C X s0 [] [] [] false false None) (mkLs C X s0 [] [] [] false false None))
      by (unfold flip_related; cbn; repeat split; auto).
    assert (Hfin: forall a b, flip_related a b -> flip_related (finish C X a) (finish C X b)).
    { intros a b (Hs & Ht & Hh & Hf & Hba & Hbb). unfold finish. rewrite Hh.
      destruct (halted C X b) eqn:Eh; unfold flip_related; cbn; rewrite ?Hs; repeat split; auto; congruence. }
    assert (Hfold: forall l a b, flip_related a b ->
               flip_related (fold_left (step (with_cwnm c true)) l a) (fold_left (step (with_cwnm c false)) l b)).
    { induction l as [|nl l IH]; intros a b H; [exact H|]. cbn [fold_left]. apply IH. apply step_cwnm. exact H. }
    destruct (will_run c).
    - destruct (Hfin _ _ (Hfold (number 0 recs) _ _ H0)) as (Hs & Ht & _). auto.
    - destruct (Hfin _ _ H0) as (Hs & Ht & _). auto.
  Qed.

  (** In the default return mode a record is returned iff it was offered and the matcher voted for it. *)
  Lemma consider_default_returned c s l : cwnm c = false ->
    let e := snd (consider c s l) in ev_returned e = ev_offered e && ev_vote e.
  Proof.
    intros Hc. unfold consider. rewrite Hc.
    destruct (oeqb (end_line c) (pln X s) && is_nil l).
    - destruct (m (set_frozen X s) l). reflexivity.
    - destruct (is_nil l); [reflexivity|].
      destruct (includes (scanner c) (pln X s)); [|reflexivity].
      match goal with |- context [if ?b then (_, false, false) else _] => destruct b end.
      + cbn. reflexivity.
      + match goal with |- context [m ?ss l] => destruct (m ss l) as [s2 v] end.
        destruct v; reflexivity.
  Qed.

  Lemma fold_default_returned c : cwnm c = false -> forall (recs : list line) n (a : ls),
    Forall (fun e => ev_returned e = ev_offered e && ev_vote e) (trace C X a) ->
    Forall (fun e => ev_returned e = ev_offered e && ev_vote e) (trace C X (fold_left (step c) (number n recs) a)).
  Proof.
    intros Hc. induction recs as [|l recs IH]; intros n a H; [exact H|].
    cbn [number fold_left]. apply IH.
    destruct (halted C X a) eqn:Hh.
    - unfold step. rewrite Hh. exact H.
    - destruct (step_spec c a n l Hh) as (Ht & _). rewrite Ht. apply Forall_app. split; [exact H|].
      constructor; [|constructor]. apply consider_default_returned. exact Hc.
  Qed.
End RunFacts.
