(** A run is a fold of the per-line semantics over exactly the scanned lines.
    For every matcher that does not stop, advance or touch the scan counter (quiet), and that leaves
    the state alone on the frozen evaluation of a blank final record: what the match part owns and
    the two counters, after collect()/next()/fast_forward() over any file, are the left fold of
    "offer this line to the match part" over the records the scan part denotes (C02's set), in file
    order — blank records, records outside the scan, the loop's halting and finalisation leave no
    trace in them. *)
From Coq Require Import ZArith List Bool Lia.
From V Require Import Scan.ScanModel Scan.ScanSpec Scan.ScanProofs Run.RunLoop Run.RunProofs.
Import ListNotations.
Open Scope Z_scope.

Section RunFold.
  Variable C X : Type.
  Variable m : rs X -> line C -> rs X * bool.

  (** offering line [n] with cells [l] to the match part: what _consider_line does around matches() *)
  Definition line_step (s : rs X) (nl : Z * line C) : rs X :=
    let s1 := mkRs X (fst nl) (scan_count X s + 1) (match_count X s) (match_count X s) 0 false false (x X s) in
    let '(s2, v) := m s1 (snd nl) in
    if v then raise_match_count_if X s2 else s2.

  (** the part of the state the fold determines *)
  Definition core (s : rs X) : X * Z * Z := (x X s, scan_count X s, match_count X s).

  Variable sh : shape.
  Variable c : cfg.
  Variable E : Z.
  Hypothesis Hwf : wf sh.
  Hypothesis Hparse : parse false (ast_of sh) = Some (scanner c).
  Hypothesis Hq_scan : q_scan c = false.
  Hypothesis Hend : end_line c = Some E.
  Hypothesis Hquiet : quiet C X m.
  Hypothesis Hfrozen : forall s, oeqb (end_line c) (pln X s) = true -> core (fst (m (set_frozen X s) [])) = core s.
  Hypothesis Hkeepfrozen : forall s l, frozen X (fst (m s l)) = frozen X s.

  (** the loop state before a record, and the fold state, agree *)
  Definition agree (a : rs X) (f : rs X) : Prop :=
    core a = core f /\ adv X a = 0 /\ stopped X a = false /\ frozen X a = false.

  Lemma raise_core s t : x X s = x X t -> scan_count X s = scan_count X t -> match_count X s = match_count X t -> cur_mc X s = cur_mc X t ->
    core (raise_match_count_if X s) = core (raise_match_count_if X t).
  Proof. intros H1 H2 H3 H4. unfold raise_match_count_if, core. rewrite H3, H4. destruct (cur_mc X t =? match_count X t); cbn; rewrite ?H1, ?H2, ?H3; reflexivity. Qed.

  (** one record *)
  Lemma consider_fold a f n l : agree a f ->
    let r := consider C X m c (track X a n) l in
    (want C sh (n, l) = true -> core (fst r) = core (line_step f (n, l)) /\ adv X (fst r) = 0 /\ frozen X (fst r) = frozen X (fst (m (mkRs X n (scan_count X f + 1) (match_count X f) (match_count X f) 0 false false (x X f)) l))) /\
    (want C sh (n, l) = false -> core (fst r) = core f /\ adv X (fst r) = 0 /\ stopped X (fst r) = false /\
                                 (oeqb (end_line c) n && is_nil l = false -> frozen X (fst r) = false)).
  Proof.
    intros (Hc & Ha & Hs & Hf). cbn zeta. unfold consider, want, nonblank. cbn [fst snd track pln].
    unfold core in Hc. injection Hc as Hx Hsc Hmc.
    destruct (oeqb (end_line c) n && is_nil l) eqn:E1.
    - apply andb_prop in E1. destruct E1 as [E0 E1]. rewrite E1. rewrite andb_false_r.
      split; [discriminate|]. intros _.
      destruct l as [|c0 l0]; [|discriminate].
      pose proof (Hfrozen (track X a n) E0) as HF.
      pose proof (Hquiet (set_frozen X (track X a n)) []) as (Q1 & Q2 & Q3).
      destruct (m (set_frozen X (track X a n)) []) as [s2 v]. cbn [fst] in *. cbn in Q1, Q2.
      split; [rewrite HF; unfold core; cbn; rewrite Hx, Hsc, Hmc; reflexivity|].
      split; [rewrite Q2; exact Ha|]. split; [rewrite Q1; exact Hs|]. discriminate.
    - destruct (is_nil l) eqn:E2.
      + rewrite andb_false_r. split; [discriminate|]. intros _. cbn [fst].
        split; [unfold core; cbn; rewrite Hx, Hsc, Hmc; reflexivity|]. cbn. repeat split; auto.
      + cbn [negb]. rewrite andb_true_r. rewrite <- (includes_is_denotes sh c Hwf Hparse n).
        destruct (includes (scanner c) n) eqn:E3.
        * split; [|discriminate]. intros _. cbn [adv track]. rewrite Ha. cbn [Z.ltb Z.compare].
          cbn [scan_count match_count stopped frozen x track].
          unfold line_step. cbn [fst snd].
          rewrite ?Hs, ?Hf, ?Ha, ?Hx, ?Hsc, ?Hmc.
          set (s1 := mkRs X n (scan_count X f + 1) (match_count X f) (match_count X f) 0 false false (x X f)).
          pose proof (Hquiet s1 l) as (Q1 & Q2 & Q3).
          destruct (m s1 l) as [s2 v]. cbn [fst] in *.
          destruct (is_last (q_scan c) (scanner c) (end_line c) n); destruct v; cbn [fst];
            unfold raise_match_count_if, set_stopped, core; cbn;
            repeat match goal with |- context [if ?b then _ else _] => destruct b end; cbn; repeat split; try reflexivity; try exact Q2.
        * split; [discriminate|]. intros _. cbn [fst].
          split; [unfold core; cbn; rewrite Hx, Hsc, Hmc; reflexivity|]. cbn. repeat split; auto.
  Qed.

  Lemma step_core (a : ls C X) n l : halted C X a = false -> budget C X a = None ->
    let s' := fst (consider C X m c (track X (st C X a) n) l) in
    let a' := step C X m c a (n, l) in
    core (st C X a') = core s' /\ adv X (st C X a') = adv X s' /\ stopped X (st C X a') = stopped X s' /\
    halted C X a' = stopped X s' /\ budget C X a' = None /\ (stopped X s' = false -> frozen X (st C X a') = frozen X s').
  Proof.
    intros Hh Hb. cbn zeta. unfold step. rewrite Hh, Hb.
    destruct (consider C X m c (track X (st C X a) n) l) as [s' e]. cbn [fst].
    destruct (ev_returned e); cbn; destruct (stopped X s') eqn:Es; cbn; repeat split; auto; discriminate.
  Qed.

  Lemma fold_core : forall (recs : list (line C)) n (a : ls C X) f,
    n + Z.of_nat (length recs) - 1 = E -> halted C X a = false -> budget C X a = None -> agree (st C X a) f ->
    core (st C X (fold_left (step C X m c) (number n recs) a)) = core (fold_left line_step (filter (want C sh) (number n recs)) f).
  Proof.
    induction recs as [|l recs IH]; intros n a f Hlen Hh Hb Hag.
    - cbn. destruct Hag as [Hc _]. exact Hc.
    - cbn [number fold_left filter].
      pose proof (consider_fold (st C X a) f n l Hag) as [Hw Hnw]. cbn zeta in Hw, Hnw.
      pose proof (step_core a n l Hh Hb) as (S1 & S2 & S3 & S4 & S5 & S6). cbn zeta in S1, S2, S3, S4, S5, S6.
      destruct Hag as (Hc & Ha & Hs & Hf).
      pose proof (consider_quiet C X m c (track X (st C X a) n) l Hquiet) as Hq.
      cbn [adv stopped track] in Hq. specialize (Hq Ha Hs). cbn zeta in Hq. destruct Hq as (_ & _ & _ & _ & Hstop).
      set (s' := fst (consider C X m c (track X (st C X a) n) l)) in *.
      set (a' := step C X m c a (n, l)) in *.
      cbn [length] in Hlen.
      destruct (want C sh (n, l)) eqn:Ew.
      + destruct (Hw eq_refl) as (W1 & W2 & W3). cbn [fold_left].
        destruct (stopped X s') eqn:Es.
        * rewrite (fold_halted C X m c _ a' S4).
          destruct (Hstop eq_refl) as (_ & Hlast). rewrite Hq_scan, Hend in Hlast.
          rewrite (rest_not_wanted C sh c E Hwf Hparse n Hlast recs (n + 1)); [|lia|lia].
          cbn [fold_left]. rewrite S1. exact W1.
        * apply IH; [lia|rewrite S4; reflexivity|exact S5|].
          split; [rewrite S1; exact W1|]. split; [rewrite S2; exact W2|]. split; [rewrite S3; reflexivity|].
          rewrite (S6 eq_refl), W3. rewrite Hkeepfrozen. reflexivity.
      + destruct (Hnw eq_refl) as (N1 & N2 & N3 & N4).
        destruct (oeqb (end_line c) n && is_nil l) eqn:Eb.
        * (* the blank final record: nothing follows *)
          assert (Hn: n = E).
          { apply andb_prop in Eb. destruct Eb as [Eb _]. rewrite Hend in Eb. cbn in Eb. apply Z.eqb_eq in Eb. lia. }
          assert (recs = []) by (destruct recs; [reflexivity|cbn [length] in Hlen; lia]). subst recs.
          cbn. rewrite S1. exact N1.
        * apply IH; [lia|rewrite S4; exact N3|exact S5|].
          split; [rewrite S1; exact N1|]. split; [rewrite S2; exact N2|]. split; [rewrite S3; exact N3|].
          rewrite (S6 N3). apply N4. reflexivity.
  Qed.

  (** the run *)
  Theorem run_is_fold (recs : list (line C)) (x0 : X) :
    end_of C recs = Some E -> will_run c = true ->
    core (st C X (run_from C X m c (rs0 X x0) None recs)) = core (fold_left line_step (filter (want C sh) (number 0 recs)) (rs0 X x0)).
  Proof.
    intros He Hw. unfold run_from. rewrite Hw.
    assert (Hlen: 0 + Z.of_nat (length recs) - 1 = E).
    { unfold end_of in He. destruct recs as [|l0 recs0]; [discriminate|].
      assert (He2: Z.of_nat (length (l0 :: recs0)) - 1 = E) by congruence. lia. }
    pose proof (fold_core recs 0 (mkLs C X (rs0 X x0) [] [] [] false false None) (rs0 X x0) Hlen eq_refl eq_refl) as H.
    rewrite <- H; [|repeat split; reflexivity].
    unfold finish. destruct (halted C X _); reflexivity.
  Qed.

  (** * the lines returned *)
  (** the vote the match part casts on line [nl] when the fold has reached state [s] *)
  Definition vote_at (s : rs X) (nl : Z * line C) : bool :=
    snd (m (mkRs X (fst nl) (scan_count X s + 1) (match_count X s) (match_count X s) 0 false false (x X s)) (snd nl)).
  (** default return mode: the lines voted for; return-mode no-matches: the others *)
  Definition ret_step (sa : rs X * list (line C)) (nl : Z * line C) : rs X * list (line C) :=
    (line_step (fst sa) nl, if xorb (vote_at (fst sa) nl) (cwnm c) then snd sa ++ [snd nl] else snd sa).

  Lemma consider_ret a f n l : agree a f ->
    ev_returned (snd (consider C X m c (track X a n) l)) = if want C sh (n, l) then xorb (vote_at f (n, l)) (cwnm c) else false.
  Proof.
    intros (Hc & Ha & Hs & Hf). unfold consider, want, nonblank, vote_at. cbn [fst snd track pln].
    unfold core in Hc. injection Hc as Hx Hsc Hmc.
    destruct (oeqb (end_line c) n && is_nil l) eqn:E1.
    - apply andb_prop in E1. destruct E1 as [_ E1]. rewrite E1. rewrite andb_false_r.
      destruct (m (set_frozen X (track X a n)) l). reflexivity.
    - destruct (is_nil l) eqn:E2; [rewrite andb_false_r; reflexivity|].
      cbn [negb]. rewrite andb_true_r. rewrite <- (includes_is_denotes sh c Hwf Hparse n).
      destruct (includes (scanner c) n) eqn:E3; [|reflexivity].
      cbn [adv track]. rewrite Ha. cbn [Z.ltb Z.compare]. cbn [scan_count match_count stopped frozen x track].
      rewrite ?Hs, ?Hf, ?Ha, ?Hx, ?Hsc, ?Hmc.
      destruct (m (mkRs X n (scan_count X f + 1) (match_count X f) (match_count X f) 0 false false (x X f)) l) as [s2 v]. cbn [snd].
      destruct (is_last (q_scan c) (scanner c) (end_line c) n); destruct v; cbn [snd ev_returned]; destruct (cwnm c); reflexivity.
  Qed.

  Lemma step_returned (a : ls C X) n l : halted C X a = false -> budget C X a = None ->
    returned C X (step C X m c a (n, l)) =
      if ev_returned (snd (consider C X m c (track X (st C X a) n) l)) then returned C X a ++ [l] else returned C X a.
  Proof.
    intros Hh Hb. unfold step. rewrite Hh, Hb.
    destruct (consider C X m c (track X (st C X a) n) l) as [s' e]. cbn [snd].
    destruct (ev_returned e); cbn; destruct (stopped X s'); reflexivity.
  Qed.

  Lemma fold_core_ret : forall (recs : list (line C)) n (a : ls C X) f,
    n + Z.of_nat (length recs) - 1 = E -> halted C X a = false -> budget C X a = None -> agree (st C X a) f ->
    let r := fold_left (step C X m c) (number n recs) a in
    let F := fold_left ret_step (filter (want C sh) (number n recs)) (f, returned C X a) in
    core (st C X r) = core (fst F) /\ returned C X r = snd F.
  Proof.
    induction recs as [|l recs IH]; intros n a f Hlen Hh Hb Hag.
    - cbn. destruct Hag as [Hc _]. split; [exact Hc|reflexivity].
    - cbn [number fold_left filter]. cbn zeta.
      pose proof (consider_fold (st C X a) f n l Hag) as [Hw Hnw]. cbn zeta in Hw, Hnw.
      pose proof (consider_ret (st C X a) f n l Hag) as Hret.
      pose proof (step_returned a n l Hh Hb) as Hsr. rewrite Hret in Hsr.
      pose proof (step_core a n l Hh Hb) as (S1 & S2 & S3 & S4 & S5 & S6). cbn zeta in S1, S2, S3, S4, S5, S6.
      destruct Hag as (Hc & Ha & Hs & Hf).
      pose proof (consider_quiet C X m c (track X (st C X a) n) l Hquiet) as Hq.
      cbn [adv stopped track] in Hq. specialize (Hq Ha Hs). cbn zeta in Hq. destruct Hq as (_ & _ & _ & _ & Hstop).
      set (s' := fst (consider C X m c (track X (st C X a) n) l)) in *.
      set (a' := step C X m c a (n, l)) in *.
      cbn [length] in Hlen.
      destruct (want C sh (n, l)) eqn:Ew.
      + destruct (Hw eq_refl) as (W1 & W2 & W3). cbn [fold_left].
        assert (Hrs: ret_step (f, returned C X a) (n, l) = (line_step f (n, l), returned C X a')).
        { unfold ret_step. cbn [fst snd]. rewrite Hsr. reflexivity. }
        rewrite Hrs.
        destruct (stopped X s') eqn:Es.
        * rewrite (fold_halted C X m c _ a' S4).
          destruct (Hstop eq_refl) as (_ & Hlast). rewrite Hq_scan, Hend in Hlast.
          rewrite (rest_not_wanted C sh c E Hwf Hparse n Hlast recs (n + 1)); [|lia|lia].
          cbn [fold_left fst snd]. split; [rewrite S1; exact W1|reflexivity].
        * apply IH; [lia|rewrite S4; reflexivity|exact S5|].
          split; [rewrite S1; exact W1|]. split; [rewrite S2; exact W2|]. split; [rewrite S3; reflexivity|].
          rewrite (S6 eq_refl), W3. rewrite Hkeepfrozen. reflexivity.
      + destruct (Hnw eq_refl) as (N1 & N2 & N3 & N4).
        assert (Hra: returned C X a' = returned C X a) by exact Hsr.
        destruct (oeqb (end_line c) n && is_nil l) eqn:Eb.
        * assert (Hn: n = E).
          { apply andb_prop in Eb. destruct Eb as [Eb _]. rewrite Hend in Eb. cbn in Eb. apply Z.eqb_eq in Eb. lia. }
          assert (recs = []) by (destruct recs; [reflexivity|cbn [length] in Hlen; lia]). subst recs.
          cbn. split; [rewrite S1; exact N1|exact Hra].
        * rewrite <- Hra. apply IH; [lia|rewrite S4; exact N3|exact S5|].
          split; [rewrite S1; exact N1|]. split; [rewrite S2; exact N2|]. split; [rewrite S3; exact N3|].
          rewrite (S6 N3). apply N4. reflexivity.
  Qed.

  (** the run: state, counters and the lines returned *)
  Theorem run_returns_fold (recs : list (line C)) (x0 : X) :
    end_of C recs = Some E -> will_run c = true ->
    let r := run_from C X m c (rs0 X x0) None recs in
    let F := fold_left ret_step (filter (want C sh) (number 0 recs)) (rs0 X x0, []) in
    core (st C X r) = core (fst F) /\ returned C X r = snd F.
  Proof.
    intros He Hw. cbn zeta. unfold run_from. rewrite Hw.
    assert (Hlen: 0 + Z.of_nat (length recs) - 1 = E).
    { unfold end_of in He. destruct recs as [|l0 recs0]; [discriminate|].
      assert (He2: Z.of_nat (length (l0 :: recs0)) - 1 = E) by congruence. lia. }
    pose proof (fold_core_ret recs 0 (mkLs C X (rs0 X x0) [] [] [] false false None) (rs0 X x0) Hlen eq_refl eq_refl) as H.
    cbn zeta in H. destruct H as [H1 H2]; [repeat split; reflexivity|].
    cbn [returned] in H1, H2. rewrite <- H1, <- H2.
    unfold finish. destruct (halted C X _); split; reflexivity.
  Qed.
End RunFold.
