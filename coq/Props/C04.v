(** Property C04 — the validity verdict is False exactly when the csvpath failed the file.
    Statements only; proofs in Match/Validity.v, Match/ErrorsProofs.v, Mgr/Aggregate.v. *)
From Coq Require Import ZArith List Bool.
From V Require Import Scan.ScanModel Run.RunLoop Match.Adjudicate Match.AdjProofs Match.Ctl Match.CtlProofs Match.Validity
  Match.Errors Match.ErrorsProofs Mgr.Aggregate.
From V Require Scan.PySem Match.ErrEv Match.ErrSrc Match.ErrSrcEq Mgr.AggSrc Mgr.AggSrcEq.
Import ListNotations.
Open Scope Z_scope.

(** Transport, for EVERY matcher: a reflexive-transitive relation on the match part's state that
    every call of the matcher respects is respected by the whole run (the run loop itself never
    touches that state).  Instantiated below with "fails only grow and valid = valid && no new fail". *)
Theorem C04_run_transport : forall (C X : Type) (m : rs X -> line C -> rs X * bool) (R : X -> X -> Prop),
  (forall a, R a a) -> (forall a b c, R a b -> R b c -> R a c) -> (forall s l, R (x X s) (x X (fst (m s l)))) ->
  forall c s0 bud recs, R (x X s0) (x X (st C X (run_from C X m c s0 bud recs))).
Proof. exact run_rel. Qed.
Print Assumptions C04_run_transport.

(** the same for one line, for EVERY component evaluator *)
Theorem C04_line_transport : forall (S comp : Type) stp skp clear_skip (eval : comp -> S -> S * bool) clear_errors (R : S -> S -> Prop),
  (forall a, R a a) -> (forall a b c, R a b -> R b c -> R a c) -> (forall c s, R s (fst (eval c s))) ->
  (forall s, R s (clear_skip s)) -> (forall s, R s (clear_errors s)) ->
  forall q AND cs s f, R s (fst (fst (adj S comp stp skp clear_skip eval clear_errors q AND cs s f))).
Proof. exact adj_rel. Qed.
Print Assumptions C04_line_transport.

(** the verdict of the fragment never returns to True, line after line and component after component *)
Theorem C04_monotone : forall c q cs s l, valid (x mx s) = false -> valid (x mx (fst (ctl_m c q cs s l))) = false.
Proof. intros c q cs s l H. exact (vrel_monotone _ _ (ctl_m_rel c q cs s l) H). Qed.
Print Assumptions C04_monotone.

(** after a whole run (any program of the fragment, any scan part, any file) is_valid is False
    exactly when a fail() / fail_and_stop() was executed on some line *)
Theorem C04_exact : forall q cw sc0 cs blanks,
  let o := ctl_run q cw sc0 cs blanks in
  valid (x mx (st Z mx o)) = match fails (x mx (st Z mx o)) with [] => true | _ => false end.
Proof. exact ctl_run_verdict. Qed.
Print Assumptions C04_exact.

(** a fail() that is not executed does not fail: right of '->' whose left is false ... *)
Theorem C04_not_executed_when : forall c cd nc a s, eval_cond c cd s = false -> eval c (CWhen cd nc a) s = (s, nc).
Proof. exact when_false_no_effect. Qed.
Print Assumptions C04_not_executed_when.
(** ... and components after a fired stop()/skip() are not evaluated at all: C13_stop_line, C13_skip_line. *)

(** failed()/valid() report the verdict as of their position in the line *)
Theorem C04_per_line : forall c s, frozen mx s = false ->
  eval c (CCond IsValid) s = (s, valid (x mx s)) /\ eval c (CCond IsFailed) s = (s, negb (valid (x mx s))) /\
  eval c (CCond IsValid) (fst (eval c (CAct AFail) s)) = (fst (eval c (CAct AFail) s), false).
Proof. intros c s H. cbn. rewrite H. auto. Qed.
Print Assumptions C04_per_line.

(** an error handled under a policy (or validation-mode) with 'fail' turns the verdict False, and only then *)
Theorem C04_error_fail : forall p v s line s',
  (handle false p v s line = Done s' \/ handle false p v s line = Raised s') ->
  h_valid s' = h_valid s && negb (flag (v_fail v) (p_fail p)).
Proof.
  intros p v s line s' H. rewrite handle_outcome in H.
  destruct (flag (v_raise v) (p_raise p)); destruct H as [H|H]; inversion H; reflexivity.
Qed.
Print Assumptions C04_error_fail.

(** ... and so does the source: the effects ErrorHandler._handle_if performs (translated from csvpath/util/error.py, Match/ErrSrc.v)
    leave the verdict False exactly when 'fail' is in force *)
Theorem C04_error_fail_source : forall l v s line s',
  (ErrSrcEq.apply_evs (ErrSrc.handle_if_src ErrSrcEq.obj ErrSrcEq.obj (PySem.PList l) (ErrSrcEq.ovv (v_raise v)) (ErrSrcEq.ovv (v_print v))
     (ErrSrcEq.ovv (v_stop v)) (ErrSrcEq.ovv (v_fail v))) s line = Done s' \/
   ErrSrcEq.apply_evs (ErrSrc.handle_if_src ErrSrcEq.obj ErrSrcEq.obj (PySem.PList l) (ErrSrcEq.ovv (v_raise v)) (ErrSrcEq.ovv (v_print v))
     (ErrSrcEq.ovv (v_stop v)) (ErrSrcEq.ovv (v_fail v))) s line = Raised s') ->
  h_valid s' = h_valid s && negb (flag (v_fail v) (existsb (Z.eqb 3) l)).
Proof. intros l v s line s'. rewrite ErrSrcEq.handle_if_src_eq. apply (C04_error_fail (ErrSrcEq.pol_of l)). Qed.
Print Assumptions C04_error_fail_source.

(** aggregation: for members that read at least one record, ResultsManager.is_valid and the run
    manifest's all_valid are both the conjunction of the members' verdicts (partial: see D12) *)
Theorem C04_aggregate_partial : forall ms, forallb m_started ms = true ->
  results_manager_is_valid ms = manifest_all_valid ms /\ manifest_all_valid ms = forallb m_valid ms.
Proof. intros ms H. split; [apply aggregate_agree; exact H|reflexivity]. Qed.
Print Assumptions C04_aggregate_partial.

(** the source itself: ResultsManager.is_valid (the loop over the Results' is_valid property) and ResultsRegistrar.all_valid (the loop over the
    csvpaths' verdicts), as translated from csvpath/managers/results/*.py (Mgr/AggSrc.v, regenerated on every run), are the model's two
    aggregates for every list of members — hence, for members that read at least one record, both are the conjunction of the members' verdicts *)
Theorem C04_aggregate_source : forall ms,
  AggSrc.rm_is_valid_src (map AggSrcEq.member_src ms) = PySem.PBool (results_manager_is_valid ms) /\
  AggSrc.all_valid_src (map (fun m => PySem.PBool (m_valid m)) ms) = PySem.PBool (manifest_all_valid ms).
Proof. intros ms. split; [apply AggSrcEq.rm_is_valid_src_eq|apply AggSrcEq.all_valid_src_eq]. Qed.
Print Assumptions C04_aggregate_source.
Theorem C04_aggregate_source_conjunction : forall ms, forallb m_started ms = true ->
  AggSrc.rm_is_valid_src (map AggSrcEq.member_src ms) = PySem.PBool (forallb m_valid ms) /\
  AggSrc.all_valid_src (map (fun m => PySem.PBool (m_valid m)) ms) = PySem.PBool (forallb m_valid ms).
Proof.
  intros ms H. rewrite AggSrcEq.rm_is_valid_src_eq, AggSrcEq.all_valid_src_eq, (aggregate_agree ms H). split; reflexivity.
Qed.
Print Assumptions C04_aggregate_source_conjunction.

(** D12, open finding: a member that read no record *)
Theorem C04_aggregate_unstarted_refuted :
  results_manager_is_valid [mkMember false true] = false /\ manifest_all_valid [mkMember false true] = true.
Proof. exact aggregate_unstarted_refuted. Qed.
Print Assumptions C04_aggregate_unstarted_refuted.

Example C04_nonvacuous :
  let prog := [CAct (APush 1); CWhen (EqLine 2) false AFail; CWhen IsFailed true (APush 2)] in
  let o := ctl_run false false (mkSc [] None None true) prog [false; false; false; false] in
  valid (x mx (st Z mx o)) = false /\ fails (x mx (st Z mx o)) = [2] /\
  log (x mx (st Z mx o)) = [(1, 0); (1, 1); (1, 2); (2, 2); (1, 3); (2, 3)] /\ returned Z mx o = [[2]].
Proof. vm_compute. repeat split. Qed.
