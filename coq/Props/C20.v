(** Property C20 — data and values flow between csvpaths as declared.
    Statements only; proofs in Mgr/ChainProofs.v (using the csv round trip for data.csv). *)
From Coq Require Import ZArith List Bool.
From V Require Import Csv.CsvModel Csv.CsvProofs Data.DataModel Mgr.Archive Mgr.Chain Mgr.ChainProofs.
Import ListNotations.
Open Scope Z_scope.

(** For ANY stages (functions from the records read to the lines collected), any chain length and
    any placement of source-mode: preceding: a member with preceding reads exactly the lines its
    predecessor collected — through the predecessor's data.csv and the reader, whatever the cell
    text (no CR) — so the chain is the composition of its stages.  (Stages collect at least one
    line; the other case is open finding D14.) *)
Theorem C20_chain : forall orig ss, no_cr orig -> Forall well_behaved ss ->
  chain orig ss = Collected (compose_from orig None ss).
Proof. exact chain_composes. Qed.
Print Assumptions C20_chain.

Theorem C20_reads_predecessor_data : forall c, no_cr c -> c <> [] -> option_map (read_file std) (data_csv c) = Some c.
Proof. exact read_data_csv. Qed.
Print Assumptions C20_reads_predecessor_data.

(** D14: a stage that collects no line leaves no data.csv and its preceding successor fails *)
Theorem C20_empty_stage_refuted :
  chain [[[49]]] [mkStage false (fun _ => []); mkStage true (fun i => i)] = NoDataFile [[]].
Proof. exact empty_stage_refuted. Qed.
Print Assumptions C20_empty_stage_refuted.

(** a variable reference evaluates to the value the named group's most recent run left (on a name
    clash between members the earliest member's), and runs of other groups do not disturb it *)
Theorem C20_var_ref : forall (V : Type) keq g v ms st,
  var_ref V keq g v (record_run V g ms st) = get_variable V keq v ms.
Proof. exact var_ref_latest. Qed.
Print Assumptions C20_var_ref.
Theorem C20_var_ref_frame : forall (V : Type) keq g g' v ms st, g <> g' ->
  var_ref V keq g v (record_run V g' ms st) = var_ref V keq g v st.
Proof. exact var_ref_other_group. Qed.
Print Assumptions C20_var_ref_frame.

(** a results reference used as a file name replays exactly the referenced member's collected lines (whatever the cell text,
    no CR), and a chain run over it is the chain over those lines: a source-mode: preceding member reads its predecessor's
    lines, not the referenced file again.  (A referenced member that collected nothing has no data.csv: D14b.) *)
Theorem C20_replay : forall c, no_cr c -> c <> [] -> replay_input c = Some c.
Proof. exact replay_is_collected. Qed.
Print Assumptions C20_replay.
Theorem C20_replay_chain : forall c ss, no_cr c -> c <> [] -> Forall well_behaved ss ->
  replay_chain c ss = Collected (compose_from c None ss).
Proof. exact replay_chain_composes. Qed.
Print Assumptions C20_replay_chain.
Theorem C20_replay_empty_refuted : replay_chain [] [mkStage false (fun i => i)] = NoDataFile [].
Proof. exact replay_empty_refuted. Qed.
Print Assumptions C20_replay_empty_refuted.

(** a header reference $name.headers.h is the column of h over the referenced member's collected lines: exactly the values #h
    reads on each of them (Header.to_value), lines too short for it left out, in file order; an unknown header gives no list *)
Theorem C20_header_ref : forall hs h collected vs, header_ref hs h collected = Some vs ->
  vs = somes (map (value_by_name hs h) collected) /\ (length vs <= length collected)%nat.
Proof. intros hs h collected vs H. split; [exact (header_ref_is_column hs h collected vs H)|exact (header_ref_length hs h collected vs H)]. Qed.
Print Assumptions C20_header_ref.
Theorem C20_header_ref_unknown : forall hs h collected, header_index h hs = None -> header_ref hs h collected = None.
Proof. exact header_ref_unknown. Qed.
Print Assumptions C20_header_ref_unknown.

Example C20_nonvacuous :
  (* stage 1 keeps records whose first cell is not "x"; stage 2 (preceding) drops its first record *)
  let s1 := mkStage false (filter (fun r => match r with [[120]] => false | _ => true end)) in
  let s2 := mkStage true (fun i => tl i) in
  chain [[[97]]; [[120]]; [[98; 44]]; [[99]]] [s1; s2] = Collected [[[[97]]; [[98; 44]]; [[99]]]; [[[98; 44]]; [[99]]]].
Proof. vm_compute. reflexivity. Qed.
