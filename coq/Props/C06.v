(** Property C06 — lines are delivered as they are in the file; headers are the first data line.
    Statements only; proofs in Csv/CsvProofs.v, Data/DataProofs.v, Run/RunYes.v. *)
From Coq Require Import ZArith List Bool.
From V Require Import Csv.CsvModel Csv.CsvProofs Data.DataModel Data.DataProofs Scan.ScanModel
  Run.RunLoop Run.RunFacts Run.RunYes Mgr.LinePass Mgr.LinePassProofs.
Import ListNotations.
Open Scope Z_scope.

(** Any dialect (delimiter <> quote char, neither CR nor LF), any rows whose cells contain no CR
    (any other code point: delimiters, quotes, LF, NUL, astral...), written by the modelled
    csv.writer and read back by the modelled open()+csv.reader: the same rows. *)
Theorem C06_csv_roundtrip : forall d rows, dialect_ok d -> no_cr rows ->
  read_file d (csv_write d rows) = rows.
Proof. exact csv_roundtrip. Qed.
Print Assumptions C06_csv_roundtrip.

(** [$file[*][yes()]] returns exactly the non-blank records, cell for cell, in file order
    (collect(), next(); with or without unmatched-mode keep). *)
Theorem C06_lines : forall (X : Type) d rows (x0 : X) coll unm, dialect_ok d -> no_cr rows ->
  let recs := read_file d (csv_write d rows) in
  returned ustring X (run_from ustring X (yes_m ustring X) (all_cfg (end_of ustring recs) coll unm) (rs0 X x0) None recs)
    = filter nonblank_row rows.
Proof. exact lines_delivered. Qed.
Print Assumptions C06_lines.

(** For every matcher, scan part and mode, what the run loop returns is a sub-sequence of the
    records of the file, each with exactly its cells. *)
Theorem C06_delivered_as_is : forall (X : Type) (m : rs X -> line ustring -> rs X * bool) d rows c s0,
  dialect_ok d -> no_cr rows ->
  exists flags, returned ustring X (run_from ustring X m c s0 None (read_file d (csv_write d rows))) = sel ustring flags rows.
Proof. exact any_matcher_delivers_records. Qed.
Print Assumptions C06_delivered_as_is.

(** The headers are the cleaned cells of the first non-blank record. *)
Theorem C06_headers : forall d rows, dialect_ok d -> no_cr rows ->
  headers_of (read_file d (csv_write d rows)) = map clean_header (raw_headers rows).
Proof. exact headers_roundtrip. Qed.
Print Assumptions C06_headers.

Theorem C06_clean_header : forall h,
  (forall c, In c (clean_header h) -> delim_like c = false) /\
  (match h with c :: _ => is_space c = false | [] => True end ->
   match rev h with c :: _ => is_space c = false | [] => True end ->
   Forall (fun c => delim_like c = false) h -> clean_header h = h).
Proof. intros h. split; [intros c; apply clean_header_no_delims | apply clean_header_id]. Qed.
Print Assumptions C06_clean_header.

(** #name and #index address the same cell: a name resolves to the first header equal to it. *)
Theorem C06_name_index : forall hs n i line, header_index n hs = Some i ->
  value_by_name hs n line = value_by_index i line /\
  exists h, nth_error hs i = Some h /\ ustr_eqb h n = true /\
    forall j h', (j < i)%nat -> nth_error hs j = Some h' -> ustr_eqb h' n = false.
Proof. intros. split; [apply name_is_index; assumption | apply header_index_first; assumption]. Qed.
Print Assumptions C06_name_index.

(** A header missing from a short row (or an unknown name) reads as absent; a present one is the cell, trimmed. *)
Theorem C06_short_row : forall i line hs n,
  ((length line <= i)%nat -> value_by_index i line = None) /\
  (forall cell, nth_error line i = Some cell -> value_by_index i line = Some (strip cell)) /\
  (header_index n hs = None -> value_by_name hs n line = None).
Proof. intros. split; [apply short_row_absent|split; [apply present_cell|apply unknown_name_absent]]. Qed.
Print Assumptions C06_short_row.

(** Only collect() narrows a line. *)
Theorem C06_only_collect_narrows : forall line, limit_collection [] line = Some line.
Proof. exact only_collect_narrows. Qed.
Print Assumptions C06_only_collect_narrows.

(** Non-vacuity: a hostile file meets the hypotheses and comes back. *)
Example C06_nonvacuous :
  let d := mkDialect 59 39 in    (* ';' and the single quote *)
  let rows := [[[32;97;59]; [39;98]]; []; [[10;44]; []; [128512]]; [[]]] in
  read_file d (csv_write d rows) = rows /\ headers_of rows = [[97]; [39;98]] /\
  value_by_name (headers_of rows) [97] [[120;32]; [121]] = Some [120].
Proof. vm_compute. repeat split. Qed.


(** In a breadth-first named-paths run every member collects, for every record, what it collects alone — whichever
    members rewrite or project their own line (replace, append, collect) and wherever they stand in the group; a member
    that rewrites nothing collects the record itself (Mgr/LinePass.v models the record hand-over of next_by_line). *)
Theorem C06_byline_members_alone : forall (cell : Type) (ms : list (rw cell)) (recs : list (list cell)),
  byline_collected cell false ms recs = map (fun rec => map (fun r => alone cell r rec) ms) recs.
Proof. exact byline_members_alone. Qed.
Print Assumptions C06_byline_members_alone.

Theorem C06_byline_readonly_member : forall (cell : Type) (ms : list (rw cell)) (recs : list (list cell)) k,
  nth_error ms k = Some (RwNone cell) ->
  map (fun per_rec => nth_error per_rec k) (byline_collected cell false ms recs) = map Some recs.
Proof. exact byline_readonly_member. Qed.
Print Assumptions C06_byline_readonly_member.

(** before the repair D28 (deviation switch q_share on) the member after collect(0) / replace(0, 9) got the rewritten line *)
Theorem C06_byline_shared_refuted :
  pass Z true [RwCollect0 Z; RwNone Z] [1; 2; 3] [1; 2; 3] = [[1]; [1]] /\
  pass Z true [RwReplace0 Z 9; RwNone Z] [1; 2; 3] [1; 2; 3] = [[9; 2; 3]; [9; 2; 3]] /\
  pass Z false [RwCollect0 Z; RwNone Z] [1; 2; 3] [1; 2; 3] = [[1]; [1; 2; 3]].
Proof. repeat split. Qed.
Print Assumptions C06_byline_shared_refuted.
