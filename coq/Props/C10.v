(** Property C10 — every run gets its own run directory and never touches an earlier run's results.
    Statements only; proofs in Mgr/RunDirsProofs.v. *)
From Coq Require Import ZArith List Bool.
From V Require Import Mgr.RunDirs Mgr.RunDirsProofs.
Import ListNotations.
Open Scope Z_scope.

(** get_run_dir never returns an existing directory — also within the same second, with any number
    of earlier runs (the ".N" search provably finds an unused name) — and keeps the run's stamp *)
Theorem C10_get_run_dir : forall st existing,
  dir_in (get_run_dir st existing) existing = false /\ d_stamp (get_run_dir st existing) = st.
Proof. intros. split; [apply get_run_dir_fresh|apply get_run_dir_stamp]. Qed.
Print Assumptions C10_get_run_dir.

(** Over ANY history of runs (any length; new or reused instance; any clock, including the same
    second; runs that aborted before), with the repaired bookkeeping: the directories chosen are
    pairwise distinct, each lies under its own named-paths name, and each has exactly one writer —
    so every file of every earlier run is left alone. *)
Theorem C10_fresh : forall q12 rs,
  let h := history q12 false rs in
  NoDup (h_chosen h) /\ map fst (h_chosen h) = map r_group rs /\
  map fst (dirs (h_world h)) = h_chosen h /\ Forall (fun e => length (snd e) = 1%nat) (dirs (h_world h)).
Proof. exact history_fresh. Qed.
Print Assumptions C10_fresh.

(** names written with the 24-hour clock order as the run times do *)
Theorem C10_order : forall t1 t2, time_lt t1 t2 = true ->
  lex_lt (sort_key (mkDir (stamp false t1) None)) (sort_key (mkDir (stamp false t2) None)) = true.
Proof. exact names_order. Qed.
Print Assumptions C10_order.

(** ':last' (':first') resolves to a directory with the prefix after (before) which no other such directory sorts *)
Theorem C10_last : forall prefix names d, find_in_dir_names prefix names true = Some d ->
  In d names /\ has_prefix prefix (d_stamp d) = true /\
  forall x, In x names -> has_prefix prefix (d_stamp x) = true -> lex_lt (sort_key d) (sort_key x) = false.
Proof. exact find_last_is_latest. Qed.
Print Assumptions C10_last.
Theorem C10_first : forall prefix names d, find_in_dir_names prefix names false = Some d ->
  In d names /\ has_prefix prefix (d_stamp d) = true /\
  forall x, In x names -> has_prefix prefix (d_stamp x) = true -> lex_lt (sort_key x) (sort_key d) = false.
Proof. exact find_first_is_earliest. Qed.
Print Assumptions C10_last.

(** D7 and D6 (both fixed in /repo): witnesses with the deviation switches on *)
Theorem C10_12h_refuted :
  let t1 := mkTime 2026 10 1 12 59 0 in let t2 := mkTime 2026 10 1 13 0 0 in
  time_lt t1 t2 = true /\
  lex_lt (sort_key (mkDir (stamp true t1) None)) (sort_key (mkDir (stamp true t2) None)) = false /\
  find_in_dir_names [2026; 10; 1] [mkDir (stamp true t1) None; mkDir (stamp true t2) None] true = Some (mkDir (stamp true t1) None).
Proof. exact twelve_hour_refuted. Qed.
Print Assumptions C10_12h_refuted.

Theorem C10_reuse_refuted :
  let t := mkTime 2026 10 1 8 0 0 in
  let rs := [mkRun 0 true t false; mkRun 1 false (mkTime 2026 10 1 8 0 5) false] in
  h_chosen (history false true rs) = [(0, mkDir (stamp false t) None); (0, mkDir (stamp false t) None)] /\
  map (fun e => length (snd e)) (dirs (h_world (history false true rs))) = [2%nat] /\
  map fst (h_chosen (history false false rs)) = [0; 1].
Proof. exact reuse_refuted. Qed.
Print Assumptions C10_reuse_refuted.

Example C10_nonvacuous :
  (* three runs in the same second, two of them of the same group on a reused instance *)
  let t := mkTime 2026 3 14 12 59 59 in
  h_chosen (history false false [mkRun 0 true t false; mkRun 0 false t false; mkRun 1 false t false; mkRun 0 true t true])
    = [(0, mkDir (stamp false t) None); (0, mkDir (stamp false t) (Some 0%nat)); (1, mkDir (stamp false t) None); (0, mkDir (stamp false t) (Some 1%nat))].
Proof. vm_compute. reflexivity. Qed.
