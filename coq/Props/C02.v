(** Property C02 — the scan part selects exactly the lines it denotes.
    Only statements here; proofs are in Scan/ScanProofs.v and Run/RunProofs.v. *)
From Coq Require Import ZArith List Bool.
From V Require Import Scan.ScanModel Scan.ScanSpec Scan.ScanProofs Run.RunLoop Run.RunProofs Scan.PySem Scan.ScanSrc Scan.ScanSrcEq.
Import ListNotations.
Open Scope Z_scope.

(** For every well-formed scan shape (any number of items, any bounds) the parsed
    scanner includes exactly the denoted lines. *)
Theorem C02_includes : forall sh l, wf sh ->
  exists s, parse false (ast_of sh) = Some s /\ includes s l = denotes sh l.
Proof. exact includes_denotes. Qed.
Print Assumptions C02_includes.

(** When is_last answers true (the run then stops) no later line of the file is denoted. *)
Theorem C02_is_last_sound : forall sh s e l l', wf sh -> parse false (ast_of sh) = Some s ->
  is_last false s e l = true -> l < l' -> (forall E, e = Some E -> l' <= E) ->
  denotes sh l' = false.
Proof. exact is_last_sound. Qed.
Print Assumptions C02_is_last_sound.

(** Run level, for every matcher that does not itself stop or advance the run, every file:
    the records offered to the match part are exactly the denoted non-blank records, in
    file order, and scan_count is their number. *)
Theorem C02_run : forall (C X : Type) (m : rs X -> line C -> rs X * bool) sh (c : cfg) E,
  wf sh -> parse false (ast_of sh) = Some (scanner c) -> q_scan c = false ->
  end_line c = Some E -> quiet C X m ->
  forall (recs : list (line C)) (x0 : X), end_of C recs = Some E -> will_run c = true ->
  let r := run_from C X m c (rs0 X x0) None recs in
  offered_lines (trace C X r) = map fst (filter (want C sh) (number 0 recs)) /\
  scan_count X (st C X r) = Z.of_nat (length (filter (want C sh) (number 0 recs))).
Proof. exact run_offered. Qed.
Print Assumptions C02_run.

(** Deviation D3 of the pinned tree (from_line/to_line tested by truthiness): with the switch on,
    [0-3+9] never offers line 9 and [3-0] stops after line 0. *)
Theorem C02_scan_zero_refuted :
  includes (parse_or_empty true (ast_of (Items (Rng 0 3) [One 9]))) 9 = false /\
  denotes (Items (Rng 0 3) [One 9]) 9 = true /\
  is_last true (parse_or_empty true (ast_of (Range 3 0))) (Some 9) 0 = true /\
  denotes (Range 3 0) 2 = true.
Proof. exact scan_zero_refuted. Qed.
Print Assumptions C02_scan_zero_refuted.

(** Non-vacuity: a concrete shape meets [wf], parses, and a concrete run meets the hypotheses. *)
Example C02_nonvacuous :
  wf (Items (Rng 1 3) [One 5; Rng 7 8]) /\
  (exists s, parse false (ast_of (Items (Rng 1 3) [One 5; Rng 7 8])) = Some s /\
             these s = [1; 2; 3; 5; 7; 8]) /\
  denotes (Items (Rng 1 3) [One 5; Rng 7 8]) 7 = true /\ denotes (Items (Rng 1 3) [One 5; Rng 7 8]) 6 = false.
Proof.
  split; [cbn; repeat split; apply Z.ltb_lt || apply Z.leb_le; reflexivity|].
  split; [eexists; split; vm_compute; reflexivity|]. split; reflexivity.
Qed.


(** Scanner.includes as it is WRITTEN in csvpath/scanning/scanner.py — translated by harness/py2v.py into Scan/ScanSrc.v, under Python's
    semantics for None, `and`, chained comparisons and `in` (Scan/PySem.v) — returns, for every scanner state and every line, exactly
    the model's answer and never raises.  With C02_includes: the source's includes() answers `denotes` for every well-formed scan.
    Re-checked against the source of the tree under test on every run (regenerated; re-proved when the text differs). *)
Theorem C02_includes_source : forall (s : sc) (line : Z) (e : pyv),
  includes_src (PInt line) (of_oz (from_line s)) (of_oz (to_line s)) (PBool (all_lines s)) (PList (these s)) e = PBool (includes s line).
Proof. exact includes_src_eq. Qed.
Print Assumptions C02_includes_source.

Corollary C02_source_denotes : forall sh l e, wf sh ->
  exists s, parse false (ast_of sh) = Some s /\
    includes_src (PInt l) (of_oz (from_line s)) (of_oz (to_line s)) (PBool (all_lines s)) (PList (these s)) e = PBool (denotes sh l).
Proof.
  intros sh l e H. destruct (includes_denotes sh l H) as (s & Hp & Hi). exists s. split; [exact Hp|].
  rewrite includes_src_eq, Hi. reflexivity.
Qed.
Print Assumptions C02_source_denotes.
