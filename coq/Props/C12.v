(** Property C12 — named-paths groups round-trip and select by identity.
    Statements only; proofs in Mgr/PathsStoreProofs.v. *)
From Coq Require Import ZArith List Bool.
From V Require Import Csv.CsvModel Data.DataModel Mgr.PathsStore Mgr.PathsStoreProofs.
Import ListNotations.
Open Scope Z_scope.

(** Any number of csvpaths, each non-blank and not containing the separator text (newlines,
    comments, any other characters allowed): what get_named_paths reads back from the stored group
    file is the same csvpaths, text equal up to surrounding whitespace, in the same order. *)
Theorem C12_roundtrip : forall ps, Forall (fun p => no_marker p = true) ps -> Forall (fun p => nonblank p = true) ps ->
  map strip (stored_paths (str_from_list ps)) = map strip ps.
Proof. exact roundtrip. Qed.
Print Assumptions C12_roundtrip.

(** the pieces str.split finds are exactly the wrapped members: no separator is found inside or across a member *)
Theorem C12_split : forall ps cur, Forall (fun p => no_marker p = true) ps ->
  split_go MARKER 0 cur (str_from_list ps) = pieces cur ps.
Proof. exact split_group. Qed.
Print Assumptions C12_split.

(** 'name#id' / '$name.csvpaths.id' return exactly the (first) member with that identity, ':to' the
    prefix ending at it, ':from' the suffix starting at it *)
Theorem C12_select : forall (I : Type) (ieqb : I -> I -> bool), (forall a b, ieqb a b = true <-> a = b) ->
  forall l1 id p l2, ~ In id (map fst l1) ->
    find_one I ieqb id (l1 ++ (id, p) :: l2) = Some p /\
    get_to I ieqb id (l1 ++ (id, p) :: l2) = map snd l1 ++ [p] /\
    get_from I ieqb id (l1 ++ (id, p) :: l2) = p :: map snd l2.
Proof. exact select. Qed.
Print Assumptions C12_select.

(** the manifest gains one entry, fingerprinting the stored group file, per change of content and none for an identical re-add *)
Theorem C12_manifest : forall sha man g,
  man_add sha (man_add sha man g) g = man_add sha man g /\
  man_add sha man g = match rev man with f :: _ => if f =? sha g then man else man ++ [sha g] | [] => man ++ [sha g] end.
Proof. intros. split; [apply manifest_identical_readd|reflexivity]. Qed.
Print Assumptions C12_manifest.

Example C12_nonvacuous :
  (* two csvpaths, the first with an outer comment, an inner comment and a newline *)
  let p1 := [126;105;100;58;32;97;126;10;36;91;42;93;91;126;120;126;32;121;101;115;40;41;93] in
  let p2 := [36;91;49;42;93;91;110;111;40;41;93;32] in
  no_marker p1 = true /\ nonblank p1 = true /\
  map strip (stored_paths (str_from_list [p1; p2])) = [p1; [36;91;49;42;93;91;110;111;40;41;93]] /\
  identity_of_path p1 = Some [97].
Proof. vm_compute. repeat split. Qed.
