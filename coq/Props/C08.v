(** Property C08 — a csvpath gives the same results alone, in a serial run and breadth-first.
    Statements only; proofs in Mgr/GroupProofs.v.  All statements are for EVERY list of members
    (any matchers, any scan parts and modes) that do not share state. *)
From Coq Require Import ZArith List Bool.
From V Require Import Scan.ScanModel Run.RunLoop Mgr.Group Mgr.GroupProofs.
Import ListNotations.
Open Scope Z_scope.

(** line-major evaluation gives every member exactly the run it has on its own (next_by_line does not
    call finalize(); finishing the member's loop state gives the standalone result); a member with
    run-mode: no-run takes no part in either schedule *)
Theorem C08_members : forall (C X : Type) agree (ms : list (member C X)) x0 recs,
  map (finish C X) (fst (byline C X agree ms x0 recs)) = serial C X ms x0 recs.
Proof. exact byline_is_serial. Qed.
Print Assumptions C08_members.

(** in a serial run a member's result does not depend on the other members or on the order of the group *)
Theorem C08_serial_order : forall (C X : Type) (ms : list (member C X)) x0 recs mc,
  In mc ms -> In (run_from C X (fst mc) (snd mc) (rs0 X x0) None recs) (serial C X ms x0 recs).
Proof. exact serial_order_irrelevant. Qed.
Print Assumptions C08_serial_order.

(** the caller's lines, per record: union (if_all_agree: conjunction) of the running members' decisions *)
Theorem C08_caller_lines : forall (C X : Type) agree (ms : list (member C X)) sts out nl,
  byline_step C X agree ms (sts, out) nl =
    if forallb (halted C X) sts then (sts, out)
    else (step_all C X ms sts nl, if keep agree (decisions C X sts (step_all C X ms sts nl)) then out ++ [snd nl] else out).
Proof. exact caller_lines_step. Qed.
Print Assumptions C08_caller_lines.

Example C08_nonvacuous :
  (* two members over four records: the first matches even record numbers, the second stops at record 1 *)
  let m1 : rs unit -> line Z -> rs unit * bool := fun s l => (s, Z.even (pln unit s)) in
  let m2 : rs unit -> line Z -> rs unit * bool := fun s l => (if pln unit s =? 1 then set_stopped unit s else s, true) in
  let c := mkCfg (mkSc [] None None true) false (Some 3) false true false true in
  let recs := [[0]; [1]; [2]; [3]] in
  snd (byline Z unit false [(m1, c); (m2, c)] tt recs) = [[0]; [1]; [2]] /\
  snd (byline Z unit true [(m1, c); (m2, c)] tt recs) = [[0]; [2]] /\
  map (returned Z unit) (fst (byline Z unit false [(m1, c); (m2, c)] tt recs)) = [[[0]; [2]]; [[0]; [1]]].
Proof. vm_compute. repeat split. Qed.
