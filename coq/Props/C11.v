(** Property C11 — the named-files area is a versioned, content-addressed, immutable store.
    Statements only; proofs in Mgr/FileStoreProofs.v.  SHA-256 is a Section variable assumed
    injective (trusted base); after the section closes it is an ordinary hypothesis of each theorem. *)
From Coq Require Import ZArith List Bool.
From V Require Import Mgr.FileStore Mgr.FileStoreProofs.
Import ListNotations.
Open Scope Z_scope.

(** After ANY sequence of add / mutate-source / remove / new-instance operations, for every name:
    reading the files behind the name's manifest entries gives exactly the version list of the
    abstract specification (one version per registration that changes content or source file name). *)
Theorem C11_refines : forall sha, (forall a b, sha a = sha b -> a = b) -> forall s0 ops n,
  abs_versions (run sha s0 ops) n =
    option_map (map (fun sc : Z * Z => (fst sc, Some (snd sc)))) (sp_versions (spec_run s0 ops) n).
Proof. exact abs_is_spec. Qed.
Print Assumptions C11_refines.

(** get_named_file(name) names a file whose bytes equal the most recent content registered under
    that name and whose file name is the digest of those bytes *)
Theorem C11_current : forall sha, (forall a b, sha a = sha b -> a = b) -> forall s0 ops n p,
  get_named_file (run sha s0 ops) n = Some p ->
  exists v sr c, sp_versions (spec_run s0 ops) n = Some v /\ last_version v = Some (sr, c) /\
                 p = (n, sr, sha c) /\ files (run sha s0 ops) p = Some c.
Proof. exact current. Qed.
Print Assumptions C11_current.

(** until the name is removed every stored version stays on disk unmodified *)
Theorem C11_immutable : forall sha, (forall a b, sha a = sha b -> a = b) -> forall (s : state) o p c, files s p = Some c ->
  (forall n, o = Remove n -> fst (fst p) <> n) -> files (step sha s o) p = Some c.
Proof. exact immutable. Qed.
Print Assumptions C11_immutable.

(** later edits of the source file do not affect registered content; a fresh instance sees the same state *)
Theorem C11_source_edits_and_fresh_instance : forall sha (s : state) sr x,
  files (step sha s (Mutate sr x)) = files s /\ mans (step sha s (Mutate sr x)) = mans s /\ step sha s NewInstance = s.
Proof. intros. repeat split. Qed.
Print Assumptions C11_source_edits_and_fresh_instance.

(** the manifest gains exactly one entry per registration that changes the current version, none for a repeat *)
Theorem C11_manifest_spec : forall s0 ops n sr,
  let t := spec_run s0 ops in
  let v := match sp_versions t n with Some v => v | None => [] end in
  sp_versions (spec_step t (Add n sr)) n =
    Some (match last_version v with
          | Some (sr', c') => if (c' =? sp_srcs t sr) && (sr' =? sr) then v else v ++ [(sr, sp_srcs t sr)]
          | None => v ++ [(sr, sp_srcs t sr)]
          end).
Proof.
  intros. cbn. rewrite Z.eqb_refl. subst t v. destruct (sp_versions (spec_run s0 ops) n) as [v|]; cbn;
    [destruct (last_version v) as [[a b]|]; reflexivity|reflexivity].
Qed.
Print Assumptions C11_immutable.

Example C11_nonvacuous :
  (* add n0 from s0; edit s0; add again (new version); re-add (repeat: no entry); add n0 from s1 *)
  let ops := [Add 0 0; Mutate 0 2; Add 0 0; Add 0 0; Add 0 1] in
  sp_versions (spec_run (fun k => k) ops) 0 = Some [(0, 0); (0, 2); (1, 1)] /\
  get_named_file (run (fun z => z) (fun k => k) ops) 0 = Some (0, 1, 1).
Proof. vm_compute. split; reflexivity. Qed.
