(** Property C01 — returned lines are exactly the scanned lines that satisfy the match part.
    Statements only; proofs in Run/RunFacts.v, Match/AdjProofs.v, Match/CoreProofs.v. *)
From Coq Require Import ZArith List Bool.
From V Require Import Csv.CsvModel Data.DataModel Scan.ScanModel Scan.ScanSpec Run.RunLoop Run.RunFacts Run.RunProofs Run.RunFold
  Match.Adjudicate Match.AdjProofs Match.Core Match.CoreProofs Match.CoreRun Match.CounterEqRun Scan.PySem Match.AdjSrc Match.AdjSrcEq Scan.ScanSrc Run.RunSem Run.RunSrc Run.RunSrcEq.
Import ListNotations.
Open Scope Z_scope.

(** structural half, for EVERY matcher: each record is considered at most once, in file order; what is
    returned is a sub-sequence of the records selected by the per-record decision ... *)
Theorem C01_once_in_order : forall (C X : Type) (m : rs X -> line C -> rs X * bool) c (recs : list (line C)) n a,
  let r := fold_left (step C X m c) (number n recs) a in
  exists t', trace C X r = trace C X a ++ t' /\ (length t' <= length recs)%nat /\
    returned C X r = returned C X a ++ sel C (map ev_returned t') (firstn (length t') recs) /\
    unmatched C X r = unmatched C X a ++
       (if collecting c && unmatched_avail c then sel C (map (fun e => negb (ev_returned e)) t') (firstn (length t') recs) else []).
Proof. exact fold_partition. Qed.
Print Assumptions C01_once_in_order.

(** ... and in the default return mode that decision is "offered by the scan part and voted for by the match part" *)
Theorem C01_returned_iff_vote : forall (C X : Type) (m : rs X -> line C -> rs X * bool) c s l, cwnm c = false ->
  let e := snd (consider C X m c s l) in ev_returned e = ev_offered e && ev_vote e.
Proof. exact consider_default_returned. Qed.
Print Assumptions C01_once_in_order.

(** the property at run level, for EVERY matcher that does not stop or advance (and leaves the state alone on the
    frozen evaluation of a blank final record): over ANY file, the lines a run returns are exactly the records
    the scan part denotes on which the match part — evaluated on the state its predecessors in the scan left —
    votes yes (return-mode no-matches: votes no), in file order; [ret_step] = offer the line, keep it on a vote *)
Theorem C01_run_returns : forall (C X : Type) (m : rs X -> line C -> rs X * bool) sh (c : cfg) E,
  wf sh -> parse false (ast_of sh) = Some (scanner c) -> q_scan c = false -> end_line c = Some E ->
  quiet C X m ->
  (forall s, oeqb (end_line c) (pln X s) = true -> core X (fst (m (set_frozen X s) [])) = core X s) ->
  (forall s l, frozen X (fst (m s l)) = frozen X s) ->
  forall (recs : list (line C)) (x0 : X), end_of C recs = Some E -> will_run c = true ->
  let r := run_from C X m c (rs0 X x0) None recs in
  let F := fold_left (ret_step C X m c) (filter (want C sh) (number 0 recs)) (rs0 X x0, []) in
  core X (st C X r) = core X (fst F) /\ returned C X r = snd F.
Proof. exact run_returns_fold. Qed.
Print Assumptions C01_run_returns.

(** every CORE csvpath is such a matcher *)
Theorem C01_core_run_returns : forall q blanks AND sh (c : cfg) E cs (recs : list (line ustring)) x0,
  wf sh -> parse false (ast_of sh) = Some (scanner c) -> q_scan c = false -> end_line c = Some E ->
  end_of ustring recs = Some E -> will_run c = true ->
  let r := run_from ustring mx (core_m q blanks AND cs (Some E)) c (rs0 mx x0) None recs in
  let F := fold_left (ret_step ustring mx (core_m q blanks AND cs (Some E)) c) (filter (want ustring sh) (number 0 recs)) (rs0 mx x0, []) in
  core mx (st ustring mx r) = core mx (fst F) /\ returned ustring mx r = snd F.
Proof. exact core_run_returns. Qed.
Print Assumptions C01_core_run_returns.

(** a value-producing function as the left side of '==': counter() yields its count AFTER the click, so the csvpath
    [ counter.nm(1) == n ] returns exactly the n-th scanned line — any file, any scan (nothing when fewer lines are scanned) *)
Theorem C01_counter_value_selects : forall q blanks nm n sh (cf : cfg) E (recs : list (line ustring)) x0,
  wf sh -> parse false (ast_of sh) = Some (scanner cf) -> q_scan cf = false -> end_line cf = Some E ->
  end_of ustring recs = Some E -> will_run cf = true -> cwnm cf = false -> lookup nm (vars x0) = None -> 1 <= n ->
  returned ustring mx (run_from ustring mx (core_m q blanks true [CAgg (CounterEq nm 1 n)] (Some E)) cf (rs0 mx x0) None recs) =
    match nth_error (filter (want ustring sh) (number 0 recs)) (Z.to_nat (n - 1)) with Some nl => [snd nl] | None => [] end.
Proof. exact counter_value_selects. Qed.
Print Assumptions C01_counter_value_selects.

(** semantic half on CORE: the vote of a line is the conjunction (OR mode: disjunction) of the
    components' votes, each evaluated exactly once, left to right, on the state its predecessors left
    ([ensure cs s]: the state with the counter() variables of the csvpath created, which validation does
    when the first line reaches the match part) *)
Theorem C01_line_vote : forall q blanks AND cs e s l, stopped mx s = false -> (oeqb e (pln mx s) && is_nil l) = false ->
  core_m q blanks AND cs e s l =
    (fst (seq_eval cst comp (fun c s => eval q blanks AND c s l) AND cs (ensure cs s) (negb AND)),
     negb (snd (seq_eval cst comp (fun c s => eval q blanks AND c s l) AND cs (ensure cs s) (negb AND)))).
Proof. exact core_line_vote. Qed.
Print Assumptions C01_line_vote.

(** the source itself: Matcher.matches as translated from csvpath/matching/matcher.py (Match/AdjSrc.v, regenerated on every run) is the
    model's adjudication loop — for EVERY component evaluator (whatever the functions do), every stop / skip / error-handling behaviour, both
    logic modes, every list of expressions and every state: the components are evaluated left to right, each at most once, the stop and
    skip flags are consulted before each, the votes are folded with AND / OR exactly as [adj] says, and nothing raises.  Hence C01_line_vote,
    C01_and_mode and the transport theorems of C04 / C13, which are about [adj], are about the loop as written in the source. *)
Theorem C01_adjudication_source : forall (S comp : Type) stp skp clear_skip (eval : comp -> S -> S * bool) clear_errors do_lasts AND cs s,
  matches_src S comp stp skp clear_skip eval clear_errors do_lasts AND false (fresh comp cs) s
  = res S comp (Adjudicate.matches S comp stp skp clear_skip eval clear_errors false AND cs s).
Proof. exact matches_src_eq. Qed.
Print Assumptions C01_adjudication_source.
Theorem C01_adjudication_source_lastblank : forall (S comp : Type) stp skp clear_skip (eval : comp -> S -> S * bool) clear_errors do_lasts AND xs s,
  matches_src S comp stp skp clear_skip eval clear_errors do_lasts AND true xs s = Some (clear_errors (do_lasts s), PBool true).
Proof. exact matches_src_lastblank. Qed.
Print Assumptions C01_adjudication_source_lastblank.

(** ... and the per-record step of the run loop as written in the source (CsvPath._consider_line, Run/RunSrc.v), run with the CORE match part
    of ANY csvpath of the fragment as its matcher, is the model's step: the typed fragment's matcher leaves the line monitor alone
    (core_m_pln), which is all the source-level theorem of 10.13 asks of a matcher *)
Theorem C01_core_step_source : forall q blanks AND cs (c : cfg) (s : rs mx) (l : list ustring), q_scan c = false ->
  consider_line_src ustring mx (core_m q blanks AND cs (end_line c)) (of_oz (from_line (scanner c))) (of_oz (to_line (scanner c)))
    (PBool (all_lines (scanner c))) (PList (these (scanner c))) (of_oz (end_line c)) (cwnm c) true s l
  = Some (fst (consider ustring mx (core_m q blanks AND cs (end_line c)) c s l),
          PBool (ev_returned (snd (consider ustring mx (core_m q blanks AND cs (end_line c)) c s l)))).
Proof.
  intros q blanks AND cs c s l Hq. apply consider_line_src_eq; [|exact Hq].
  intros s0 l0. apply core_m_pln.
Qed.
Print Assumptions C01_core_step_source.

(** AND mode: the line fails exactly when some component, in its left-to-right state, votes false *)
Theorem C01_and_mode : forall q blanks cs s l,
  snd (seq_eval cst comp (fun c s => eval q blanks true c s l) true cs s false) = true <->
  exists pre c post, cs = pre ++ c :: post /\
    snd (eval q blanks true c (fst (seq_eval cst comp (fun c s => eval q blanks true c s l) true pre s false)) l) = false.
Proof.
  intros. rewrite (seq_eval_and q blanks cs s false l). split; [intros [H|H]; [discriminate|exact H]|intros H; right; exact H].
Qed.
Print Assumptions C01_and_mode.

(** the operators mean what the documentation says (clean model) *)
Theorem C01_comparison_operators : forall a b,
  cmp_num clean Gt a b = (b <? a) /\ cmp_num clean Gte a b = (b <=? a) /\ cmp_num clean Lt a b = (a <? b) /\ cmp_num clean Lte a b = (a <=? b).
Proof. exact cmp_meaning. Qed.
Print Assumptions C01_comparison_operators.
Theorem C01_between : forall bl s l x a b, floatable (nvalue bl s l x) = true -> floatable (nvalue bl s l a) = true -> floatable (nvalue bl s l b) = true ->
  (beval clean bl s l (BBetween x a b) = true <->
  Z.min (fst (neval bl s l a)) (fst (neval bl s l b)) < fst (neval bl s l x) < Z.max (fst (neval bl s l a)) (fst (neval bl s l b))).
Proof. exact between_meaning. Qed.
Theorem C01_between_none : forall bl s l x a b, is_vnone (nvalue bl s l x) || is_vnone (nvalue bl s l a) || is_vnone (nvalue bl s l b) = true ->
  beval clean bl s l (BBetween x a b) = false.
Proof. exact between_none. Qed.
Print Assumptions C01_between_none.
Print Assumptions C01_between.
Theorem C01_nonnumeric_cells : forall bl s l o a c,
  is_vnone (nvalue bl s l a) = false -> is_vnone (nvalue bl s l c) = false ->
  floatable (nvalue bl s l a) && floatable (nvalue bl s l c) = false ->
  beval clean bl s l (BCmp o a c) = cmp_str clean o (text_of bl s l a) (text_of bl s l c).
Proof. exact nonnumeric_cells_compare_as_text. Qed.
Print Assumptions C01_nonnumeric_cells.
Theorem C01_eqeq : forall q bl s l a c,
  beval q bl s l (BEqEq a c) = ustr_eqb (strip (str_val (nvalue bl s l a))) (strip (str_val (nvalue bl s l c))) || val_eqb (nvalue bl s l a) (nvalue bl s l c).
Proof. exact eqeq_meaning. Qed.
Print Assumptions C01_eqeq.
Theorem C01_equals_numbers : forall q bl s l a c, floatable (nvalue bl s l a) = true -> floatable (nvalue bl s l c) = true ->
  beval q bl s l (BEq a c) = (fst (neval bl s l a) =? fst (neval bl s l c)).
Proof. exact equals_numbers. Qed.
Print Assumptions C01_equals_numbers.
Theorem C01_missing_cell : forall bl s l o i e, cell l i = None -> is_vnone (nvalue bl s l e) = false ->
  beval clean bl s l (BCmp o (NHdr i) e) = false /\ beval clean bl s l (BCmp o e (NHdr i)) = false.
Proof. exact missing_cell_compares_false. Qed.
Print Assumptions C01_missing_cell.
Theorem C01_all_cells : forall q bl s l nh, beval q bl s l (BAllCells nh) = true <->
  length l = nh /\ Forall (fun t => strip t <> []) l.
Proof. exact all_cells_meaning. Qed.
Print Assumptions C01_all_cells.
Theorem C01_mod_component : forall q bl AND s l na i k r,
  eval q bl AND (CMod na i k r) s l = (s, true) <->
  exists t z, cell l i = Some t /\ parse_int t = Some z /\ (if na then ~ (r < z mod k) else z mod k = r).
Proof. exact mod_component_meaning. Qed.
Print Assumptions C01_mod_component.
Theorem C01_mod_blank_cell : forall q bl AND s l na i k r, (forall t, cell l i = Some t -> is_blank_text t = true) ->
  snd (eval q bl AND (CMod na i k r) s l) = false.
Proof. exact mod_component_blank. Qed.
Print Assumptions C01_mod_blank_cell.
Theorem C01_numeric_cells : forall bl s l o i j,
  floatable (nvalue bl s l (NHdr i)) = true -> floatable (nvalue bl s l (NHdr j)) = true ->
  beval clean bl s l (BCmp o (NHdr i) (NHdr j)) = cmp_num clean o (fst (neval bl s l (NHdr i))) (fst (neval bl s l (NHdr j))).
Proof. exact numeric_cells_compare_as_numbers. Qed.
Print Assumptions C01_numeric_cells.

(** D1 (open finding): lt/below/before answer <= ; D2 (fixed in /repo): CSV cells compared as strings *)
(** a bare variable as a condition holds exactly when the variable holds something other than None (0, 0.0 and "" exist) *)
Theorem C01_bare_variable : forall q bl s l v,
  beval q bl s l (BVarSet v) = match lookup v (vars (x mx s)) with Some VNone | None => false | Some _ => true end.
Proof. reflexivity. Qed.
Print Assumptions C01_bare_variable.

Theorem C01_lt_is_le_refuted : cmp_num (mkQ true false false) Lt 10 10 = true /\ cmp_num clean Lt 10 10 = false.
Proof. exact lt_is_le_refuted. Qed.
Print Assumptions C01_lt_is_le_refuted.
Theorem C01_string_compare_refuted :
  let s := rs0 mx (mkMx [] [] []) in
  beval (mkQ false true false) [] s [[57]; [49; 48]] (BCmp Gt (NHdr 0) (NHdr 1)) = true /\
  beval clean [] s [[57]; [49; 48]] (BCmp Gt (NHdr 0) (NHdr 1)) = false.
Proof. exact string_compare_refuted. Qed.
Print Assumptions C01_string_compare_refuted.

Example C01_nonvacuous :
  (* [ gt(#1, #2)  @v = add(#1, 1)  lt(@v, 12) ] over a 5-record ragged file with a blank record *)
  let prog := [CB (BCmp Gt (NHdr 1) (NHdr 2)); CAct (AssignN 1 (NAdd (NHdr 1) (NLit 1))); CB (BCmp Lt (NVar 1) (NLit 12))] in
  let rows := [[[105]; [110]; [109]]; [[97]; [57]; [49; 48]]; []; [[98]; [49; 48]; [57]]; [[99]; [49; 50]; [51]]] in
  returned ustring mx (core_run clean true false (mkSc [] (Some 1) None true) prog rows) = [[[98]; [49; 48]; [57]]].
Proof. vm_compute. reflexivity. Qed.
