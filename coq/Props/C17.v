(** Property C17 — what runs is what was written: parsing is unambiguous and layout-insensitive.
    Statements only; proofs in Match/LexProofs.v, Match/ParseProofs.v, Match/SyntaxProofs.v, Meta/MetaProofs.v.

    A "layout" of a token list puts a whitespace separator before each token (empty only where two
    tokens cannot fuse).  "items" are match components with '~...~' comments woven in anywhere
    between them.  wf_item: the grammar's shape rules (left side of == is a header, variable or
    function; a lone component is a header, variable, function or reference; any nesting depth,
    any number of arguments and components).  wf_tok (inside layout_of): names are made of name
    characters, strings hold no double quote, comments no tilde, numbers are digits. *)
From Coq Require Import ZArith List Bool.
From V Require Import Csv.CsvModel Data.DataModel Match.Syntax Match.LexProofs Match.ParseProofs Match.SyntaxProofs Meta.MetaModel Meta.MetaProofs.
Import ListNotations.
Open Scope Z_scope.

(** the text of a tree, in any layout and with any comments between components, parses to exactly that tree
    (same component kinds, names with qualifiers, operators, argument order, literal values) *)
Theorem C17_roundtrip : forall l items trail,
  layout_of l (TLB :: toks_items items ++ [TRB]) -> all wsc trail = true -> Forall wf_item items ->
  parse_text (render_stream l trail) = Some (comps_of items).
Proof. exact text_roundtrip. Qed.
Print Assumptions C17_roundtrip.

(** whitespace, newlines and comments between components never change the tree *)
Theorem C17_layout_insensitive : forall l1 l2 items1 items2 trail1 trail2,
  layout_of l1 (TLB :: toks_items items1 ++ [TRB]) -> layout_of l2 (TLB :: toks_items items2 ++ [TRB]) ->
  all wsc trail1 = true -> all wsc trail2 = true -> Forall wf_item items1 -> Forall wf_item items2 ->
  comps_of items1 = comps_of items2 ->
  parse_text (render_stream l1 trail1) = parse_text (render_stream l2 trail2).
Proof. exact layout_insensitive. Qed.
Print Assumptions C17_layout_insensitive.

(** exactly one tree: the same text cannot be assembled from two different trees *)
Theorem C17_one_reading : forall l1 l2 items1 items2 trail1 trail2,
  layout_of l1 (TLB :: toks_items items1 ++ [TRB]) -> layout_of l2 (TLB :: toks_items items2 ++ [TRB]) ->
  all wsc trail1 = true -> all wsc trail2 = true -> Forall wf_item items1 -> Forall wf_item items2 ->
  render_stream l1 trail1 = render_stream l2 trail2 -> comps_of items1 = comps_of items2.
Proof. exact one_reading. Qed.
Print Assumptions C17_one_reading.

(** the pieces: every well-formed token is read back wherever it cannot fuse with what follows, and
    the parser reads back the tokens of every well-formed argument, for all fuel above its size *)
Theorem C17_token : forall t rest, wf_tok t = true -> stops t rest = true -> lex1 (render_tok t ++ rest) = Some (t, rest).
Proof. exact lex1_ok. Qed.
Print Assumptions C17_token.

Theorem C17_argument : forall a fuel rest, wf_arg a -> (length (toks_arg a) < fuel)%nat -> no_teq rest ->
  parse_arg fuel (toks_arg a ++ rest) = Some (a, rest).
Proof. exact parse_arg_roundtrip. Qed.
Print Assumptions C17_argument.

(** an outer comment (no ~ [ ] $ inside) hands the same csvpath text to the scanner and the match parser *)
Theorem C17_outer_comment : forall cm ws body, forallb plainb cm = true -> forallb plainb ws = true ->
  fst (extract_csvpath_and_comment (TILDE :: cm ++ TILDE :: ws ++ DOLLAR :: body ++ [RBR])) =
  fst (extract_csvpath_and_comment (ws ++ DOLLAR :: body ++ [RBR])).
Proof. intros cm ws body Hc Hw. rewrite (extract_with_comment cm ws body Hc Hw), (extract_without_comment ws body Hw). reflexivity. Qed.
Print Assumptions C17_outer_comment.

(** non-vacuity: a concrete text, and a concrete tree with a comment that meets every hypothesis *)
Example C17_nonvacuous :
  (* [ #a == 5 -> @x = add(#b, -1.5) ~c~ gt(length("ab"),1) #"q r"] *)
  parse_text [91;32;35;97;32;61;61;32;53;32;45;62;32;64;120;32;61;32;97;100;100;40;35;98;44;32;45;49;46;53;41;32;126;99;126;32;103;116;40;108;101;110;103;116;104;40;34;97;98;34;41;44;49;41;32;35;34;113;32;114;34;93]
  = Some [CEq (AHdr [97]) (ATermN false [53] None) (Some (ActAssign [120] (AFun [97; 100; 100] [AHdr [98]; ATermN true [49] (Some [53])])));
          CLeft (AFun [103; 116] [AFun [108; 101; 110; 103; 116; 104] [ATermS [97; 98]]; ATermN false [49] None]) None;
          CLeft (AHdrQ [113; 32; 114]) None].
Proof. vm_compute. reflexivity. Qed.

Definition ex_items : list item :=
  [IC (CEq (AHdr [97]) (ATermN false [53] None) (Some (ActAssign [120] (AFun [97; 100; 100] [AHdr [98]; ATermN true [49] (Some [53])]))));
   ICm [99];
   IC (CLeft (AFun [103; 116] [AFun [108; 101; 110; 103; 116; 104] [ATermS [97; 98]]; ATermN false [49] None]) None);
   IC (CAssign [121] (AEq (AVar [120]) (ARef [103; 46; 118])));
   (* regex(#a, /^x\/y+$/) : a regex term with an escaped slash *)
   IC (CLeft (AFun [114; 101; 103; 101; 120] [AHdr [97]; ATermR [94; 120; 92; 47; 121; 43; 36]]) None)].
Example C17_hypotheses_met :
  layout_of (spaced (TLB :: toks_items ex_items ++ [TRB])) (TLB :: toks_items ex_items ++ [TRB]) /\ Forall wf_item ex_items.
Proof.
  split; [apply spaced_ok; vm_compute; reflexivity|].
  repeat constructor.
Qed.
