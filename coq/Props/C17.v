(** Property C17 — placeholder until the proofs are in (statements added below as they are proved). *)
From Coq Require Import ZArith List Bool.
From V Require Import Csv.CsvModel Match.Syntax.
Import ListNotations.
Open Scope Z_scope.

Example C17_nonvacuous :
  (* [ #a == 5 -> @x = add(#b, -1.5) ~c~ gt(length("ab"),1) #"q r"] *)
  parse_text [91;32;35;97;32;61;61;32;53;32;45;62;32;64;120;32;61;32;97;100;100;40;35;98;44;32;45;49;46;53;41;32;126;99;126;32;103;116;40;108;101;110;103;116;104;40;34;97;98;34;41;44;49;41;32;35;34;113;32;114;34;93]
  = Some [CEq (AHdr [97]) (ATermN false [53] None) (Some (ActAssign [120] (AFun [97; 100; 100] [AHdr [98]; ATermN true [49] (Some [53])])));
          CLeft (AFun [103; 116] [AFun [108; 101; 110; 103; 116; 104] [ATermS [97; 98]]; ATermN false [49] None]) None;
          CLeft (AHdrQ [113; 32; 114]) None].
Proof. vm_compute. reflexivity. Qed.
