(** Property C19 — results depend only on the csvpath, the file and the configuration.
    Statements only; proofs in Mgr/CacheProofs.v.  Partial by nature: interpreter-global state
    (the process-wide warnings filter, logging handlers, GC) is not something a Gallina model
    exhibits; that part is covered by the fresh-process comparison of the check and by the
    source-derived footprint obligation (class-level mutable state). *)
From Coq Require Import ZArith List Bool.
From V Require Import Csv.CsvModel Data.DataModel Mgr.Archive Mgr.Cache Mgr.CacheProofs.
Import ListNotations.
Open Scope Z_scope.

(** the header row survives the cache for any header cells without CR: quotes, delimiters,
    newlines, the single header "", no headers at all *)
Theorem C19_header_cache : forall hs : list ustring, Forall (fun h => ~ In CR h) hs -> decode (encode false hs) = hs.
Proof. exact header_cache_roundtrip. Qed.
Print Assumptions C19_header_cache.

(** for ANY sequence of jobs (via a shared CsvPaths, via a new one, standalone, after a new process
    found the disk cache populated), from any state whose cache entries are truthful: every job
    sees exactly the line monitor and headers it would see run first in a fresh process.
    Hypothesis lm_rt_id: LineMonitor.load(LineMonitor.dump(lm)) = lm (JSON of six integers). *)
Theorem C19_history : forall (LM : Type) truth (lm_rt : LM -> LM), (forall lm, lm_rt lm = lm) ->
  (forall f, Forall (fun h => ~ In CR h) (snd (truth f))) ->
  forall js s, Inv LM truth s -> run LM truth lm_rt false s js = map (fresh LM truth) js.
Proof. exact history_independent. Qed.
Print Assumptions C19_history.

Theorem C19_from_cold : forall (LM : Type) truth (lm_rt : LM -> LM), (forall lm, lm_rt lm = lm) ->
  (forall f, Forall (fun h => ~ In CR h) (snd (truth f))) ->
  forall js, run LM truth lm_rt false (mkCS LM (fun _ => None) (fun _ => None)) js = map (fresh LM truth) js.
Proof. exact from_cold. Qed.
Print Assumptions C19_from_cold.

Theorem C19_repeat : forall (LM : Type) truth (lm_rt : LM -> LM), (forall lm, lm_rt lm = lm) ->
  (forall f, Forall (fun h => ~ In CR h) (snd (truth f))) -> forall j s, Inv LM truth s ->
  let (s1, o1) := step LM truth lm_rt false s j in let (s2, o2) := step LM truth lm_rt false s1 j in o1 = o2.
Proof. exact repeatable. Qed.
Print Assumptions C19_repeat.

(** D10 (fixed in /repo): with ","-join a header starting with a quote, containing a newline, or the single header "" does not survive *)
Theorem C19_header_cache_refuted :
  decode (encode true [[34; 113]; [97]]) <> [[34; 113]; [97]] /\ decode (encode true [[]]) <> [[]] /\
  decode (encode true [[97; 10; 98]]) <> [[97; 10; 98]] /\ decode (encode false [[34; 113]; [97]]) = [[34; 113]; [97]].
Proof. exact header_cache_refuted. Qed.
Print Assumptions C19_header_cache_refuted.

Example C19_nonvacuous :
  let truth := fun f : Z => (f, [[34; 113]; [97; 44]; []]) in
  run Z truth (fun x => x) false (mkCS Z (fun _ => None) (fun _ => None)) [ViaPaths 1; NewPaths; ViaPaths 1; Direct 1; NewProcess; ViaPaths 1]
    = [Some (truth 1); None; Some (truth 1); Some (truth 1); None; Some (truth 1)].
Proof. vm_compute. reflexivity. Qed.
