(** Property C15 — comment mode settings take effect; matched and unmatched partition the file.
    Statements only; proofs in Meta/MetaProofs.v and Run/RunFacts.v. *)
From Coq Require Import ZArith List Bool.
From V Require Import Csv.CsvModel Data.DataModel Meta.MetaModel Meta.MetaProofs Scan.ScanModel Run.RunLoop Run.RunFacts.
Import ListNotations.
Open Scope Z_scope.

(** An outer comment (any text without ~ [ ] $), optional text before the '$', then the csvpath
    "$...]": the csvpath comes out untouched — scan and match parts never change — and the comment
    text is what is handed to the field parser.  Any length, any characters inside the csvpath. *)
Theorem C15_extract : forall cm ws body,
  forallb plainb cm = true -> forallb plainb ws = true ->
  extract_csvpath_and_comment (TILDE :: cm ++ TILDE :: ws ++ DOLLAR :: body ++ [RBR]) = (DOLLAR :: body ++ [RBR], cm) /\
  extract_csvpath_and_comment (ws ++ DOLLAR :: body ++ [RBR]) = (DOLLAR :: body ++ [RBR], []).
Proof. intros. split; [apply extract_with_comment | apply extract_without_comment]; assumption. Qed.
Print Assumptions C15_extract.

(** Fields written "key: value " (keys of [A-Za-z0-9_-]+, values starting with such a character,
    not ending in whitespace, without ':'), any number of them: collect_metadata recovers exactly
    the key/value pairs (a repeated key keeps its last value). *)
Theorem C15_fields : forall kv kvs, Forall good (kv :: kvs) ->
  collect_metadata (render (kv :: kvs)) = Some (fold_left setkv (kv :: kvs) []).
Proof. exact collect_render. Qed.
Print Assumptions C15_fields.

(** return-mode no-matches: same run state, and per record the returned flag is flipped exactly
    for the records offered to the match part (for every matcher, scan part and file). *)
Theorem C15_complement : forall (C X : Type) (m : rs X -> line C -> rs X * bool) c s0 recs,
  let a := run_from C X m (with_cwnm c true) s0 None recs in
  let b := run_from C X m (with_cwnm c false) s0 None recs in
  st C X a = st C X b /\ trace C X a = map flip_ev (trace C X b).
Proof. exact return_mode_complement. Qed.
Print Assumptions C15_complement.

(** unmatched-mode keep while collecting: returned and unmatched partition the records read,
    each once, both in file order (for every matcher). *)
Theorem C15_partition : forall (C X : Type) (m : rs X -> line C -> rs X * bool) c (recs : list (line C)) n a,
  collecting c = true -> unmatched_avail c = true ->
  let r := fold_left (step C X m c) (number n recs) a in
  exists t', (length t' <= length recs)%nat /\
    returned C X r = returned C X a ++ sel C (map ev_returned t') (firstn (length t') recs) /\
    unmatched C X r = unmatched C X a ++ sel C (map (fun e => negb (ev_returned e)) t') (firstn (length t') recs).
Proof.
  intros C X m c recs n a Hc Hu. cbn zeta.
  destruct (fold_partition C X m c recs n a) as (t' & _ & Hl & Hr & Hun).
  exists t'. rewrite Hc, Hu in Hun. cbn in Hun. auto.
Qed.
Print Assumptions C15_partition.

(** run-mode no-run: nothing is read, nothing returned, the state is the initial one (frozen). *)
Theorem C15_norun : forall (C X : Type) (m : rs X -> line C -> rs X * bool) c s0 bud recs, will_run c = false ->
  let r := run_from C X m c s0 bud recs in
  trace C X r = [] /\ returned C X r = [] /\ unmatched C X r = [] /\ st C X r = set_frozen X s0.
Proof. exact no_run. Qed.
Print Assumptions C15_norun.

(** print-mode no-default removes the (first) standard-out printer and nothing else. *)
Theorem C15_print_mode : forall (A : Type) (is_stdout : A -> bool) (ps : list A),
  filter (fun p => negb (is_stdout p)) (remove_first is_stdout ps) = filter (fun p => negb (is_stdout p)) ps.
Proof. exact @print_mode_only_stdout. Qed.
Print Assumptions C15_print_mode.

(** Non-vacuity: a real-looking comment and csvpath. *)
(** free comment text never makes the comment parser fail: for EVERY comment some set of fields comes out
    (repaired defect D23; C15_key_without_value_refuted is its witness: "a: :") *)
Theorem C15_comment_total : forall comment, exists fs, collect_metadata comment = Some fs.
Proof. exact collect_metadata_total. Qed.
Print Assumptions C15_comment_total.
Theorem C15_key_without_value_refuted : collect_metadata_d23 [97; 58; 32; 58] = None /\ collect_metadata [97; 58; 32; 58] = Some [([97], None)].
Proof. exact key_without_value_refuted. Qed.
Print Assumptions C15_key_without_value_refuted.

Example C15_nonvacuous :
  (* ~ id: p1 return-mode: no-matches ~ $f[*][yes()] *)
  let cm := [32;105;100;58;32;112;49;32;114;101;116;117;114;110;45;109;111;100;101;58;32;110;111;45;109;97;116;99;104;101;115;32] in
  let body := [102;91;42;93;91;121;101;115;40;41] in
  extract_csvpath_and_comment (TILDE :: cm ++ TILDE :: [32] ++ DOLLAR :: body ++ [RBR]) = (DOLLAR :: body ++ [RBR], cm) /\
  collect_metadata (strip cm) =
    Some [([105;100], Some [112;49]); ([114;101;116;117;114;110;45;109;111;100;101], Some [110;111;45;109;97;116;99;104;101;115])].
Proof. vm_compute. split; reflexivity. Qed.
