(** Property C14 — assignment qualifiers decide the vote and the write per the documented table.
    Statements only; proofs in Match/AssignProofs.v. *)
From Coq Require Import ZArith List Bool.
From V Require Import Match.Assign Match.AssignProofs Match.QSem Match.AsgSrc Match.AsgSrcEq.
Import ListNotations.
Open Scope Z_scope.

(** For all 256 qualifier subsets, both answers of the rest of the line and ALL values
    (None, any int, any str): whenever the code's nest of conditionals returns, it returns the
    documented table — stated on conditions (gate, same, latched, guard_blocks), not on control flow. *)
Theorem C14_table : forall q lm cur y w v, do_assignment q lm cur y = Some (w, v) ->
  w = write q lm cur y /\ v = vote q lm cur y.
Proof. exact assignment_table. Qed.
Print Assumptions C14_table.

(** ... and it returns (does not raise) whenever the two values can be ordered. *)
Theorem C14_total : forall q lm cur y, comparable cur y = true -> exists w v, do_assignment q lm cur y = Some (w, v).
Proof. exact assignment_total. Qed.
Print Assumptions C14_total.

(** onmatch gates everything on the rest of the line *)
Corollary C14_onmatch : forall q lm cur y w v, do_assignment q lm cur y = Some (w, v) -> onmatch q = true -> lm = false ->
  w = false /\ (nocontrib q = false -> v = false).
Proof. exact onmatch_gates. Qed.
Print Assumptions C14_onmatch.

(** latch never votes negative (and never overwrites) *)
Corollary C14_latch : forall q lm cur y w v, do_assignment q lm cur y = Some (w, v) ->
  latch q = true -> onchange q = false -> is_none cur = false -> gate q lm = true -> asbool_q q = false ->
  v = true /\ (w = true -> False).
Proof. exact latch_never_negative. Qed.
Print Assumptions C14_latch.

(** nocontrib makes the vote neutral *)
Corollary C14_nocontrib : forall q lm cur y w v, do_assignment q lm cur y = Some (w, v) -> nocontrib q = true -> v = true.
Proof. exact nocontrib_neutral. Qed.
Print Assumptions C14_latch.

(** run level: one line of [ @x.<quals> = #a <rest> ] writes x iff [write] and is returned iff [vote] and the rest hold *)
Theorem C14_run_step : forall q cur out r cur' out', assign_step q (Some (cur, out)) r = Some (cur', out') ->
  cur' = (if write q (a_rest r) cur (a_y r) then a_y r else cur) /\
  out' = out ++ [(vote q (a_rest r) cur (a_y r) && a_rest r, cur')].
Proof.
  intros q cur out r cur' out' H. cbn in H.
  destruct (do_assignment q (a_rest r) cur (a_y r)) as [[w v]|] eqn:E; [|discriminate].
  destruct (assignment_table _ _ _ _ _ _ E) as [-> ->]. inversion H; subst. auto.
Qed.
Print Assumptions C14_run_step.

(** increase/decrease treat a falsy new value (0, "") like an absent one: it is blocked (aside in DESIGN) *)
Example C14_zero_aside : do_assignment (mkQ false false false true false false false false) true ANone (AInt 0) = Some (false, false).
Proof. reflexivity. Qed.

(** Non-vacuity: @x.latch.increase = 1 when x is already 1 votes positive without writing;
    @x.onchange = 2 when x is 2 votes negative. *)
Example C14_nonvacuous :
  do_assignment (mkQ false true false true false false false false) true (AInt 1) (AInt 1) = Some (false, true) /\
  do_assignment (mkQ false false true false false false false false) true (AInt 2) (AInt 2) = Some (false, false) /\
  assign_run (mkQ false true false false false false false false) [mkArow (AStr [49]) true; mkArow (AStr [50]) true]
    = Some [(true, AStr [49]); (true, AStr [49])].
Proof. repeat split; reflexivity. Qed.

(** the source itself: Equality._do_assignment_new_impl (with _latch_and_onchange and _set_variable_if) as translated from
    csvpath/matching/productions/equality.py (Match/AsgSrc.v, regenerated on every run), under Python's semantics (Match/QSem.v), calls
    set_variable exactly when the model writes, returns exactly the model's vote and raises exactly when the model does — hence the
    documented table (C14_table) is a statement about the source: whenever old and new value can be compared, the source writes iff
    [write] and votes [vote] *)
Theorem C14_source : forall q lm cur y,
  do_assignment_src false (QBool true) (QBool lm) (QBool (onchange q)) (QBool (latch q)) (QBool (onmatch q)) (QBool (asbool_q q)) (QBool (nocontrib q))
     (QBool (notnone q)) (QBool (increase q)) (QBool (decrease q)) (emb y) (emb cur)
  = emb_res (do_assignment q lm cur y).
Proof. exact do_assignment_src_eq. Qed.
Print Assumptions C14_source.
Theorem C14_source_table : forall q lm cur y, comparable cur y = true ->
  do_assignment_src false (QBool true) (QBool lm) (QBool (onchange q)) (QBool (latch q)) (QBool (onmatch q)) (QBool (asbool_q q)) (QBool (nocontrib q))
     (QBool (notnone q)) (QBool (increase q)) (QBool (decrease q)) (emb y) (emb cur)
  = (write q lm cur y, QBool (vote q lm cur y)).
Proof.
  intros q lm cur y Hc. rewrite do_assignment_src_eq.
  destruct (assignment_total q lm cur y Hc) as (w & vt & E). rewrite E.
  destruct (assignment_table q lm cur y w vt E) as [Hw Hv]. subst. reflexivity.
Qed.
Print Assumptions C14_source_table.

