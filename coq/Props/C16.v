(** Property C16 — print() emits its text verbatim with references replaced by current values.
    Statements only; proofs in Match/PrintProofs.v. *)
From Coq Require Import ZArith List Bool.
From V Require Import Csv.CsvModel Data.DataModel Match.Print Match.PrintProofs.
Import ListNotations.
Open Scope Z_scope.

(** For templates of ANY length built from text chunks without '$' and references (variables with key /
    index / length, headers by name or index, metadata, csvpath fields) in any arrangement — at the
    start, at the end, separated by one or many characters — where each reference is followed by the
    end of the string or by a character that cannot continue a name (the grammar's own delimiting
    rule): print sends exactly the text with every reference replaced by its current value. *)
Theorem C16_verbatim : forall e cs v, wf_template cs -> subst e cs = Some v -> print_model false e (render cs) = Some v.
Proof. exact print_verbatim. Qed.
Print Assumptions C16_verbatim.

(** a rendered reference followed by a terminator is read back as exactly that reference (root, type, name, tracking) *)
Theorem C16_reference_roundtrip : forall r t rest, wf_ref r -> terminator t = true ->
  parse_ref (tl (render_ref r) ++ t :: rest) = Some (r, [t], rest).
Proof. exact parse_ref_ok. Qed.
Print Assumptions C16_reference_roundtrip.

(** print.once prints at most once per run; print.onmatch only on matching lines; a plain print once per execution *)
Theorem C16_once : forall q ls, p_once q = true -> forall h, (length (filter (fun b => b) (print_run q h ls)) <= (if h then 0 else 1))%nat.
Proof. exact once_at_most_once. Qed.
Print Assumptions C16_once.
Theorem C16_onmatch : forall q ls, p_onmatch q = true -> forall h,
  Forall (fun mp : bool * bool => snd mp = true -> fst mp = true) (combine ls (print_run q h ls)).
Proof. exact onmatch_only_matching. Qed.
Print Assumptions C16_onmatch.
Theorem C16_plain : forall ls h, print_run (mkPq false false) h ls = map (fun _ => true) ls.
Proof. exact plain_every_line. Qed.
Print Assumptions C16_once.

(** D9 (fixed in /repo): the separator between two adjacent references was lost *)
Theorem C16_adjacent_refuted :
  let e := mkEnv [] [[97]; [98]] [[49]; [50]] [] [] in
  let t := [36;46;104;101;97;100;101;114;115;46;97;44;36;46;104;101;97;100;101;114;115;46;98] in
  print_model true e t = Some [49; 50] /\ print_model false e t = Some [49; 44; 50].
Proof. exact adjacent_refuted. Qed.
Print Assumptions C16_adjacent_refuted.

(** D9b (open finding): a reference immediately followed by another reference's '$' *)
Theorem C16_touching_refuted :
  let e := mkEnv [([120], VScalar [49])] [[98]] [[50]] [] [] in
  let t := [36;46;118;97;114;105;97;98;108;101;115;46;120;36;46;104;101;97;100;101;114;115;46;98] in
  print_model false e t = Some [49; 36; 46; 104; 101; 97; 100; 101; 114; 115; 46; 98].
Proof. exact touching_refuted. Qed.
Print Assumptions C16_touching_refuted.

Example C16_nonvacuous :
  (* "a=$.headers.a, k=$.variables.t.k; n=$.variables.s.length." *)
  let cs := [CText [97;61]; CRef (mkRef [] THeaders [97] None); CText [44;32;107;61]; CRef (mkRef [] TVariables [116] (Some [107]));
             CText [59;32;110;61]; CRef (mkRef [] TVariables [115] (Some [108;101;110;103;116;104]))] in
  let e := mkEnv [([116], VDict [([107], [55])]); ([115], VList [[120]; [121]])] [[97]; [98]] [[49]; [50]] [] [] in
  wf_template cs /\ print_model false e (render cs) = Some [97;61;49;44;32;107;61;55;59;32;110;61;50].
Proof. split; [cbn; repeat split; try reflexivity; discriminate|vm_compute; reflexivity]. Qed.
