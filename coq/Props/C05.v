(** Property C05 — errors in match components are handled exactly as the error policy says.
    Statements only; proofs in Match/ErrorsProofs.v. *)
From Coq Require Import ZArith List Bool.
From V Require Import Scan.PySem Match.Errors Match.ErrorsProofs Match.ErrEv Match.ErrSrc Match.ErrSrcEq.
Import ListNotations.
Open Scope Z_scope.

(** For all 2^6 policies, all validation-mode settings (3^4 override combinations) and every
    prior state: the exception reaches the caller iff 'raise', a record with the line number is
    collected iff 'collect', the run stops iff 'stop', the verdict turns invalid iff 'fail', the
    message goes to the printers iff 'print'; a validation-mode setting replaces the policy flag. *)
Theorem C05_outcome : forall p v s line,
  let s' := mkHs (if p_collect p then h_errors s ++ [line] else h_errors s)
                 (h_stopped s || flag (v_stop v) (p_stop p))
                 (h_valid s && negb (flag (v_fail v) (p_fail p)))
                 (if flag (v_print v) (p_print p) then h_printed s ++ [line] else h_printed s) in
  handle false p v s line = (if flag (v_raise v) (p_raise p) then Raised s' else Done s').
Proof. exact handle_outcome. Qed.
Print Assumptions C05_outcome.

Theorem C05_quiet_is_silent : forall p v s line,
  handle false p v s line = handle false (mkPol (p_raise p) (p_collect p) (p_stop p) (p_fail p) (p_print p) (negb (p_quiet p))) v s line.
Proof. exact quiet_is_silent. Qed.
Print Assumptions C05_quiet_is_silent.

Theorem C05_monotone : forall q p v s line s', (handle q p v s line = Done s' \/ handle q p v s line = Raised s' \/ handle q p v s line = Crashed s') ->
  (h_valid s = false -> h_valid s' = false) /\ (h_stopped s = true -> h_stopped s' = true) /\
  (exists t, h_errors s' = h_errors s ++ t) /\ (exists t, h_printed s' = h_printed s ++ t).
Proof. exact handle_monotone. Qed.
Print Assumptions C05_monotone.

(** a component with an error does not match (validation-mode without 'match') *)
Theorem C05_vote : forall raised pending child, (raised || pending) = true -> expr_vote false raised pending child = false.
Proof. exact error_votes_false. Qed.
Print Assumptions C05_vote.

Theorem C05_vote_no_error : forall mm child, expr_vote mm false false child = child.
Proof. exact no_error_votes_child. Qed.
Print Assumptions C05_vote_no_error.

(** ... unless validation-mode says match: a component whose evaluation raised then votes yes, and one whose
    children only recorded an error votes what its children answered *)
Theorem C05_vote_match_mode : forall pending child,
  expr_vote true true pending child = true /\ expr_vote true false pending child = child.
Proof. intros pending child. unfold expr_vote. destruct pending, child; split; reflexivity. Qed.
Print Assumptions C05_vote_match_mode.

(** the source itself: ErrorCommsManager.do_i_* and ErrorHandler._handle_if as translated from csvpath/util/error.py (Match/ErrSrc.v,
    regenerated on every run) decide and act exactly as the model, for every policy list, override and state *)
Theorem C05_handle_source : forall l v s line,
  apply_evs (handle_if_src obj obj (PList l) (ovv (v_raise v)) (ovv (v_print v)) (ovv (v_stop v)) (ovv (v_fail v))) s line
  = handle false (pol_of l) v s line.
Proof. exact handle_if_src_eq. Qed.
Print Assumptions C05_handle_source.
Theorem C05_decisions_source : forall l v,
  do_i_raise_src obj (ovv (v_raise v)) (PList l) = PBool (do_i_raise (pol_of l) v) /\
  do_i_print_src obj (ovv (v_print v)) (PList l) = PBool (do_i_print (pol_of l) v) /\
  do_i_stop_src obj (ovv (v_stop v)) (PList l) = PBool (do_i_stop (pol_of l) v) /\
  do_i_fail_src obj (ovv (v_fail v)) (PList l) = PBool (do_i_fail (pol_of l) v).
Proof. intros l v. repeat split; [apply do_i_raise_src_eq|apply do_i_print_src_eq|apply do_i_stop_src_eq|apply do_i_fail_src_eq]. Qed.
Print Assumptions C05_decisions_source.

(** D5 (fixed in /repo): with the switch on, a policy containing 'quiet' crashes before any effect *)
Theorem C05_quiet_refuted :
  handle true (mkPol false true false false false true) (mkVm None None None None None) (mkHs [] false true []) 2
    = Crashed (mkHs [] false true []) /\
  handle false (mkPol false true false false false true) (mkVm None None None None None) (mkHs [] false true []) 2
    = Done (mkHs [2] false true []).
Proof. exact quiet_crash_refuted. Qed.
Print Assumptions C05_quiet_refuted.

Example C05_nonvacuous :
  handle_all false (mkPol false true false true true false) (mkVm None (Some false) (Some true) None None) (mkHs [] false true []) [2; 2]
   = Done (mkHs [2; 2] true false []).
Proof. reflexivity. Qed.
