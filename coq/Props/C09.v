(** Property C09 — the archived results of a run say what the run did.
    Statements only; proofs in Mgr/ArchiveProofs.v (and Csv/CsvProofs.v for the csv round trip).
    JSON and SHA-256 are hypotheses: jdec (jenc j) = Some j for the JSON-representable values. *)
From Coq Require Import ZArith List Bool.
From V Require Import Csv.CsvModel Csv.CsvProofs Mgr.Archive Mgr.ArchiveProofs.
Import ListNotations.
Open Scope Z_scope.

(** the files of a member after save(): data.csv is the standard-dialect rendering of the collected
    lines (written line by line by the spooler), absent when nothing was collected; vars/errors/meta
    are the JSON of the in-memory values; unmatched.csv and printouts.txt likewise *)
Theorem C09_member_files : forall (J : Type) (jenc : J -> ustring) sha (r : mresult J),
  let f := fst (run_ops sha (member_ops J jenc r)) in
  f Data = (match m_lines J r with [] => None | ls => Some (csv_write std ls) end) /\
  f Vars = Some (jenc (m_vars J r)) /\ f Errors = Some (jenc (m_errors J r)) /\ f Meta = Some (jenc (m_meta J r)) /\
  f Unmatched = (match m_unmatched J r with [] => None | u => Some (csv_write std u) end) /\
  f Printouts = (match m_printouts J r with [] => None | p => Some (printouts_text p) end).
Proof. intros. apply member_files. Qed.
Print Assumptions C09_member_files.

(** data.csv / unmatched.csv parse back to exactly the lines collected / unmatched (any cell text
    without CR: quotes, delimiters, newlines), vars.json / errors.json decode to the in-memory values *)
Theorem C09_member_readback : forall (J : Type) (jenc : J -> ustring) (jdec : ustring -> option J) sha,
  (forall j, jdec (jenc j) = Some j) -> forall (r : mresult J), no_cr (m_lines J r) -> no_cr (m_unmatched J r) ->
  let f := fst (run_ops sha (member_ops J jenc r)) in
  option_map jdec (f Vars) = Some (Some (m_vars J r)) /\ option_map jdec (f Errors) = Some (Some (m_errors J r)) /\
  (m_lines J r <> [] -> option_map (read_file std) (f Data) = Some (m_lines J r)) /\
  (m_lines J r = [] -> f Data = None) /\
  (m_unmatched J r <> [] -> option_map (read_file std) (f Unmatched) = Some (m_unmatched J r)).
Proof. intros. apply member_readback; assumption. Qed.
Print Assumptions C09_member_readback.

(** the fingerprints in the member manifest are those of the bytes on disk when the run returns *)
Theorem C09_fingerprints : forall (J : Type) (jenc : J -> ustring) sha (r : mresult J) k,
  mm_fingerprints (member_manifest J jenc sha r) k = option_map sha (fst (run_ops sha (member_ops J jenc r)) k).
Proof. intros. apply fingerprints_final. Qed.
Print Assumptions C09_fingerprints.

(** the run manifest: status complete; all_valid / all_completed / error_count are the conjunctions / the sum *)
Theorem C09_run_manifest : forall (J : Type) (jenc : J -> ustring) sha (rs : list (mresult J)),
  rm_all_valid (run_manifest J rs) = forallb (fun r => mm_valid (member_manifest J jenc sha r)) rs /\
  rm_all_completed (run_manifest J rs) = forallb (fun r => mm_completed (member_manifest J jenc sha r)) rs /\
  rm_error_count (run_manifest J rs) = fold_right (fun r n => (mm_error_count (member_manifest J jenc sha r) + n)%nat) O rs /\
  rm_status_complete (run_manifest J rs) = true.
Proof. intros. apply run_manifest_is_conjunction. Qed.
Print Assumptions C09_run_manifest.

Example C09_nonvacuous :
  let r := mkRes Z 7 0 0%nat 1 [[104;105]] [[[97;44;98]; [34]]; [[120]]] [] true true in
  let f := fst (run_ops (fun b => Z.of_nat (length b)) (member_ops Z (fun z => [z]) r)) in
  f Data = Some [34;97;44;98;34;44;34;34;34;34;13;10;120;13;10] /\ option_map (read_file std) (f Data) = Some [[[97;44;98]; [34]]; [[120]]] /\
  f Unmatched = None /\ snd (run_ops (fun b => Z.of_nat (length b)) (member_ops Z (fun z => [z]) r)) Data = Some 15.
Proof. vm_compute. repeat split. Qed.
