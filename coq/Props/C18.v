(** Property C18 — a run that aborts still leaves a truthful, readable record.
    Statements only; proofs in Mgr/AbortProofs.v.  Partial: real exceptions, generators and file
    handles are runtime; the model has one abort transition per (member, line). *)
From Coq Require Import ZArith List Bool.
From V Require Import Mgr.Abort Mgr.AbortProofs.
Import ListNotations.
Open Scope Z_scope.

(** for every abort point (member i, line l), serial methods: the exception reaches the caller and the
    run manifest never claims status complete *)
Theorem C18_serial_truthful : forall scan_last i l,
  raised (serial_abort scan_last i l) = true /\ status_complete (serial_abort scan_last i l) = false.
Proof. exact serial_abort_truthful. Qed.
Print Assumptions C18_serial_truthful.

(** the same for breadth-first runs of any group size *)
Theorem C18_byline_truthful : forall scan_last finished n i l,
  raised (byline_abort scan_last finished n i l) = true /\ status_complete (byline_abort scan_last finished n i l) = false.
Proof. exact byline_abort_truthful. Qed.
Print Assumptions C18_byline_truthful.

(** breadth-first: every member is saved; a member whose scan ended on an earlier line keeps its complete result, the others are
    recorded with the truth about the line they are on *)
Theorem C18_byline_members : forall scan_last finished n i l j, (j < n)%nat ->
  saved (byline_abort scan_last finished n i l) j =
    Some (let cur := if Nat.leb j i then l else l - 1 in if finished j cur then true else scan_last j cur).
Proof. exact byline_abort_saved. Qed.
Print Assumptions C18_byline_members.
Theorem C18_byline_finished_member : forall scan_last finished n i l j, (j < n)%nat -> finished j (if Nat.leb j i then l else l - 1) = true ->
  saved (byline_abort scan_last finished n i l) j = Some true.
Proof. exact byline_abort_finished_member. Qed.
Print Assumptions C18_byline_finished_member.

(** the aborting member is saved with the aborting error and its line number *)
Theorem C18_aborting_member : forall scan_last i l,
  error_lines (serial_abort scan_last i l) i = [l] /\ saved (serial_abort scan_last i l) i = Some (scan_last i l) /\
  started (serial_abort scan_last i l) i = true.
Proof. exact serial_abort_member. Qed.
Print Assumptions C18_aborting_member.

(** members that finished earlier keep complete results *)
Theorem C18_earlier_members : forall scan_last i l j, (j < i)%nat -> saved (serial_abort scan_last i l) j = Some true.
Proof. exact serial_abort_earlier. Qed.
Print Assumptions C18_earlier_members.

(** D13 (open finding): the aborting member's manifest says completed false exactly when the abort
    does not land on the last line of its scan *)
Theorem C18_completed_partial : forall scan_last i l,
  saved (serial_abort scan_last i l) i = Some false <-> scan_last i l = false.
Proof. exact abort_completed_flag. Qed.
Print Assumptions C18_completed_partial.

Theorem C18_abort_on_last_line_refuted :
  saved (serial_abort (fun _ l => l =? 3) 0 3) 0 = Some true.
Proof. reflexivity. Qed.
Print Assumptions C18_abort_on_last_line_refuted.

Example C18_nonvacuous :
  let t := serial_abort (fun _ l => l =? 5) 2 3 in
  saved t 0 = Some true /\ saved t 1 = Some true /\ saved t 2 = Some false /\ saved t 3 = None /\ error_lines t 2 = [3] /\ started t 3 = false.
Proof. vm_compute. repeat split. Qed.
