(** Property C07 — collect(), next() and fast_forward() are the same run.
    Statements only; proofs in Run/RunFacts.v.  Every statement is for an arbitrary matcher. *)
From Coq Require Import ZArith List Bool.
From V Require Import Scan.ScanModel Run.RunLoop Run.RunFacts Run.RunPrefix Match.Adjudicate Match.Ctl Scan.PySem Scan.ScanSrc Run.RunSem Run.RunSrc Run.RunSrcEq.
Import ListNotations.
Open Scope Z_scope.

(** collect() (collecting = true) and next()/fast_forward() (collecting = false) yield the same
    lines and leave the same run state, trace, stop/finalize status — they differ at most in the
    [unmatched] list, which only collect() fills.  Holds for any consumer budget, i.e. also for
    collect(nexts=k) against "k lines taken from next()". *)
Theorem C07_entry_points_agree :
  forall (C X : Type) (m : rs X -> line C -> rs X * bool) c s0 bud recs b1 b2,
  same_but_unmatched C X (run_from C X m (with_collecting c b1) s0 bud recs)
                         (run_from C X m (with_collecting c b2) s0 bud recs).
Proof. exact entry_points_agree. Qed.
Print Assumptions C07_entry_points_agree.

Corollary C07_lines : forall (C X : Type) (m : rs X -> line C -> rs X * bool) c x0 recs,
  returned C X (collect C X m c x0 recs) = returned C X (next_all C X m c x0 recs) /\
  st C X (collect C X m c x0 recs) = st C X (fast_forward C X m c x0 recs).
Proof.
  intros. destruct (entry_points_agree C X m c (rs0 X x0) None recs true false) as (H1 & _ & H3 & _).
  split; assumption.
Qed.
Print Assumptions C07_lines.

(** The lines returned and the lines kept as unmatched are exactly the records read, split by
    the per-record decision, each once and in file order. *)
Theorem C07_partition : forall (C X : Type) (m : rs X -> line C -> rs X * bool) c (recs : list (line C)) n a,
  let r := fold_left (step C X m c) (number n recs) a in
  exists t', trace C X r = trace C X a ++ t' /\ (length t' <= length recs)%nat /\
    returned C X r = returned C X a ++ sel C (map ev_returned t') (firstn (length t') recs) /\
    unmatched C X r = unmatched C X a ++
       (if collecting c && unmatched_avail c
        then sel C (map (fun e => negb (ev_returned e)) t') (firstn (length t') recs) else []).
Proof. exact fold_partition. Qed.
Print Assumptions C07_partition.


(** collect(nexts=k), k >= 1, for every matcher: it returns the first k lines of collect(); and the trace, the unmatched
    lines and the whole run state it leaves (up to the frozen flag finalize() sets) are those of collect() on the file cut
    after record j — the record that gave the k-th line when the file has k lines to give: nothing belonging to a later
    record has happened. *)
Theorem C07_collect_nexts : forall (C X : Type) (m : rs X -> line C -> rs X * bool) c x0 (recs : list (line C)) k, (0 < k)%nat ->
  let rn := collect_n C X m k c x0 recs in
  let ra := collect C X m c x0 recs in
  returned C X rn = firstn k (returned C X ra) /\
  exists j, (j <= length recs)%nat /\
    let rp := collect C X m c x0 (firstn j recs) in
    trace C X rn = trace C X rp /\ returned C X rn = returned C X rp /\ unmatched C X rn = unmatched C X rp /\
    set_frozen X (st C X rn) = set_frozen X (st C X rp) /\
    ((k <= length (returned C X ra))%nat ->
       length (returned C X rn) = k /\ exists t e, trace C X rp = t ++ [e] /\ ev_returned e = true).
Proof. intros C X m c x0 recs k. exact (collect_n_prefix C X m (with_collecting c true) x0 recs k). Qed.
Print Assumptions C07_collect_nexts.

(** a concrete run (the control fragment of Match/Ctl.v): [ push("s1", line_number())  eq.nocontrib(line_number(), 2) -> stop() ] over
    four records, scan 1*: collect(), next() and fast_forward() stop on line 2, return the same two lines and leave the same state;
    collect(nexts=1) returns the first of them *)
Example C07_nonvacuous :
  let prog := [CAct (APush 1); CWhen (EqLine 2) true AStop] in
  let recs := recs_of [false; false; false; false] in
  let c := mkCfg (mkSc [] (Some 1) None true) false (end_of Z recs) false true false true in
  let x0 := mkMx [] false true [] in
  returned Z mx (collect Z mx (ctl_m c false prog) c x0 recs) = [[1]; [2]] /\
  returned Z mx (next_all Z mx (ctl_m c false prog) c x0 recs) = [[1]; [2]] /\
  st Z mx (collect Z mx (ctl_m c false prog) c x0 recs) = st Z mx (fast_forward Z mx (ctl_m c false prog) c x0 recs) /\
  log (x mx (st Z mx (collect Z mx (ctl_m c false prog) c x0 recs))) = [(1, 1); (1, 2)] /\
  returned Z mx (collect_n Z mx (ctl_m c false prog) 1%nat c x0 recs) = [[1]].
Proof. vm_compute. repeat split. Qed.

(** the source itself: CsvPath._consider_line as translated from csvpath/csvpath.py (Run/RunSrc.v, regenerated on every run) — with the
    source's own Scanner.includes / Scanner.is_last, raise_match_count_if, stop() and LineMonitor.is_last_line_and_blank — is the model's
    per-record step [consider], for every matcher that leaves the line monitor alone, every scanner state, run state and record: the same
    state afterwards (scan_count, match_count, advance_count, stopped, frozen, the matcher's own state), the same "yield this line", never a raise.
    All three entry points run this one step per record, which is why they are the same run; stop / advance / last act through it. *)
Theorem C07_step_source : forall (C X : Type) (m : rs X -> list C -> rs X * bool),
  (forall s l, pln X (fst (m s l)) = pln X s) ->
  forall (c : cfg) (s : rs X) (l : list C), q_scan c = false ->
  consider_line_src C X m (of_oz (from_line (scanner c))) (of_oz (to_line (scanner c))) (PBool (all_lines (scanner c))) (PList (these (scanner c)))
    (of_oz (end_line c)) (cwnm c) true s l
  = Some (fst (consider C X m c s l), PBool (ev_returned (snd (consider C X m c s l)))).
Proof. exact consider_line_src_eq. Qed.
Print Assumptions C07_step_source.

