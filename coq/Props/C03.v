(** Property C03 — variables and run counters end up with the values the csvpath assigns.
    Statements only; proofs in Run/RunProofs.v, Run/RunCounters.v, Match/CoreProofs.v. *)
From Coq Require Import ZArith List Bool.
From V Require Import Csv.CsvModel Data.DataModel Scan.ScanModel Scan.ScanSpec Run.RunLoop Run.RunProofs Run.RunCounters
  Match.Adjudicate Match.Core Match.CoreProofs.
Import ListNotations.
Open Scope Z_scope.

(** scan_count is the number of lines offered to the match part (for every quiet matcher): C02_run.
    match_count is the number of lines the match part voted for, for every matcher that does not
    touch the match counters itself (no onmatch look-ahead) *)
Theorem C03_match_count : forall (C X : Type) (m : rs X -> line C -> rs X * bool),
  (forall s l, match_count X (fst (m s l)) = match_count X s /\ cur_mc X (fst (m s l)) = cur_mc X s) ->
  forall c x0 recs, let r := run_from C X m c (rs0 X x0) None recs in
  match_count X (st C X r) = votes (trace C X r).
Proof. exact match_count_is_votes. Qed.
Print Assumptions C03_match_count.

(** the state after a line is the left-to-right fold of the components' effects: an assignment sees the
    values earlier components of the same line wrote *)
Theorem C03_state_is_fold : forall q blanks AND cs e s l, stopped mx s = false -> (oeqb e (pln mx s) && is_nil l) = false ->
  fst (core_m q blanks AND cs e s l) = fst (seq_eval cst comp (fun c s => eval q blanks AND c s l) AND cs s (negb AND)).
Proof. intros. rewrite core_line_vote by assumption. reflexivity. Qed.
Print Assumptions C03_state_is_fold.

(** no CORE component touches the loop's counters; count_lines(), count_scans(), line_number() report them *)
Theorem C03_counters_untouched : forall q blanks AND c s l,
  match_count mx (fst (eval q blanks AND c s l)) = match_count mx s /\ scan_count mx (fst (eval q blanks AND c s l)) = scan_count mx s /\
  pln mx (fst (eval q blanks AND c s l)) = pln mx s.
Proof. intros. destruct (eval_keeps q blanks AND c s l) as (_ & H1 & H2 & _ & H3). auto. Qed.
Theorem C03_counter_functions : forall blanks s l,
  neval blanks s l NLineNo = (pln mx s, 1) /\ neval blanks s l NCountScans = (scan_count mx s, 1) /\
  neval blanks s l NCountLines = (Z.of_nat (length (filter negb (firstn (Z.to_nat (pln mx s + 1)) blanks))), 1).
Proof. intros. repeat split. Qed.

(** push appends, pop removes exactly the top (clean model); D4 (fixed in /repo): pop dropped two *)
Theorem C03_pop_drops_two_refuted :
  let s := with_mx (rs0 mx (mkMx [] [])) (mkMx [] [(1, [VI 1; VI 2; VI 3])]) in
  lookup 1 (stacks (x mx (do_action (mkQ false false true) [] s [] (Pop 9 1)))) = Some [VI 1] /\
  lookup 1 (stacks (x mx (do_action clean [] s [] (Pop 9 1)))) = Some [VI 1; VI 2].
Proof. exact pop_drops_two_refuted. Qed.

Example C03_nonvacuous :
  (* [ @v = #1  @w = add(@v, 1)  push("k", @w)  gt(#1, 5) -> @p = pop("k") ] *)
  let prog := [CAct (AssignN 1 (NHdr 1)); CAct (AssignN 2 (NAdd (NVar 1) (NLit 1))); CAct (PushN 7 (NVar 2)); CWhen (BCmp Gt (NHdr 1) (NLit 5)) (Pop 3 7)] in
  let rows := [[[105]; [110]]; [[97]; [53]]; [[98]; [49; 48]]; [[99]; [50]]] in
  let o := core_run clean true false (mkSc [] (Some 1) None true) prog rows in
  vars (x mx (st ustring mx o)) = [(1, VS [50]); (2, VF 3); (3, VF 11)] /\ stacks (x mx (st ustring mx o)) = [(7, [VF 6; VF 3])] /\
  match_count mx (st ustring mx o) = 1.
Proof. vm_compute. repeat split. Qed.
