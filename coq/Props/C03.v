(** Property C03 — variables and run counters end up with the values the csvpath assigns.
    Statements only; proofs in Run/RunProofs.v, Run/RunCounters.v, Match/CoreProofs.v. *)
From Coq Require Import ZArith List Bool.
From V Require Import Csv.CsvModel Data.DataModel Scan.ScanModel Scan.ScanSpec Run.RunLoop Run.RunProofs Run.RunCounters
  Run.RunFold Match.Adjudicate Match.Core Match.CoreProofs Match.AggProofs Match.CoreRun Match.CountIfRun Match.PushDistinct.
From V Require Match.Assign.
Import ListNotations.
Open Scope Z_scope.

(** scan_count is the number of lines offered to the match part (for every quiet matcher): C02_run.
    match_count is the number of lines the match part voted for, for every matcher that does not
    touch the match counters itself (no onmatch look-ahead) *)
Theorem C03_match_count : forall (C X : Type) (m : rs X -> line C -> rs X * bool),
  (forall s l, match_count X (fst (m s l)) = match_count X s /\ cur_mc X (fst (m s l)) = cur_mc X s) ->
  forall c x0 recs, let r := run_from C X m c (rs0 X x0) None recs in
  match_count X (st C X r) = votes (trace C X r).
Proof. exact match_count_is_votes. Qed.
Print Assumptions C03_match_count.

(** the state after a line is the left-to-right fold of the components' effects: an assignment sees the
    values earlier components of the same line wrote *)
Theorem C03_state_is_fold : forall q blanks AND cs e s l, stopped mx s = false -> (oeqb e (pln mx s) && is_nil l) = false ->
  fst (core_m q blanks AND cs e s l) = fst (seq_eval cst comp (fun c s => eval q blanks AND c s l) AND cs (ensure cs s) (negb AND)).
Proof. intros. rewrite core_line_vote by assumption. reflexivity. Qed.
Print Assumptions C03_state_is_fold.

(** no CORE component touches the loop's counters; count_lines(), count_scans(), line_number() report them *)
Theorem C03_counters_untouched : forall q blanks AND c s l,
  match_count mx (fst (eval q blanks AND c s l)) = match_count mx s /\ scan_count mx (fst (eval q blanks AND c s l)) = scan_count mx s /\
  pln mx (fst (eval q blanks AND c s l)) = pln mx s.
Proof. intros. destruct (eval_keeps q blanks AND c s l) as (_ & H1 & H2 & _ & H3). auto. Qed.
Print Assumptions C03_counters_untouched.
Theorem C03_counter_functions : forall blanks s l,
  neval blanks s l NLineNo = (pln mx s, 1) /\ neval blanks s l NCountScans = (scan_count mx s, 1) /\
  neval blanks s l NCountLines = (Z.of_nat (length (filter negb (firstn (Z.to_nat (pln mx s + 1)) blanks))), 1).
Proof. intros. repeat split. Qed.
Print Assumptions C03_counter_functions.

(** push appends, pop removes exactly the top (clean model); D4 (fixed in /repo): pop dropped two *)
Theorem C03_pop_drops_two_refuted :
  let s := with_mx (rs0 mx (mkMx [] [] [])) (mkMx [] [(1, [VI 1; VI 2; VI 3])] []) in
  lookup 1 (stacks (x mx (do_action (mkQ false false true) [] true s [] (Pop 9 1)))) = Some [VI 1] /\
  lookup 1 (stacks (x mx (do_action clean [] true s [] (Pop 9 1)))) = Some [VI 1; VI 2].
Proof. exact pop_drops_two_refuted. Qed.
Print Assumptions C03_pop_drops_two_refuted.

(** count() is the number of matches so far plus this line *)
Theorem C03_count_function : forall blanks s l, neval blanks s l NCount = (match_count mx s + 1, 1).
Proof. reflexivity. Qed.
Print Assumptions C03_count_function.

(** first(): a first sighting records this line and votes; a later sighting changes nothing and does not vote *)
Theorem C03_first_step : forall q blanks AND s l nm i,
  let key := hdr_key l i in
  let r := do_agg q blanks AND s l (First nm i) in
  match dget (x mx s) nm key with
  | Some (VI z) => fst r = s /\ snd r = false
  | None => dget (x mx (fst r)) nm key = Some (VI (pln mx s)) /\ snd r = true
  | _ => True
  end.
Proof. intros q blanks AND. exact (first_step q blanks AND). Qed.
Print Assumptions C03_first_step.

(** ... and the line recorded for a value's first sighting never changes for the rest of the run: any
    further records, any scan, any entry point and budget, any other components (which may write any
    other variable), as long as no other function or assignment of the csvpath names the same dictionary *)
Theorem C03_first_sighting_stable : forall q AND cs (e : option Z) blanks (c : cfg) s0 bud (recs : list (line ustring)) nm key z,
  Forall (first_owns nm) cs -> dget (x mx s0) nm key = Some (VI z) ->
  dget (x mx (st ustring mx (run_from ustring mx (core_m q blanks AND cs e) c s0 bud recs))) nm key = Some (VI z).
Proof. exact first_sighting_stable. Qed.
Print Assumptions C03_first_sighting_stable.

(** tally(), every(), counter(), sum(), subtotal(), "@name.key = e": what one evaluation writes, and what it leaves alone *)
Theorem C03_tally_step : forall q blanks AND s l i,
  let d := 100 + Z.of_nat i in let key := hdr_key l i in let m' := x mx (fst (do_agg q blanks AND s l (Tally i))) in
  dget m' d key = Some (VI (num_of (dget (x mx s) d key) + 1)) /\
  (forall key', key <> key' -> dget m' d key' = dget (x mx s) d key') /\
  (forall d' key', d <> d' -> dget m' d' key' = dget (x mx s) d' key') /\
  vars m' = vars (x mx s) /\ stacks m' = stacks (x mx s) /\ snd (do_agg q blanks AND s l (Tally i)) = true.
Proof. exact tally_step. Qed.
Print Assumptions C03_tally_step.
Theorem C03_every_step : forall q blanks AND s l nm i n,
  let key := hdr_key l i in let r := do_agg q blanks AND s l (Every nm i n) in
  dget (x mx (fst r)) nm key = Some (VI (num_of (dget (x mx s) nm key) + 1)) /\
  snd r = ((num_of (dget (x mx s) nm key) + 1) mod n =? 0) /\
  (forall key', key <> key' -> dget (x mx (fst r)) nm key' = dget (x mx s) nm key').
Proof. exact every_step. Qed.
Print Assumptions C03_every_step.
Theorem C03_counter_step : forall q blanks AND s l nm k,
  let r := do_agg q blanks AND s l (Counter nm k) in
  lookup nm (vars (x mx (fst r))) = Some (VI (num_of (lookup nm (vars (x mx s))) + k)) /\
  (forall v, nm <> v -> lookup v (vars (x mx (fst r))) = lookup v (vars (x mx s))) /\
  dicts (x mx (fst r)) = dicts (x mx s) /\ stacks (x mx (fst r)) = stacks (x mx s).
Proof. exact counter_step. Qed.
Print Assumptions C03_counter_step.
Theorem C03_counter_expr_step : forall q blanks AND s l nm e,
  let r := do_agg q blanks AND s l (CounterE nm e) in
  lookup nm (vars (x mx (fst r))) = Some (VI (num_of (lookup nm (vars (x mx s))) + fst (neval blanks s l e))) /\
  (forall v, nm <> v -> lookup v (vars (x mx (fst r))) = lookup v (vars (x mx s))) /\
  dicts (x mx (fst r)) = dicts (x mx s) /\ stacks (x mx (fst r)) = stacks (x mx s).
Proof. exact counter_expr_step. Qed.
Print Assumptions C03_counter_expr_step.
Theorem C03_counter_eq_step : forall q blanks AND s l nm k n,
  let r := do_agg q blanks AND s l (CounterEq nm k n) in
  let cnt := num_of (lookup nm (vars (x mx s))) + k in
  lookup nm (vars (x mx (fst r))) = Some (VI cnt) /\ snd r = (cnt =? n) /\
  (forall v, nm <> v -> lookup v (vars (x mx (fst r))) = lookup v (vars (x mx s))) /\
  dicts (x mx (fst r)) = dicts (x mx s) /\ stacks (x mx (fst r)) = stacks (x mx s).
Proof. exact counter_eq_step. Qed.
Print Assumptions C03_counter_eq_step.
Theorem C03_count_if_step : forall q blanks AND s l v nm c,
  let r := do_agg q blanks AND s l (CountIf v nm c) in
  let key := if beval q blanks s l c then py_true else py_false in
  let cnt := num_of (dget (x mx s) nm key) + 1 in
  dget (x mx (fst r)) nm key = Some (VI cnt) /\ lookup v (vars (x mx (fst r))) = Some (VI cnt) /\
  (forall key', key <> key' -> dget (x mx (fst r)) nm key' = dget (x mx s) nm key') /\
  (forall w, v <> w -> lookup w (vars (x mx (fst r))) = lookup w (vars (x mx s))) /\
  snd r = AND.
Proof. exact count_if_step. Qed.
Print Assumptions C03_count_if_step.
(** a qualified assignment '@v.<latch|onchange|increase|decrease|notnone|nocontrib> = e' inside any csvpath: written and voted exactly as the
    documented table says (the decision function of C14, Match/Assign.v), whenever the old and the new value can be compared *)
Theorem C03_assign_q_step : forall q blanks AND s l qs v e,
  let cur := aval_of (match lookup v (vars (x mx s)) with Some c0 => c0 | None => VNone end) in
  let y := aval_of (nvalue blanks s l e) in
  let r := do_agg q blanks AND s l (AssignQ qs v e) in
  Assign.comparable cur y = true ->
  snd r = Assign.vote qs true cur y /\
  (Assign.write qs true cur y = true -> lookup v (vars (x mx (fst r))) = Some (nvalue blanks s l e)) /\
  (Assign.write qs true cur y = false -> fst r = s) /\
  (forall w, v <> w -> lookup w (vars (x mx (fst r))) = lookup w (vars (x mx s))).
Proof. exact assign_q_step. Qed.
Print Assumptions C03_assign_q_step.
(** ... and with a tracking key, '@nm.key.<qualifiers> = e': decided over, and written to, the value held under that key; the variable's other keys stay *)
Theorem C03_assign_qk_step : forall q blanks AND s l qs nm key e,
  let cur := aval_of (match dget (x mx s) nm key with Some c0 => c0 | None => VNone end) in
  let y := aval_of (nvalue blanks s l e) in
  let r := do_agg q blanks AND s l (AssignQK qs nm key e) in
  Assign.comparable cur y = true ->
  snd r = Assign.vote qs true cur y /\
  (Assign.write qs true cur y = true -> dget (x mx (fst r)) nm key = Some (nvalue blanks s l e)) /\
  (Assign.write qs true cur y = false -> fst r = with_mx s (ensure_key (x mx s) nm key)) /\
  (forall key', key <> key' -> dget (x mx (fst r)) nm key' = dget (x mx s) nm key') /\
  (forall nm' key', nm <> nm' -> dget (x mx (fst r)) nm' key' = dget (x mx s) nm' key') /\
  vars (x mx (fst r)) = vars (x mx s).
Proof. exact assign_qk_step. Qed.
Print Assumptions C03_assign_qk_step.
Theorem C03_sum_step : forall q blanks AND s l nm e,
  let r := do_agg q blanks AND s l (Sum nm e) in
  num_of (lookup nm (vars (x mx (fst r)))) = num_of (lookup nm (vars (x mx s))) + fst (neval blanks s l e) /\
  (none_like (nvalue blanks s l e) = false ->
     lookup nm (vars (x mx (fst r))) = Some (VF (num_of (lookup nm (vars (x mx s))) + fst (neval blanks s l e)))) /\
  (forall v, nm <> v -> lookup v (vars (x mx (fst r))) = lookup v (vars (x mx s))).
Proof. exact sum_step. Qed.
Print Assumptions C03_sum_step.
Theorem C03_subtotal_step : forall q blanks AND s l nm i e,
  let key := hdr_key l i in let r := do_agg q blanks AND s l (Subtotal nm i e) in
  dget (x mx (fst r)) nm key = Some (VF (num_of (dget (x mx s) nm key) + fst (neval blanks s l e))) /\
  (forall key', key <> key' -> dget (x mx (fst r)) nm key' = dget (x mx s) nm key').
Proof. exact subtotal_step. Qed.
Print Assumptions C03_subtotal_step.
Theorem C03_assign_key_step : forall q blanks AND s l nm key e,
  let r := do_agg q blanks AND s l (AssignK nm key e) in
  dget (x mx (fst r)) nm key = Some (nvalue blanks s l e) /\
  (forall key', key <> key' -> dget (x mx (fst r)) nm key' = dget (x mx s) nm key').
Proof. exact assign_key_step. Qed.
Print Assumptions C03_tally_step.

(** A run is a fold.  For every matcher that does not stop, advance or touch the scan counter or the
    frozen flag, and leaves the state alone on the frozen evaluation of a blank final record: the
    match part's own state and the two counters after a run over ANY file are the left fold of "offer
    this line" over exactly the records the scan part denotes, in file order (blank records, records
    outside the scan, halting and finalisation leave no trace).  [line_step] is what _consider_line
    does around matches(): scan_count + 1, the matcher, match_count + 1 on a vote. *)
Theorem C03_run_is_fold : forall (C X : Type) (m : rs X -> line C -> rs X * bool) sh (c : cfg) E,
  wf sh -> parse false (ast_of sh) = Some (scanner c) -> q_scan c = false -> end_line c = Some E ->
  quiet C X m ->
  (forall s, oeqb (end_line c) (pln X s) = true -> core X (fst (m (set_frozen X s) [])) = core X s) ->
  (forall s l, frozen X (fst (m s l)) = frozen X s) ->
  forall (recs : list (line C)) (x0 : X), end_of C recs = Some E -> will_run c = true ->
  core X (st C X (run_from C X m c (rs0 X x0) None recs)) =
  core X (fold_left (line_step C X m) (filter (want C sh) (number 0 recs)) (rs0 X x0)).
Proof. exact run_is_fold. Qed.
Print Assumptions C03_run_is_fold.

(** every CORE csvpath is such a matcher *)
Theorem C03_core_run_is_fold : forall q blanks AND sh (c : cfg) E cs (recs : list (line ustring)) x0,
  wf sh -> parse false (ast_of sh) = Some (scanner c) -> q_scan c = false -> end_line c = Some E ->
  end_of ustring recs = Some E -> will_run c = true ->
  core mx (st ustring mx (run_from ustring mx (core_m q blanks AND cs (Some E)) c (rs0 mx x0) None recs)) =
  core mx (fold_left (line_step ustring mx (core_m q blanks AND cs (Some E))) (filter (want ustring sh) (number 0 recs)) (rs0 mx x0)).
Proof. exact core_run_is_fold. Qed.
Print Assumptions C03_core_run_is_fold.

(** tally() against its specification: in ANY CORE csvpath that has tally(#i) once at top level and
    names its dictionary nowhere else, after a run over ANY file with ANY scan the count stored for a
    value is the number of scanned lines whose cell i holds that value (plus what was there before) *)
Theorem C03_tally_counts_scanned : forall q blanks AND sh (c : cfg) E cs (recs : list (line ustring)) x0 i key,
  wf sh -> parse false (ast_of sh) = Some (scanner c) -> q_scan c = false -> end_line c = Some E ->
  end_of ustring recs = Some E -> will_run c = true -> tally_once i cs ->
  num_of (dget (x mx (st ustring mx (run_from ustring mx (core_m q blanks AND cs (Some E)) c (rs0 mx x0) None recs))) (100 + Z.of_nat i) key) =
  num_of (dget x0 (100 + Z.of_nat i) key) + count_key i key (filter (want ustring sh) (number 0 recs)).
Proof. exact tally_counts_scanned. Qed.
Print Assumptions C03_tally_counts_scanned.

(** counter() against its specification: counter.nm(k) once at top level and no other writer of that
    variable: after ANY run it holds k times the number of scanned lines (plus what it held before) *)
Theorem C03_counter_counts_scanned : forall q blanks AND sh (c : cfg) E cs (recs : list (line ustring)) x0 nm k,
  wf sh -> parse false (ast_of sh) = Some (scanner c) -> q_scan c = false -> end_line c = Some E ->
  end_of ustring recs = Some E -> will_run c = true -> counter_once nm k cs ->
  num_of (lookup nm (vars (x mx (st ustring mx (run_from ustring mx (core_m q blanks AND cs (Some E)) c (rs0 mx x0) None recs))))) =
  num_of (lookup nm (vars x0)) + k * Z.of_nat (length (filter (want ustring sh) (number 0 recs))).
Proof. exact counter_counts_scanned. Qed.
Print Assumptions C03_counter_counts_scanned.

(** sum() of a header against its specification: the total of that cell over the scanned lines *)
Theorem C03_sum_totals_scanned : forall q blanks AND sh (c : cfg) E cs (recs : list (line ustring)) x0 nm i,
  wf sh -> parse false (ast_of sh) = Some (scanner c) -> q_scan c = false -> end_line c = Some E ->
  end_of ustring recs = Some E -> will_run c = true -> sum_once nm i cs ->
  num_of (lookup nm (vars (x mx (st ustring mx (run_from ustring mx (core_m q blanks AND cs (Some E)) c (rs0 mx x0) None recs))))) =
  num_of (lookup nm (vars x0)) + total_of blanks i (filter (want ustring sh) (number 0 recs)).
Proof. exact sum_totals_scanned. Qed.
Print Assumptions C03_sum_totals_scanned.

(** first() against its specification: first.nm(#i) once at top level and its dictionary named nowhere else:
    after ANY run from the empty state, the entry of a value is the line number of the FIRST scanned line
    holding it, and a value no scanned line holds has no entry *)
Theorem C03_first_records_first_scanned : forall q blanks AND sh (c : cfg) E cs (recs : list (line ustring)) nm i key,
  wf sh -> parse false (ast_of sh) = Some (scanner c) -> q_scan c = false -> end_line c = Some E ->
  end_of ustring recs = Some E -> will_run c = true -> first_once nm i cs ->
  dget (x mx (st ustring mx (run_from ustring mx (core_m q blanks AND cs (Some E)) c (rs0 mx (mkMx [] [] [])) None recs))) nm key =
  option_map VI (first_line i key (filter (want ustring sh) (number 0 recs))).
Proof. exact first_records_first_scanned. Qed.
Print Assumptions C03_first_records_first_scanned.

(** subtotal() against its specification: per value of cell i, the total of cell j over the scanned lines holding it *)
Theorem C03_subtotal_totals_scanned : forall q blanks AND sh (c : cfg) E cs (recs : list (line ustring)) x0 nm i j key,
  wf sh -> parse false (ast_of sh) = Some (scanner c) -> q_scan c = false -> end_line c = Some E ->
  end_of ustring recs = Some E -> will_run c = true -> subtotal_once nm i j cs ->
  num_of (dget (x mx (st ustring mx (run_from ustring mx (core_m q blanks AND cs (Some E)) c (rs0 mx x0) None recs))) nm key) =
  num_of (dget x0 nm key) + subtotal_of blanks i j key (filter (want ustring sh) (number 0 recs)).
Proof. exact subtotal_totals_scanned. Qed.
Print Assumptions C03_subtotal_totals_scanned.

(** tally() with several arguments: one store per argument (a blank value is not stored; a missing cell counts as the
    text None) and one under the values joined by '|'; every other key and dictionary is left alone *)
Theorem C03_tally_arg_step : forall q blanks AND s l i,
  let d := 100 + Z.of_nat i in let key := tally_text l i in let r := do_agg q blanks AND s l (TallyS i) in
  snd r = true /\
  (is_blank_text key = true -> fst r = s) /\
  (is_blank_text key = false ->
     dget (x mx (fst r)) d key = Some (VI (num_of (dget (x mx s) d key) + 1)) /\
     (forall key', key <> key' -> dget (x mx (fst r)) d key' = dget (x mx s) d key')).
Proof. exact tally_arg_step. Qed.
Print Assumptions C03_tally_arg_step.
Theorem C03_tally_combined_step : forall q blanks AND s l i j,
  let key := tally_text l i ++ [124] ++ tally_text l j in let r := do_agg q blanks AND s l (TallyC i j) in
  snd r = true /\ dget (x mx (fst r)) 99 key = Some (VI (num_of (dget (x mx s) 99 key) + 1)) /\
  (forall key', key <> key' -> dget (x mx (fst r)) 99 key' = dget (x mx s) 99 key') /\
  (forall d key', d <> 99 -> dget (x mx (fst r)) d key' = dget (x mx s) d key').
Proof. exact tally_combined_step. Qed.
Print Assumptions C03_tally_combined_step.

Example C03_tally_once_nonvacuous :
  tally_once 1 [CB (BExists 0); CAgg (Tally 1); CAgg (First 7 1); CAct (Agg (AssignK 5 [116] NCount))] /\
  wf (From 1) /\ parse false (ast_of (From 1)) = Some (mkSc [] (Some 1) None true).
Proof.
  split; [|split; [vm_compute; auto|vm_compute; reflexivity]].
  exists [CB (BExists 0)], [CAgg (First 7 1); CAct (Agg (AssignK 5 [116] NCount))].
  split; [reflexivity|]. split; repeat constructor; unfold writes_comp; cbn [comp_agg writes]; discriminate.
Qed.

(** count.d(cond) against its specification: in ANY CORE csvpath that has '@v = count.nm(cond)' once at top level (cond over the
    line alone) and names the dictionary nowhere else, after a run over ANY file with ANY scan the entry True / False holds the
    number of SCANNED lines on which cond holds / does not hold — whatever the other components decide about those lines: the
    assignment is not gated on the line matching — and the two entries add up to the number of scanned lines *)
Theorem C03_count_if_counts_scanned : forall q blanks AND sh (cf : cfg) E cs (recs : list (line ustring)) x0 v nm c key (s0 : cst),
  wf sh -> parse false (ast_of sh) = Some (scanner cf) -> q_scan cf = false -> end_line cf = Some E ->
  end_of ustring recs = Some E -> will_run cf = true -> count_if_once v nm c cs -> bl c = true ->
  num_of (dget (x mx (st ustring mx (run_from ustring mx (core_m q blanks AND cs (Some E)) cf (rs0 mx x0) None recs))) nm key) =
  num_of (dget x0 nm key) + count_answers q blanks c key s0 (filter (want ustring sh) (number 0 recs)).
Proof. exact count_if_counts_scanned. Qed.
Print Assumptions C03_count_if_counts_scanned.
Theorem C03_count_if_total : forall q blanks AND sh (cf : cfg) E cs (recs : list (line ustring)) x0 v nm c (s0 : cst),
  wf sh -> parse false (ast_of sh) = Some (scanner cf) -> q_scan cf = false -> end_line cf = Some E ->
  end_of ustring recs = Some E -> will_run cf = true -> count_if_once v nm c cs -> bl c = true ->
  dget x0 nm py_true = None -> dget x0 nm py_false = None ->
  let fin := x mx (st ustring mx (run_from ustring mx (core_m q blanks AND cs (Some E)) cf (rs0 mx x0) None recs)) in
  num_of (dget fin nm py_true) + num_of (dget fin nm py_false) = Z.of_nat (length (filter (want ustring sh) (number 0 recs))).
Proof. exact count_if_total. Qed.
Print Assumptions C03_count_if_total.
Example C03_count_if_nonvacuous :
  (* [ @v1 = count.d2(gt(#0, 2))  #1 == "a" ] over 3, 5, 1 (column 0) / a, b, a (column 1), scan 1*: 2 lines answer True, 1 False; 2 lines match *)
  let prog := [CAct (Agg (CountIf 1 2 (BCmp Gt (NHdr 0) (NLit 2)))); CB (BEqEqS (SHdr 1) (SLit [97]))] in
  let rows := [[[110]; [116]]; [[51]; [97]]; [[53]; [98]]; [[49]; [97]]] in
  let o := core_run clean true false (mkSc [] (Some 1) None true) prog rows in
  dicts (x mx (st ustring mx o)) = [(2, [(py_true, VI 2); (py_false, VI 1)])] /\ vars (x mx (st ustring mx o)) = [(1, VI 1)] /\
  match_count mx (st ustring mx o) = 2 /\ count_if_once 1 2 (BCmp Gt (NHdr 0) (NLit 2)) prog /\ bl (BCmp Gt (NHdr 0) (NLit 2)) = true.
Proof.
  cbn zeta. split; [vm_compute; reflexivity|]. split; [vm_compute; reflexivity|]. split; [vm_compute; reflexivity|]. split; [|reflexivity].
  exists [], [CB (BEqEqS (SHdr 1) (SLit [97]))]. split; [reflexivity|]. split; repeat constructor; unfold writes_comp; cbn [comp_agg writes]; discriminate.
Qed.

(** push_distinct(): one evaluation pushes the value unless the stack already holds an equal one (Python's ==: 3 == 3.0, "3" != 3),
    and a stack that only push_distinct() writes never holds two equal values — after ANY run (any csvpath around it, any file, scan,
    entry point, budget) *)
Theorem C03_push_distinct_step : forall q blanks AND s l k e,
  let st := match lookup k (stacks (x mx s)) with Some st => st | None => [] end in
  let v := nvalue blanks s l e in
  let s' := do_action q blanks AND s l (PushD k e) in
  lookup k (stacks (x mx s')) = Some (if existsb (val_eqb v) st then st else st ++ [v]) /\
  (forall k', k <> k' -> lookup k' (stacks (x mx s')) = lookup k' (stacks (x mx s))) /\
  vars (x mx s') = vars (x mx s) /\ dicts (x mx s') = dicts (x mx s).
Proof. exact push_distinct_step. Qed.
Print Assumptions C03_push_distinct_step.
Theorem C03_pushed_distinct_stays_distinct : forall q AND cs (e : option Z) blanks (c : cfg) s0 bud (recs : list (line ustring)) k,
  Forall (pushd_owns k) cs -> stack_distinct k (x mx s0) ->
  stack_distinct k (x mx (st ustring mx (run_from ustring mx (core_m q blanks AND cs e) c s0 bud recs))).
Proof. exact pushed_distinct_stays_distinct. Qed.
Print Assumptions C03_pushed_distinct_stays_distinct.

Example C03_bookkeeping_nonvacuous :
  (* [ tally(#1)  first.d7(#1)  counter.v8(2)  sum.v9(#0)  @d5.tot = count() ] over 3, 5, 3 (column 0) / a, b, a (column 1) *)
  let prog := [CAgg (Tally 1); CAgg (First 7 1); CAgg (Counter 8 2); CAgg (Sum 9 (NHdr 0)); CAct (Agg (AssignK 5 [116] NCount))] in
  let rows := [[[110]; [116]]; [[51]; [97]]; [[53]; [98]]; [[51]; [97]]] in
  let o := core_run clean true false (mkSc [] (Some 1) None true) prog rows in
  dicts (x mx (st ustring mx o)) = [(101, [([97], VI 2); ([98], VI 1)]); (7, [([97], VI 1); ([98], VI 2)]); (5, [([116], VI 3)])] /\
  vars (x mx (st ustring mx o)) = [(8, VI 6); (9, VF 11)] /\ match_count mx (st ustring mx o) = 2 /\
  Forall (first_owns 7) prog.
Proof. cbn zeta. repeat split; try (vm_compute; reflexivity). repeat constructor; unfold first_owns; cbn [comp_agg writes]; try discriminate; try exact I. Qed.

Example C03_nonvacuous :
  (* [ @v = #1  @w = add(@v, 1)  push("k", @w)  gt(#1, 5) -> @p = pop("k") ] *)
  let prog := [CAct (AssignN 1 (NHdr 1)); CAct (AssignN 2 (NAdd (NVar 1) (NLit 1))); CAct (PushN 7 (NVar 2)); CWhen (BCmp Gt (NHdr 1) (NLit 5)) (Pop 3 7)] in
  let rows := [[[105]; [110]]; [[97]; [53]]; [[98]; [49; 48]]; [[99]; [50]]] in
  let o := core_run clean true false (mkSc [] (Some 1) None true) prog rows in
  vars (x mx (st ustring mx o)) = [(1, VS [50]); (2, VF 3); (3, VF 11)] /\ stacks (x mx (st ustring mx o)) = [(7, [VF 6; VF 3])] /\
  match_count mx (st ustring mx o) = 1.
Proof. vm_compute. repeat split. Qed.
