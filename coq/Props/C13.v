(** Property C13 — stop, skip, advance and last control the run as documented.
    Statements only; proofs in Match/AdjProofs.v, Match/CtlProofs.v, Run/RunControl.v.
    The adjudication theorems hold for EVERY component evaluator (any functions), the run-loop
    theorems for EVERY matcher; Match/Ctl.v instantiates both with the control functions. *)
From Coq Require Import ZArith List Bool.
From V Require Import Scan.ScanModel Run.RunLoop Run.RunFacts Run.RunControl
  Match.Adjudicate Match.AdjProofs Match.Ctl Match.CtlProofs Scan.PySem Scan.ScanSrc Scan.ScanSrcEq Run.RunSem Run.RunSrc Run.RunSrcEq.
Import ListNotations.
Open Scope Z_scope.

Section AnyEvaluator.
  Variable S comp : Type.
  Variable stp skp : S -> bool.
  Variable clear_skip : S -> S.
  Variable eval : comp -> S -> S * bool.
  Variable clear_errors : S -> S.
  Notation adj := (adj S comp stp skp clear_skip eval clear_errors).
  Notation seq_eval := (seq_eval S comp eval).
  Notation calm := (calm S comp stp skp eval).

  (** no stop/skip on the line: every component runs, left to right; AND/OR of the votes *)
  Theorem C13_calm_line : forall q AND cs s f, stp s = false -> skp s = false -> calm cs s ->
    adj q AND cs s f = (clear_errors (fst (seq_eval AND cs s f)), negb (snd (seq_eval AND cs s f)), cs).
  Proof. exact (adj_all_calm S comp stp skp clear_skip eval clear_errors). Qed.

  (** stop() fires in component c: the components evaluated on the line are exactly pre ++ [c],
      the state is the one c left, and the line can only be returned if c was the last component *)
  Theorem C13_stop_line : forall q AND pre c post s f, stp s = false -> skp s = false -> calm pre s ->
    let s1 := fst (seq_eval AND pre s f) in let f1 := snd (seq_eval AND pre s f) in
    stp (fst (eval c s1)) = true -> skp (fst (eval c s1)) = false ->
    adj q AND (pre ++ c :: post) s f =
      (clear_errors (fst (eval c s1)),
       match post with [] => negb (upd AND f1 (snd (eval c s1))) | _ => false end,
       pre ++ [c]).
  Proof. exact (adj_stop S comp stp skp clear_skip eval clear_errors). Qed.

  (** skip() fires in component c: the line does not match, nothing after c runs, and the skip
      flag is down again when the line ends — also when c is the last component *)
  Theorem C13_skip_line : forall AND pre c post s f, stp s = false -> skp s = false -> calm pre s ->
    let s1 := fst (seq_eval AND pre s f) in
    stp (fst (eval c s1)) = false -> skp (fst (eval c s1)) = true ->
    adj false AND (pre ++ c :: post) s f = (clear_errors (clear_skip (fst (eval c s1))), false, pre ++ [c]).
  Proof. exact (adj_skip S comp stp skp clear_skip eval clear_errors). Qed.

  Theorem C13_evaluated_is_prefix : forall q AND cs s f, exists rest, cs = snd (adj q AND cs s f) ++ rest.
  Proof. exact (adj_prefix S comp stp skp clear_skip eval clear_errors). Qed.
End AnyEvaluator.
Print Assumptions C13_calm_line.
Print Assumptions C13_stop_line.
Print Assumptions C13_skip_line.

Section AnyMatcher.
  Variable C X : Type.
  Variable m : rs X -> line C -> rs X * bool.

  (** after a record that leaves the run stopped no later record is read, evaluated or returned *)
  Theorem C13_stop_run : forall c (a : ls C X) nl rest, halted C X a = false -> budget C X a = None ->
    stopped X (fst (consider C X m c (track X (st C X a) (fst nl)) (snd nl))) = true ->
    fold_left (step C X m c) rest (step C X m c a nl) = step C X m c a nl /\
    halted C X (step C X m c a nl) = true /\ finalized C X (step C X m c a nl) = true.
  Proof. exact (stopped_halts C X m). Qed.

  (** advance(n) pending: the next scanned line passes without evaluation, match count or effect *)
  Theorem C13_advance : forall c s l, 0 < adv X s -> is_nil l = false -> includes (scanner c) (pln X s) = true ->
    let s' := fst (consider C X m c s l) in let e := snd (consider C X m c s l) in
    x X s' = x X s /\ match_count X s' = match_count X s /\ scan_count X s' = scan_count X s + 1 /\
    adv X s' = adv X s - 1 /\ frozen X s' = frozen X s /\
    stopped X s' = (stopped X s || is_last (q_scan c) (scanner c) (end_line c) (pln X s)) /\
    ev_offered e = true /\ ev_evaluated e = false /\ ev_vote e = false /\ ev_returned e = cwnm c.
  Proof. exact (consider_advancing C X m). Qed.

  (** last(): a line on which it is true is the file's final record or stops the run, hence it is
      true on at most one evaluated line per run *)
  Theorem C13_last_once : forall c s l, is_nil l = false -> includes (scanner c) (pln X s) = true ->
    last_true c (pln X s) = true ->
    end_line c = Some (pln X s) \/ stopped X (fst (consider C X m c s l)) = true.
  Proof. exact (last_once C X m). Qed.

  (** the file ends in a blank record: the matcher runs once more on a frozen path, no line is returned *)
  Theorem C13_blank_last : forall c s, end_line c = Some (pln X s) ->
    let s' := fst (consider C X m c s []) in let e := snd (consider C X m c s []) in
    s' = fst (m (set_frozen X s) []) /\ ev_returned e = false /\ ev_offered e = false /\ ev_lastblank e = true.
  Proof. exact (blank_last_record C X m). Qed.
End AnyMatcher.
Print Assumptions C13_stop_run.
Print Assumptions C13_advance.
Print Assumptions C13_last_once.
Print Assumptions C13_blank_last.

(** ... and on that frozen extra evaluation only the 'last() -> ...' components run *)
Theorem C13_blank_last_only_lasts : forall c cs s, do_lasts c cs s = do_lasts c (filter is_last_when cs) s.
Proof. exact do_lasts_only_lasts. Qed.
Print Assumptions C13_blank_last_only_lasts.

(** the control functions do what the hypotheses above ask of them *)
Theorem C13_ctl_functions : forall c s, frozen mx s = false ->
  stopped mx (fst (eval c (CAct AStop) s)) = true /\ skp (fst (eval c (CAct ASkip) s)) = true /\
  (forall i, stopped mx (fst (eval c (CAct (APush i)) s)) = stopped mx s /\ skp (fst (eval c (CAct (APush i)) s)) = skp s).
Proof.
  intros c s H. split; [apply stop_sets_stopped; exact H|]. split; [apply skip_sets_skip; exact H|]. intros i. apply push_is_calm.
Qed.
Print Assumptions C13_ctl_functions.

(** D8 (fixed in /repo): with the deviation switch on, skip() as the final component returns its
    own line and swallows the next one; the clean model does neither.
    Program: [ push("s1", line_number())  eq(line_number(), 2) -> skip() ] over 5 records. *)
Theorem C13_skip_last_leaks_refuted :
  let prog := [CAct (APush 1); CWhen (EqLine 2) false ASkip] in
  let all := mkSc [] None None true in
  let quirky := ctl_run true false all prog [false; false; false; false; false] in
  let clean := ctl_run false false all prog [false; false; false; false; false] in
  map snd (log (x mx (st Z mx quirky))) = [0; 1; 2; 4] /\
  map snd (log (x mx (st Z mx clean))) = [0; 1; 2; 3; 4] /\
  returned Z mx clean = [] /\ returned Z mx quirky = [[2]].
Proof. vm_compute. repeat split. Qed.
Print Assumptions C13_skip_last_leaks_refuted.

(** Non-vacuity: stop in the middle of line 3 of a 5-record file whose record 2 is blank: the
    push after stop() does not run on line 3, line 3 is not returned, line 4 is never read. *)
(** Scanner.is_last as it is WRITTEN in csvpath/scanning/scanner.py (translated into Scan/ScanSrc.v; Python semantics of Scan/PySem.v,
    max() of an empty list and ordering a None being errors) returns exactly the model's answer and never raises — the function that
    decides where last() fires and where the run stops.  Re-checked against the source of the tree under test on every run. *)
Theorem C13_is_last_source : forall (s : sc) (line : Z) (e : option Z),
  is_last_src (PInt line) (of_oz (from_line s)) (of_oz (to_line s)) (PBool (all_lines s)) (PList (these s)) (of_oz e) = PBool (is_last false s e line).
Proof. exact is_last_src_eq. Qed.
Print Assumptions C13_is_last_source.

(** the source itself: CsvPath._consider_line as translated from csvpath/csvpath.py (Run/RunSrc.v, regenerated on every run) — with the
    source's own Scanner.includes / Scanner.is_last, raise_match_count_if, stop() and LineMonitor.is_last_line_and_blank — is the model's
    per-record step [consider], for every matcher that leaves the line monitor alone, every scanner state, run state and record: the same
    state afterwards (scan_count, match_count, advance_count, stopped, frozen, the matcher's own state), the same "yield this line", never a raise.
    All three entry points run this one step per record, which is why they are the same run; stop / advance / last act through it. *)
Theorem C13_step_source : forall (C X : Type) (m : rs X -> list C -> rs X * bool),
  (forall s l, pln X (fst (m s l)) = pln X s) ->
  forall (c : cfg) (s : rs X) (l : list C), q_scan c = false ->
  consider_line_src C X m (of_oz (from_line (scanner c))) (of_oz (to_line (scanner c))) (PBool (all_lines (scanner c))) (PList (these (scanner c)))
    (of_oz (end_line c)) (cwnm c) true s l
  = Some (fst (consider C X m c s l), PBool (ev_returned (snd (consider C X m c s l)))).
Proof. exact consider_line_src_eq. Qed.
Print Assumptions C13_step_source.

(** ... in particular with the control fragment's matcher (stop, skip, advance, last, fail, push — Match/Ctl.v), which leaves the line monitor
    alone (ctl_m_pln): the run-loop theorems C13_* about ctl_run are about the source's per-record step driving that matcher *)
Theorem C13_ctl_step_source : forall (c : cfg) q_skip cs (s : rs mx) (l : list Z), q_scan c = false ->
  consider_line_src Z mx (ctl_m c q_skip cs) (of_oz (from_line (scanner c))) (of_oz (to_line (scanner c))) (PBool (all_lines (scanner c)))
    (PList (these (scanner c))) (of_oz (end_line c)) (cwnm c) true s l
  = Some (fst (consider Z mx (ctl_m c q_skip cs) c s l), PBool (ev_returned (snd (consider Z mx (ctl_m c q_skip cs) c s l)))).
Proof. intros c q_skip cs s l Hq. apply consider_line_src_eq; [|exact Hq]. intros s0 l0. apply ctl_m_pln. Qed.
Print Assumptions C13_ctl_step_source.

Example C13_nonvacuous :
  let prog := [CAct (APush 1); CWhen (EqLine 3) true AStop; CAct (APush 2)] in
  let o := ctl_run false false (mkSc [] None None true) prog [false; false; true; false; false] in
  log (x mx (st Z mx o)) = [(1, 0); (2, 0); (1, 1); (2, 1); (1, 3)] /\
  stopped mx (st Z mx o) = true /\ returned Z mx o = [[0]; [1]].
Proof. vm_compute. repeat split. Qed.
