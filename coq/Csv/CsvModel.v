(** Model of Python 3.12's csv.writer (QUOTE_MINIMAL, doublequote, no escapechar,
    lineterminator "\r\n"), of reading a file in text mode with universal newlines, and of
    csv.reader (non-strict) — the state machine of Modules/_csv.c — over code points.
    No proofs in this file. *)
From Coq Require Import ZArith List Bool.
Import ListNotations.
Open Scope Z_scope.

Definition ustring := list Z.            (* a Python str: its code points *)
Definition CR : Z := 13.
Definition LF : Z := 10.

Record dialect := mkDialect { delim : Z; quote : Z }.

(** * writer *)

Definition needs_quote (d : dialect) (c : Z) : bool :=
  (c =? delim d) || (c =? quote d) || (c =? CR) || (c =? LF).

Fixpoint esc_field (d : dialect) (f : ustring) : ustring :=
  match f with
  | [] => []
  | c :: r => if c =? quote d then c :: c :: esc_field d r else c :: esc_field d r
  end.

Definition write_field (d : dialect) (f : ustring) : ustring :=
  if existsb (needs_quote d) f then quote d :: esc_field d f ++ [quote d] else f.

Fixpoint join_fields (d : dialect) (fs : list ustring) : ustring :=
  match fs with
  | [] => []
  | [f] => write_field d f
  | f :: r => write_field d f ++ delim d :: join_fields d r
  end.

(** a record with a single empty field is written as [""] *)
Definition write_row (d : dialect) (row : list ustring) : ustring :=
  match row with
  | [[]] => [quote d; quote d; CR; LF]
  | _ => join_fields d row ++ [CR; LF]
  end.

Definition csv_write (d : dialect) (rows : list (list ustring)) : ustring :=
  flat_map (write_row d) rows.

(** * open(path, "r") : universal newlines, CRLF and lone CR become LF *)
Fixpoint universal_newlines (t : ustring) : ustring :=
  match t with
  | [] => []
  | c :: r =>
      if c =? CR then
        match r with
        | c2 :: r2 => if c2 =? LF then LF :: universal_newlines r2 else LF :: universal_newlines r
        | [] => [LF]
        end
      else c :: universal_newlines r
  end.

(** * reader *)
Inductive rstate := START_RECORD | START_FIELD | IN_FIELD | IN_QUOTED | QUOTE_IN_QUOTED | EAT_CRNL.

Record reader := mkReader {
  state : rstate;
  field : ustring;                (* reversed *)
  fields : list ustring;          (* reversed *)
  records : list (list ustring)   (* reversed *)
}.

Definition reader0 : reader := mkReader START_RECORD [] [] [].

Definition save_field (r : reader) : reader :=
  mkReader (state r) [] (rev (field r) :: fields r) (records r).
Definition add_char (c : Z) (r : reader) : reader :=
  mkReader (state r) (c :: field r) (fields r) (records r).
Definition set_state (s : rstate) (r : reader) : reader :=
  mkReader s (field r) (fields r) (records r).

Definition is_nl (c : Z) : bool := (c =? LF) || (c =? CR).

(** parse_process_char for an ordinary character *)
Definition process_char_in (d : dialect) (st : rstate) (c : Z) (r : reader) : reader :=
  match st with
  | START_RECORD =>
      if is_nl c then set_state EAT_CRNL r
      else (* fall through to START_FIELD *)
        if c =? quote d then set_state IN_QUOTED r
        else if c =? delim d then set_state START_FIELD (save_field r)
        else set_state IN_FIELD (add_char c r)
  | START_FIELD =>
      if is_nl c then set_state EAT_CRNL (save_field r)
      else if c =? quote d then set_state IN_QUOTED r
      else if c =? delim d then set_state START_FIELD (save_field r)
      else set_state IN_FIELD (add_char c r)
  | IN_FIELD =>
      if is_nl c then set_state EAT_CRNL (save_field r)
      else if c =? delim d then set_state START_FIELD (save_field r)
      else add_char c r
  | IN_QUOTED =>
      if c =? quote d then set_state QUOTE_IN_QUOTED r else add_char c r
  | QUOTE_IN_QUOTED =>
      if c =? quote d then set_state IN_QUOTED (add_char c r)
      else if c =? delim d then set_state START_FIELD (save_field r)
      else if is_nl c then set_state EAT_CRNL (save_field r)
      else set_state IN_FIELD (add_char c r)
  | EAT_CRNL => r   (* '\n' / '\r' are eaten; anything else is an error the model does not reach:
                       after universal newlines a line ends at its first LF *)
  end.
Definition process_char (d : dialect) (c : Z) (r : reader) : reader := process_char_in d (state r) c r.

(** parse_process_char(EOL) at the end of each line, then Reader_iternext's test
    "state == START_RECORD => the record is complete" *)
Definition process_eol (r : reader) : reader :=
  let r1 :=
    match state r with
    | START_RECORD => r
    | START_FIELD => set_state START_RECORD (save_field r)
    | IN_FIELD => set_state START_RECORD (save_field r)
    | IN_QUOTED => r
    | QUOTE_IN_QUOTED => set_state START_RECORD (save_field r)
    | EAT_CRNL => set_state START_RECORD r
    end in
  match state r1 with
  | START_RECORD => mkReader START_RECORD [] [] (rev (fields r1) :: records r1)
  | _ => r1
  end.

(** feed the text; a line ends after each LF (file iteration), where EOL is processed *)
Fixpoint feed (d : dialect) (t : ustring) (midline : bool) (r : reader) : reader * bool :=
  match t with
  | [] => (r, midline)
  | c :: rest =>
      let r1 := process_char d c r in
      if c =? LF then feed d rest false (process_eol r1) else feed d rest true r1
  end.

(** end of input: a last line without LF still gets its EOL; a record left open inside a
    quoted field is returned as it is (non-strict reader) *)
Definition finish_read (rm : reader * bool) : list (list ustring) :=
  let (r, midline) := rm in
  let r1 := if midline then process_eol r else r in
  let r2 :=
    match state r1 with
    | START_RECORD => r1
    | _ => mkReader START_RECORD [] [] (rev (rev (field r1) :: fields r1) :: records r1)
    end in
  rev (records r2).

Definition csv_read (d : dialect) (t : ustring) : list (list ustring) :=
  finish_read (feed d t false reader0).

(** what the data pass of csvpath sees for a file with these bytes (as text) *)
Definition read_file (d : dialect) (t : ustring) : list (list ustring) :=
  csv_read d (universal_newlines t).

Definition dialect_ok (d : dialect) : Prop :=
  delim d <> quote d /\ delim d <> CR /\ delim d <> LF /\ quote d <> CR /\ quote d <> LF.

Definition no_cr (rows : list (list ustring)) : Prop :=
  Forall (Forall (fun f => ~ In CR f)) rows.
