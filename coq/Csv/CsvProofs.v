(** Round-trip theorem for the csv model: reading back (text mode, universal newlines,
    csv.reader) what csv.writer wrote gives exactly the rows, for every sane dialect and
    all rows whose cells contain no CR. *)
From Coq Require Import ZArith List Bool Lia.
From V Require Import Csv.CsvModel.
Import ListNotations.
Open Scope Z_scope.

(** * 1. the writer's output, with the terminator factored out *)

Definition row_body (d : dialect) (row : list ustring) : ustring :=
  match row with
  | [[]] => [quote d; quote d]
  | _ => join_fields d row
  end.

Lemma write_row_body : forall d row, write_row d row = row_body d row ++ [CR; LF].
Proof.
  intros d row. destruct row as [|[|c f] [|g rest]]; reflexivity.
Qed.

Definition csv_write_lf (d : dialect) (rows : list (list ustring)) : ustring :=
  flat_map (fun row => row_body d row ++ [LF]) rows.

(** * 2. universal newlines *)

Lemma un_crlf : forall a b, ~ In CR a ->
  universal_newlines (a ++ CR :: LF :: b) = a ++ LF :: universal_newlines b.
Proof.
  induction a as [|c a IHa]; intros b Hn.
  - reflexivity.
  - cbn [app universal_newlines].
    destruct (Z.eqb_spec c CR) as [Heq|Hne].
    + exfalso. apply Hn. left. exact Heq.
    + f_equal. apply IHa. intro Hin. apply Hn. right. exact Hin.
Qed.

Lemma esc_in : forall d f x, In x (esc_field d f) -> In x f.
Proof.
  intros d f x. induction f as [|c f IHf]; intros Hin.
  - exact Hin.
  - cbn [esc_field] in Hin. destruct (c =? quote d).
    + destruct Hin as [Hin|[Hin|Hin]]; [left; exact Hin|left; exact Hin|right; auto].
    + destruct Hin as [Hin|Hin]; [left; exact Hin|right; auto].
Qed.

Lemma wf_in : forall d f x, In x (write_field d f) -> x = quote d \/ In x f.
Proof.
  intros d f x Hin. unfold write_field in Hin.
  destruct (existsb (needs_quote d) f).
  - destruct Hin as [Hin|Hin]; [left; auto|].
    apply in_app_or in Hin. destruct Hin as [Hin|Hin].
    + right. eapply esc_in; eauto.
    + destruct Hin as [Hin|[]]. left; auto.
  - right; exact Hin.
Qed.

Lemma jf_in : forall d fs x, In x (join_fields d fs) ->
  x = quote d \/ x = delim d \/ exists f, In f fs /\ In x f.
Proof.
  intros d fs x. induction fs as [|f fs IHfs]; intros Hin.
  - destruct Hin.
  - destruct fs as [|g rest].
    + cbn [join_fields] in Hin. apply wf_in in Hin. destruct Hin as [Hin|Hin]; [left; auto|].
      right; right. exists f. split; [left; reflexivity|exact Hin].
    + change (join_fields d (f :: g :: rest))
        with (write_field d f ++ delim d :: join_fields d (g :: rest)) in Hin.
      apply in_app_or in Hin. destruct Hin as [Hin|[Hin|Hin]].
      * apply wf_in in Hin. destruct Hin as [Hin|Hin]; [left; auto|].
        right; right. exists f. split; [left; reflexivity|exact Hin].
      * right; left; auto.
      * apply IHfs in Hin. destruct Hin as [Hin|[Hin|[f' [Hf' Hx]]]]; auto.
        right; right. exists f'. split; [right; exact Hf'|exact Hx].
Qed.

Lemma body_in : forall d row x, In x (row_body d row) ->
  x = quote d \/ x = delim d \/ exists f, In f row /\ In x f.
Proof.
  intros d row x Hin.
  destruct row as [|[|c f] [|g rest]]; try (apply jf_in; exact Hin).
  cbn [row_body] in Hin. destruct Hin as [Hin|[Hin|[]]]; left; auto.
Qed.

Lemma body_no_cr : forall d row, dialect_ok d -> Forall (fun f => ~ In CR f) row ->
  ~ In CR (row_body d row).
Proof.
  intros d row (H1 & H2 & H3 & H4 & H5) Hrow Hin.
  apply body_in in Hin. destruct Hin as [Hin|[Hin|[f [Hf Hx]]]].
  - apply H4; auto.
  - apply H2; auto.
  - rewrite Forall_forall in Hrow. apply (Hrow f Hf Hx).
Qed.

Lemma un_write : forall d rows, dialect_ok d -> no_cr rows ->
  universal_newlines (csv_write d rows) = csv_write_lf d rows.
Proof.
  intros d rows Hd. induction rows as [|row rows IH]; intros Hn.
  - reflexivity.
  - inversion Hn as [|? ? Hrow Hrows]; subst.
    unfold csv_write, csv_write_lf. cbn [flat_map].
    rewrite write_row_body. rewrite <- !app_assoc. cbn [app].
    rewrite un_crlf by (apply body_no_cr; assumption).
    f_equal. f_equal. apply IH. exact Hrows.
Qed.

(** * 3. the reader, without the midline flag *)

Definition step (d : dialect) (c : Z) (r : reader) : reader :=
  let r1 := process_char d c r in
  if c =? LF then process_eol r1 else r1.

Fixpoint feedr (d : dialect) (t : ustring) (r : reader) : reader :=
  match t with
  | [] => r
  | c :: rest => feedr d rest (step d c r)
  end.

Lemma feed_fst : forall d t m r, fst (feed d t m r) = feedr d t r.
Proof.
  intros d t. induction t as [|c t IHt]; intros m r.
  - reflexivity.
  - cbn [feed feedr]. unfold step. destruct (c =? LF); apply IHt.
Qed.

Lemma feed_snd_lf : forall d a m r, snd (feed d (a ++ [LF]) m r) = false.
Proof.
  intros d a. induction a as [|c a IHa]; intros m r.
  - reflexivity.
  - cbn [app feed]. destruct (c =? LF); apply IHa.
Qed.

Lemma feed_app : forall d a b m r,
  feed d (a ++ b) m r = let (r', m') := feed d a m r in feed d b m' r'.
Proof.
  intros d a. induction a as [|c a IHa]; intros b m r.
  - reflexivity.
  - cbn [app feed]. destruct (c =? LF); apply IHa.
Qed.

Lemma feedr_app : forall d a b r, feedr d (a ++ b) r = feedr d b (feedr d a r).
Proof.
  intros d a. induction a as [|c a IHa]; intros b r.
  - reflexivity.
  - cbn [app feedr]. apply IHa.
Qed.

Lemma feedr_cons : forall d c t r, feedr d (c :: t) r = feedr d t (step d c r).
Proof. reflexivity. Qed.

(** * 4. single steps *)

Ltac zcases :=
  repeat match goal with
         | |- context [Z.eqb ?a ?b] => destruct (Z.eqb_spec a b)
         end.

Ltac step_tac :=
  unfold step, process_char, process_char_in, process_eol, is_nl, set_state, save_field, add_char;
  cbn [state field fields records]; unfold CR, LF in *;
  zcases; cbn [orb state field fields records]; try reflexivity; try (exfalso; lia).

Section Reader.
  Variable d : dialect.
  Hypothesis Hd : dialect_ok d.

  Let Hdq : delim d <> quote d. Proof. apply Hd. Qed.
  Let Hdl : delim d <> 10. Proof. apply Hd. Qed.
  Let Hdc : delim d <> 13. Proof. apply Hd. Qed.
  Let Hql : quote d <> 10. Proof. apply Hd. Qed.
  Let Hqc : quote d <> 13. Proof. apply Hd. Qed.

  Definition plain (c : Z) : Prop :=
    c <> delim d /\ c <> quote d /\ c <> 13 /\ c <> 10.

  Lemma needs_quote_false : forall c, needs_quote d c = false -> plain c.
  Proof.
    intros c H. unfold needs_quote, CR, LF in H. unfold plain.
    repeat (apply orb_false_iff in H; destruct H as [H ?]).
    repeat match goal with
           | H : (_ =? _) = false |- _ => apply Z.eqb_neq in H
           end.
    auto.
  Qed.

  (** ordinary character *)
  Lemma step_plain_start : forall st c flds recs, plain c ->
    st = START_RECORD \/ st = START_FIELD ->
    step d c (mkReader st [] flds recs) = mkReader IN_FIELD [c] flds recs.
  Proof.
    intros st c flds recs (P1 & P2 & P3 & P4) [-> | ->]; unfold CR, LF in *; step_tac.
  Qed.

  Lemma step_plain_in : forall c fld flds recs, plain c ->
    step d c (mkReader IN_FIELD fld flds recs) = mkReader IN_FIELD (c :: fld) flds recs.
  Proof.
    intros c fld flds recs (P1 & P2 & P3 & P4); unfold CR, LF in *; step_tac.
  Qed.

  (** opening quote *)
  Lemma step_quote_start : forall st flds recs,
    st = START_RECORD \/ st = START_FIELD ->
    step d (quote d) (mkReader st [] flds recs) = mkReader IN_QUOTED [] flds recs.
  Proof.
    intros st flds recs [-> | ->]; unfold CR, LF in *; step_tac.
  Qed.

  (** inside quotes *)
  Lemma step_inq_other : forall c fld flds recs, c <> quote d ->
    step d c (mkReader IN_QUOTED fld flds recs) = mkReader IN_QUOTED (c :: fld) flds recs.
  Proof.
    intros c fld flds recs P; unfold CR, LF in *; step_tac.
  Qed.

  Lemma step_inq_quote : forall fld flds recs,
    step d (quote d) (mkReader IN_QUOTED fld flds recs) = mkReader QUOTE_IN_QUOTED fld flds recs.
  Proof.
    intros fld flds recs; unfold CR, LF in *; step_tac.
  Qed.

  Lemma step_qiq_quote : forall fld flds recs,
    step d (quote d) (mkReader QUOTE_IN_QUOTED fld flds recs) =
    mkReader IN_QUOTED (quote d :: fld) flds recs.
  Proof.
    intros fld flds recs; unfold CR, LF in *; step_tac.
  Qed.

  (** delimiter *)
  Lemma step_delim : forall st fld flds recs,
    st <> IN_QUOTED -> st <> EAT_CRNL ->
    step d (delim d) (mkReader st fld flds recs) = mkReader START_FIELD [] (rev fld :: flds) recs.
  Proof.
    intros st fld flds recs H1 H2; unfold CR, LF in *; destruct st; try congruence; step_tac.
  Qed.

  (** end of line *)
  Lemma step_lf : forall st fld flds recs,
    st = START_FIELD \/ st = IN_FIELD \/ st = QUOTE_IN_QUOTED ->
    step d LF (mkReader st fld flds recs) =
    mkReader START_RECORD [] [] (rev (rev fld :: flds) :: recs).
  Proof.
    intros st fld flds recs [-> | [-> | ->]]; unfold CR, LF in *; step_tac.
  Qed.

  Lemma step_lf_start_record : forall recs,
    step d LF (mkReader START_RECORD [] [] recs) = mkReader START_RECORD [] [] ([] :: recs).
  Proof.
    intros recs; unfold CR, LF in *; step_tac.
  Qed.

  (** * 5. fields *)

  Lemma feedr_plain : forall f fld flds recs,
    existsb (needs_quote d) f = false ->
    feedr d f (mkReader IN_FIELD fld flds recs) = mkReader IN_FIELD (rev f ++ fld) flds recs.
  Proof.
    induction f as [|c f IHf]; intros fld flds recs H.
    - reflexivity.
    - cbn [existsb] in H. apply orb_false_iff in H. destruct H as [Hc Hf].
      rewrite feedr_cons, step_plain_in by (apply needs_quote_false; exact Hc).
      rewrite IHf by exact Hf. cbn [rev]. rewrite <- app_assoc. reflexivity.
  Qed.

  Lemma feedr_esc : forall f fld flds recs,
    feedr d (esc_field d f) (mkReader IN_QUOTED fld flds recs) =
    mkReader IN_QUOTED (rev f ++ fld) flds recs.
  Proof.
    induction f as [|c f IHf]; intros fld flds recs.
    - reflexivity.
    - cbn [esc_field rev]. rewrite <- app_assoc. cbn [app].
      destruct (Z.eqb_spec c (quote d)) as [-> | Hne].
      + rewrite !feedr_cons, step_inq_quote, step_qiq_quote. apply IHf.
      + rewrite feedr_cons, step_inq_other by exact Hne. apply IHf.
  Qed.

  (** after a written field the reader is in a state [st'] that is neither IN_QUOTED nor
      EAT_CRNL, holding exactly the field's characters *)
  Lemma feedr_field : forall st f flds recs,
    st = START_RECORD \/ st = START_FIELD ->
    exists st',
      feedr d (write_field d f) (mkReader st [] flds recs) = mkReader st' (rev f) flds recs /\
      ((f = [] /\ st' = st) \/ st' = IN_FIELD \/ st' = QUOTE_IN_QUOTED).
  Proof.
    intros st f flds recs Hst. unfold write_field.
    destruct (existsb (needs_quote d) f) eqn:E.
    - exists QUOTE_IN_QUOTED. split; [|auto].
      rewrite feedr_cons, step_quote_start by exact Hst.
      rewrite feedr_app, feedr_esc, app_nil_r.
      cbn [feedr]. apply step_inq_quote.
    - destruct f as [|c f].
      + exists st. split; [reflexivity|auto].
      + exists IN_FIELD. split; [|auto].
        cbn [existsb] in E. apply orb_false_iff in E. destruct E as [Ec Ef].
        rewrite feedr_cons, step_plain_start by (auto using needs_quote_false).
        rewrite feedr_plain by exact Ef. reflexivity.
  Qed.

  Lemma feedr_field_delim : forall st f flds recs,
    st = START_RECORD \/ st = START_FIELD ->
    feedr d (write_field d f ++ [delim d]) (mkReader st [] flds recs) =
    mkReader START_FIELD [] (f :: flds) recs.
  Proof.
    intros st f flds recs Hst.
    destruct (feedr_field st f flds recs Hst) as (st' & Hfeed & Hst').
    rewrite feedr_app, Hfeed. cbn [feedr].
    rewrite step_delim, rev_involutive.
    - reflexivity.
    - destruct Hst' as [[_ ->] | [-> | ->]]; [destruct Hst as [-> | ->]| |]; discriminate.
    - destruct Hst' as [[_ ->] | [-> | ->]]; [destruct Hst as [-> | ->]| |]; discriminate.
  Qed.

  Lemma feedr_field_lf : forall st f flds recs,
    (st = START_RECORD /\ f <> []) \/ st = START_FIELD ->
    feedr d (write_field d f ++ [LF]) (mkReader st [] flds recs) =
    mkReader START_RECORD [] [] (rev (f :: flds) :: recs).
  Proof.
    intros st f flds recs Hst.
    assert (Hst0 : st = START_RECORD \/ st = START_FIELD) by (destruct Hst as [[? _]|?]; auto).
    destruct (feedr_field st f flds recs Hst0) as (st' & Hfeed & Hst').
    rewrite feedr_app, Hfeed. cbn [feedr].
    rewrite step_lf, rev_involutive.
    - reflexivity.
    - destruct Hst' as [[Hf ->] | [-> | ->]]; auto.
      destruct Hst as [[_ Hne] | ->]; [contradiction|auto].
  Qed.

  (** * 6. rows *)

  Lemma feedr_join : forall fs st flds recs,
    fs <> [] ->
    (st = START_RECORD /\ fs <> [[]]) \/ st = START_FIELD ->
    feedr d (join_fields d fs ++ [LF]) (mkReader st [] flds recs) =
    mkReader START_RECORD [] [] ((rev flds ++ fs) :: recs).
  Proof.
    induction fs as [|f fs IHfs]; intros st flds recs Hne Hst.
    - contradiction.
    - destruct fs as [|g rest].
      + cbn [join_fields]. rewrite feedr_field_lf.
        * reflexivity.
        * destruct Hst as [[-> Hn] | ->]; [left|right; reflexivity].
          split; [reflexivity|]. intros ->. apply Hn. reflexivity.
      + change (join_fields d (f :: g :: rest))
          with (write_field d f ++ delim d :: join_fields d (g :: rest)).
        replace ((write_field d f ++ delim d :: join_fields d (g :: rest)) ++ [LF])
          with ((write_field d f ++ [delim d]) ++ (join_fields d (g :: rest) ++ [LF]))
          by (rewrite <- !app_assoc; reflexivity).
        rewrite feedr_app, feedr_field_delim by (destruct Hst as [[-> _] | ->]; auto).
        rewrite IHfs by (auto; discriminate).
        cbn [rev]. rewrite <- app_assoc. reflexivity.
  Qed.

  Lemma feedr_row : forall row recs,
    feedr d (row_body d row ++ [LF]) (mkReader START_RECORD [] [] recs) =
    mkReader START_RECORD [] [] (row :: recs).
  Proof.
    intros row recs.
    destruct row as [|f fs].
    - cbn [row_body join_fields app feedr]. apply step_lf_start_record.
    - destruct f as [|c f]; [destruct fs as [|g rest]|].
      + (* [[]] written as two quotes *)
        cbn [row_body app feedr].
        rewrite step_quote_start, step_inq_quote by auto.
        rewrite step_lf by auto. reflexivity.
      + change (row_body d ([] :: g :: rest)) with (join_fields d ([] :: g :: rest)).
        rewrite feedr_join; [reflexivity|discriminate|left; split; [reflexivity|discriminate]].
      + change (row_body d ((c :: f) :: fs)) with (join_fields d ((c :: f) :: fs)).
        rewrite feedr_join; [reflexivity|discriminate|left; split; [reflexivity|discriminate]].
  Qed.

  Lemma feed_row : forall row m recs,
    feed d (row_body d row ++ [LF]) m (mkReader START_RECORD [] [] recs) =
    (mkReader START_RECORD [] [] (row :: recs), false).
  Proof.
    intros row m recs.
    rewrite (surjective_pairing (feed d _ m _)).
    rewrite feed_fst, feed_snd_lf, feedr_row. reflexivity.
  Qed.

  Lemma feed_rows : forall rows recs,
    feed d (csv_write_lf d rows) false (mkReader START_RECORD [] [] recs) =
    (mkReader START_RECORD [] [] (rev rows ++ recs), false).
  Proof.
    induction rows as [|row rows IH]; intros recs.
    - reflexivity.
    - unfold csv_write_lf. cbn [flat_map]. rewrite feed_app, feed_row.
      fold (csv_write_lf d rows). rewrite IH.
      cbn [rev]. rewrite <- app_assoc. reflexivity.
  Qed.

  Lemma csv_read_write_lf : forall rows, csv_read d (csv_write_lf d rows) = rows.
  Proof.
    intros rows. unfold csv_read, reader0. rewrite feed_rows.
    cbn. rewrite app_nil_r. apply rev_involutive.
  Qed.

End Reader.

(** * 7. main theorem *)

Theorem csv_roundtrip : forall d rows, dialect_ok d -> no_cr rows ->
  read_file d (csv_write d rows) = rows.
Proof.
  intros d rows Hd Hn. unfold read_file.
  rewrite un_write by assumption.
  apply csv_read_write_lf. exact Hd.
Qed.

Corollary csv_roundtrip_blank : forall d rows, dialect_ok d -> no_cr rows ->
  map (fun r => match r with [] => true | _ => false end) (read_file d (csv_write d rows)) =
  map (fun r => match r with [] => true | _ => false end) rows.
Proof.
  intros d rows Hd Hn. rewrite csv_roundtrip by assumption. reflexivity.
Qed.

Print Assumptions csv_roundtrip.
Print Assumptions csv_roundtrip_blank.
