(** The Python values and operators the assignment code of Equality uses (csvpath/matching/productions/equality.py:
    _do_assignment_new_impl, _latch_and_onchange, _set_variable_if), with Python's own semantics: `and` / `or` short-circuit and
    return an operand, `not` yields a bool, `!=` / `==` never raise, `>=` / `<=` between an int and a str (or with None) raise
    TypeError ([QErr]), truthiness of None / 0 / "" is false.  The generated Match/AsgSrc.v is written over these; a function's
    result is the pair (did it call set_variable, what it returned). *)
From Coq Require Import ZArith List Bool.
From V Require Import Match.Assign.
Import ListNotations.
Open Scope Z_scope.

Inductive qv := QNone | QBool (b : bool) | QInt (z : Z) | QStr (s : list Z) | QErr.

Definition q_truth (v : qv) : option bool :=
  match v with
  | QNone => Some false | QBool b => Some b | QInt z => Some (negb (z =? 0))
  | QStr s => Some (match s with [] => false | _ => true end) | QErr => None
  end.
Definition q_not (v : qv) : qv := match q_truth v with Some b => QBool (negb b) | None => QErr end.
Definition q_and (a : qv) (b : unit -> qv) : qv := match q_truth a with Some true => b tt | Some false => a | None => QErr end.
Definition q_or (a : qv) (b : unit -> qv) : qv := match q_truth a with Some true => a | Some false => b tt | None => QErr end.
Definition q_is_none (v : qv) : qv := match v with QNone => QBool true | QErr => QErr | _ => QBool false end.
Definition q_is_not_none (v : qv) : qv := match v with QNone => QBool false | QErr => QErr | _ => QBool true end.

(* bool is an int in Python: True == 1 *)
Definition q_int (v : qv) : option Z := match v with QInt z => Some z | QBool b => Some (if b then 1 else 0) | _ => None end.
Definition q_eq (a b : qv) : qv :=
  match a, b with
  | QErr, _ | _, QErr => QErr
  | QNone, QNone => QBool true
  | QStr x, QStr y => QBool (str_eqb x y)
  | _, _ => match q_int a, q_int b with Some x, Some y => QBool (x =? y) | _, _ => QBool false end
  end.
Definition q_ne (a b : qv) : qv := match q_eq a b with QBool r => QBool (negb r) | v => v end.
(* `a is b` on the singletons True / False / None (identity of ints and strs is not specified: an error value) *)
Definition q_is (a b : qv) : qv :=
  match a, b with
  | QBool x, QBool y => QBool (eqb x y) | QNone, QNone => QBool true
  | QBool _, QNone | QNone, QBool _ => QBool false
  | _, _ => QErr
  end.
Definition q_ge (a b : qv) : qv :=
  match a, b with
  | QStr x, QStr y => QBool (str_leb y x)
  | QStr _, _ | _, QStr _ => QErr
  | _, _ => match q_int a, q_int b with Some x, Some y => QBool (y <=? x) | _, _ => QErr end
  end.
Definition q_le (a b : qv) : qv := q_ge b a.

(** ExpressionUtility.asbool on these values (Match/Assign.v asbool for None / int / str; a bool is itself) *)
Definition q_asbool (v : qv) : qv :=
  match v with
  | QNone => QBool (asbool ANone) | QInt z => QBool (asbool (AInt z)) | QStr s => QBool (asbool (AStr s)) | QBool b => QBool b | QErr => QErr
  end.

(** statements: a conditional whose test raised ends the function with the error; a call that raised ends the caller *)
Definition q_ifp (c : qv) (w : bool) (a b : unit -> bool * qv) : bool * qv :=
  match q_truth c with Some true => a tt | Some false => b tt | None => (w, QErr) end.
Definition q_bindp (p : bool * qv) (k : bool -> qv -> bool * qv) : bool * qv :=
  match p with (w, QErr) => (w, QErr) | (w, v) => k w v end.
