(** C04: the verdict.  Generic transport lemmas (a reflexive-transitive relation that every
    component evaluation respects is respected by a whole line and by a whole run), then the
    control/validity fragment: is_valid is False exactly when a fail()/fail_and_stop() executed,
    and never returns to True. *)
From Coq Require Import ZArith List Bool Lia.
From V Require Import Scan.ScanModel Run.RunLoop Run.RunFacts Match.Adjudicate Match.Ctl.
Import ListNotations.
Open Scope Z_scope.

Section AdjRel.
  Variable S comp : Type.
  Variable stp skp : S -> bool.
  Variable clear_skip : S -> S.
  Variable eval : comp -> S -> S * bool.
  Variable clear_errors : S -> S.
  Variable R : S -> S -> Prop.
  Hypothesis R_refl : forall a, R a a.
  Hypothesis R_trans : forall a b c, R a b -> R b c -> R a c.
  Hypothesis R_eval : forall c s, R s (fst (eval c s)).
  Hypothesis R_cs : forall s, R s (clear_skip s).
  Hypothesis R_ce : forall s, R s (clear_errors s).

  Lemma adj_rel q AND : forall cs s f, R s (fst (fst (adj S comp stp skp clear_skip eval clear_errors q AND cs s f))).
  Proof.
    induction cs as [|c cs IH]; intros s f; cbn.
    - destruct (negb q && skp s); cbn; eauto.
    - destruct (stp s); cbn; [eauto|]. destruct (skp s); cbn; [eauto|].
      pose proof (R_eval c s) as H1. destruct (eval c s) as [s1 v]. cbn in H1.
      pose proof (IH s1 (upd AND f v)) as H2.
      destruct (adj S comp stp skp clear_skip eval clear_errors q AND cs s1 (upd AND f v)) as [[s2 b] ev]. cbn in *. eauto.
  Qed.
End AdjRel.

Section RunRel.
  Variable C X : Type.
  Variable m : rs X -> line C -> rs X * bool.
  Variable R : X -> X -> Prop.
  Hypothesis R_refl : forall a, R a a.
  Hypothesis R_trans : forall a b c, R a b -> R b c -> R a c.
  Hypothesis R_m : forall s l, R (x X s) (x X (fst (m s l))).

  Lemma consider_rel c s l : R (x X s) (x X (fst (consider C X m c s l))).
  Proof.
    unfold consider.
    destruct (oeqb (end_line c) (pln X s) && is_nil l).
    - pose proof (R_m (set_frozen X s) l) as H. destruct (m (set_frozen X s) l) as [s2 v]. exact H.
    - destruct (is_nil l); [apply R_refl|].
      destruct (includes (scanner c) (pln X s)); [|apply R_refl].
      cbn [adv]. destruct (0 <? adv X s).
      + destruct (is_last (q_scan c) (scanner c) (end_line c) (pln X s)); cbn; apply R_refl.
      + match goal with |- context [m ?ss l] => pose proof (R_m ss l) as H; destruct (m ss l) as [s2 v] end.
        cbn in H. destruct (is_last (q_scan c) (scanner c) (end_line c) (pln X s)); destruct v; cbn;
          unfold raise_match_count_if; cbn; repeat match goal with |- context [if ?b then _ else _] => destruct b end; exact H.
  Qed.

  Lemma step_rel c (a : ls C X) nl : R (x X (st C X a)) (x X (st C X (step C X m c a nl))).
  Proof.
    unfold step. destruct (halted C X a); [apply R_refl|]. destruct nl as [n l].
    pose proof (consider_rel c (track X (st C X a) n) l) as H. cbn [track x] in H.
    destruct (consider C X m c (track X (st C X a) n) l) as [s' e]. cbn [fst] in H.
    destruct (ev_returned e); destruct (budget C X a) as [[|[|k]]|]; cbn; destruct (stopped X s'); cbn; exact H.
  Qed.

  Lemma fold_rel c : forall l (a : ls C X), R (x X (st C X a)) (x X (st C X (fold_left (step C X m c) l a))).
  Proof.
    induction l as [|nl l IH]; intros a; [apply R_refl|]. cbn [fold_left].
    eapply R_trans; [apply step_rel|apply IH].
  Qed.

  Theorem run_rel c s0 bud recs : R (x X s0) (x X (st C X (run_from C X m c s0 bud recs))).
  Proof.
    unfold run_from.
    assert (F: forall a, R (x X (st C X a)) (x X (st C X (finish C X a)))).
    { intros a. unfold finish. destruct (halted C X a); cbn; apply R_refl. }
    destruct (will_run c).
    - eapply R_trans; [|apply F]. apply (fold_rel c (number 0 recs) (mkLs C X s0 [] [] [] false false bud)).
    - apply (F (mkLs C X s0 [] [] [] false false bud)).
  Qed.
End RunRel.

(** * the fragment *)
Definition vrel (a b : mx) : Prop := exists t, fails b = fails a ++ t /\ valid b = valid a && match t with [] => true | _ => false end.

Lemma vrel_refl a : vrel a a.
Proof. exists []. rewrite app_nil_r, andb_true_r. auto. Qed.

Lemma vrel_same a b : fails b = fails a -> valid b = valid a -> vrel a b.
Proof. intros F V. exists []. rewrite app_nil_r, andb_true_r. auto. Qed.

Lemma vrel_trans a b c : vrel a b -> vrel b c -> vrel a c.
Proof.
  intros (t1 & F1 & V1) (t2 & F2 & V2). exists (t1 ++ t2). rewrite F2, F1, app_assoc. split; [reflexivity|].
  rewrite V2, V1. destruct t1, t2; cbn; rewrite ?andb_true_r, ?andb_false_r; reflexivity.
Qed.

Definition srel (a b : cst) : Prop := vrel (x mx a) (x mx b).

Section CtlValidity.
  Variable c : cfg.

  Lemma do_act_rel a s : srel s (do_act a s).
  Proof.
    unfold srel. destruct a; cbn; try (destruct (frozen mx s); cbn; apply vrel_same; reflexivity).
    - exists [pln mx s]. cbn. rewrite andb_false_r. auto.
    - destruct (frozen mx s); cbn; [apply vrel_refl|]. exists [pln mx s]. cbn. rewrite andb_false_r. auto.
  Qed.

  Lemma with_frozen_rel s b : srel s (with_frozen s b).
  Proof. apply vrel_same; reflexivity. Qed.

  Lemma eval_rel cm s : srel s (fst (eval c cm s)).
  Proof.
    destruct cm as [a|cd nc a|cd|cd a]; cbn.
    - apply do_act_rel.
    - destruct (eval_cond c cd s); cbn; [|apply vrel_refl].
      destruct (is_last_cond cd); cbn; [|apply do_act_rel].
      unfold srel. cbn. pose proof (do_act_rel a (with_frozen s false)) as H. unfold srel in H. cbn in H. exact H.
    - apply vrel_refl.
    - destruct (frozen mx s); cbn; [apply vrel_refl|]. destruct (eval_cond c cd s); cbn; [apply do_act_rel|apply vrel_refl].
  Qed.

  Lemma do_lasts_rel : forall cs s, srel s (do_lasts c cs s).
  Proof.
    induction cs as [|cm cs IH]; intros s; [apply vrel_refl|].
    destruct cm as [a|cd nc a|cd|cd a]; cbn [do_lasts]; try apply IH.
    destruct cd; try apply IH. eapply vrel_trans; [apply (eval_rel (CWhen IsLast nc a) s)|apply IH].
  Qed.

  Lemma ctl_m_rel q cs s l : vrel (x mx s) (x mx (fst (ctl_m c q cs s l))).
  Proof.
    unfold ctl_m. destruct (oeqb (end_line c) (pln mx s) && is_nil l); cbn [fst].
    - apply do_lasts_rel.
    - unfold matches.
      pose proof (adj_rel cst comp (stopped mx) skp clear_skip (eval c) (fun s => s) srel
                   (fun a => vrel_refl (x mx a)) (fun a b d => vrel_trans (x mx a) (x mx b) (x mx d))
                   eval_rel (fun s => vrel_refl (x mx s)) (fun s => vrel_refl (x mx s)) q true cs s (negb true)) as H.
      destruct (adj cst comp (stopped mx) skp clear_skip (eval c) (fun s => s) q true cs s (negb true)) as [[s2 b] ev].
      exact H.
  Qed.
End CtlValidity.

Lemma vrel_from_fresh a b : vrel a b -> valid a = true -> fails a = [] ->
  valid b = match fails b with [] => true | _ => false end.
Proof. intros (t & F & V) Va Fa. rewrite F, V, Va, Fa. reflexivity. Qed.

Lemma vrel_monotone a b : vrel a b -> valid a = false -> valid b = false.
Proof. intros (t & F & V) Va. rewrite V, Va. reflexivity. Qed.

(** a whole run of the fragment: the verdict is False exactly when some fail() executed *)
Theorem ctl_run_verdict q cw sc0 cs blanks :
  let o := ctl_run q cw sc0 cs blanks in
  valid (x mx (st Z mx o)) = match fails (x mx (st Z mx o)) with [] => true | _ => false end.
Proof.
  cbn zeta. unfold ctl_run, collect.
  match goal with |- context [run_from Z mx ?m ?c ?s0 ?b ?r] =>
    pose proof (run_rel Z mx m vrel vrel_refl vrel_trans (fun s l => ctl_m_rel _ q cs s l) c s0 b r) as H end.
  apply (vrel_from_fresh _ _ H); reflexivity.
Qed.
