(** Facts about the adjudication loop, for every component evaluator. *)
From Coq Require Import ZArith List Bool Lia.
From V Require Import Match.Adjudicate.
Import ListNotations.

Section AdjProofs.
  Variable S comp : Type.
  Variable stp skp : S -> bool.
  Variable clear_skip : S -> S.
  Variable eval : comp -> S -> S * bool.
  Variable clear_errors : S -> S.

  Notation adj := (adj S comp stp skp clear_skip eval clear_errors).
  Notation seq_eval := (seq_eval S comp eval).
  Notation calm := (calm S comp stp skp eval).

  Lemma calm_end AND : forall pre s f, stp s = false -> skp s = false -> calm pre s ->
    stp (fst (seq_eval AND pre s f)) = false /\ skp (fst (seq_eval AND pre s f)) = false.
  Proof.
    induction pre as [|c pre IH]; intros s f Hs Hk Hc; [cbn; auto|].
    cbn in Hc |- *. destruct (eval c s) as [s1 v]. cbn [fst] in Hc. destruct Hc as (H1 & H2 & H3).
    apply IH; assumption.
  Qed.

  (** a calm prefix is evaluated in full, in order, exactly as the unguarded semantics says *)
  Lemma adj_calm_prefix q AND : forall pre post s f, stp s = false -> skp s = false -> calm pre s ->
    adj q AND (pre ++ post) s f =
      (fst (fst (adj q AND post (fst (seq_eval AND pre s f)) (snd (seq_eval AND pre s f)))),
       snd (fst (adj q AND post (fst (seq_eval AND pre s f)) (snd (seq_eval AND pre s f)))),
       pre ++ snd (adj q AND post (fst (seq_eval AND pre s f)) (snd (seq_eval AND pre s f)))).
  Proof.
    induction pre as [|c pre IH]; intros post s f Hs Hk Hc.
    - cbn. destruct (adj q AND post s f) as [[s2 b] ev]. reflexivity.
    - cbn [app Adjudicate.adj Adjudicate.seq_eval]. rewrite Hs, Hk.
      cbn in Hc. destruct (eval c s) as [s1 v]. cbn [fst] in Hc. destruct Hc as (H1 & H2 & H3).
      rewrite (IH post s1 _ H1 H2 H3).
      destruct (adj q AND post _ _) as [[s2 b] ev]. reflexivity.
  Qed.

  (** a line on which nothing stops or skips: every component runs, in order; the answer is the
      AND (OR) of the votes *)
  Theorem adj_all_calm q AND cs s f : stp s = false -> skp s = false -> calm cs s ->
    adj q AND cs s f = (clear_errors (fst (seq_eval AND cs s f)), negb (snd (seq_eval AND cs s f)), cs).
  Proof.
    intros Hs Hk Hc. pose proof (adj_calm_prefix q AND cs [] s f Hs Hk Hc) as H. rewrite app_nil_r in H.
    rewrite H. destruct (calm_end AND cs s f Hs Hk Hc) as [_ Hk1]. cbn. rewrite Hk1, andb_false_r. cbn.
    rewrite app_nil_r. reflexivity.
  Qed.

  (** stop() fires in component [c] after a calm prefix: no later component of the line runs;
      the line's answer is the AND/OR of the votes only if [c] was the final component, else False *)
  Theorem adj_stop q AND pre c post s f : stp s = false -> skp s = false -> calm pre s ->
    let s1 := fst (seq_eval AND pre s f) in let f1 := snd (seq_eval AND pre s f) in
    stp (fst (eval c s1)) = true -> skp (fst (eval c s1)) = false ->
    adj q AND (pre ++ c :: post) s f =
      (clear_errors (fst (eval c s1)),
       match post with [] => negb (upd AND f1 (snd (eval c s1))) | _ => false end,
       pre ++ [c]).
  Proof.
    intros Hs Hk Hc s1 f1 Hstop Hnoskip. rewrite (adj_calm_prefix q AND pre (c :: post) s f Hs Hk Hc).
    destruct (calm_end AND pre s f Hs Hk Hc) as [Hs1 Hk1]. fold s1 in Hs1, Hk1. fold s1 f1.
    cbn [Adjudicate.adj]. rewrite Hs1, Hk1. destruct (eval c s1) as [s2 v] eqn:E. cbn [fst snd] in *.
    destruct post as [|p post]; cbn [Adjudicate.adj].
    - rewrite Hnoskip, andb_false_r. reflexivity.
    - rewrite Hstop. reflexivity.
  Qed.

  (** skip() fires in component [c] after a calm prefix (clean model): the line does not match,
      no later component runs, and the flag is cleared before the next line *)
  Theorem adj_skip AND pre c post s f : stp s = false -> skp s = false -> calm pre s ->
    let s1 := fst (seq_eval AND pre s f) in
    stp (fst (eval c s1)) = false -> skp (fst (eval c s1)) = true ->
    adj false AND (pre ++ c :: post) s f = (clear_errors (clear_skip (fst (eval c s1))), false, pre ++ [c]).
  Proof.
    intros Hs Hk Hc s1 Hnostop Hskip. rewrite (adj_calm_prefix false AND pre (c :: post) s f Hs Hk Hc).
    destruct (calm_end AND pre s f Hs Hk Hc) as [Hs1 Hk1]. fold s1 in Hs1, Hk1. fold s1.
    cbn [Adjudicate.adj]. rewrite Hs1, Hk1. destruct (eval c s1) as [s2 v] eqn:E. cbn [fst snd] in *.
    destruct post as [|p post]; cbn [Adjudicate.adj].
    - rewrite Hskip. reflexivity.
    - rewrite Hnostop, Hskip. reflexivity.
  Qed.

  (** D8 (deviation switch on): when skip() is the final component the flag survives the line,
      the line's answer is the votes', and the next line is dropped before its first component *)
  Theorem adj_skip_last_leaks AND pre c s f : stp s = false -> skp s = false -> calm pre s ->
    let s1 := fst (seq_eval AND pre s f) in let f1 := snd (seq_eval AND pre s f) in
    skp (fst (eval c s1)) = true ->
    adj true AND (pre ++ [c]) s f = (clear_errors (fst (eval c s1)), negb (upd AND f1 (snd (eval c s1))), pre ++ [c]).
  Proof.
    intros Hs Hk Hc s1 f1 Hskip. rewrite (adj_calm_prefix true AND pre [c] s f Hs Hk Hc).
    destruct (calm_end AND pre s f Hs Hk Hc) as [Hs1 Hk1]. fold s1 in Hs1, Hk1. fold s1 f1.
    cbn [Adjudicate.adj]. rewrite Hs1, Hk1. destruct (eval c s1) as [s2 v] eqn:E. cbn. reflexivity.
  Qed.

  (** a line entered with the flag still up (only possible with the switch on) evaluates nothing *)
  Lemma adj_enters_skipping q AND c cs s f : stp s = false -> skp s = true ->
    adj q AND (c :: cs) s f = (clear_errors (clear_skip s), false, []).
  Proof. intros Hs Hk. cbn. rewrite Hs, Hk. reflexivity. Qed.

  Lemma adj_enters_stopped q AND c cs s f : stp s = true -> adj q AND (c :: cs) s f = (clear_errors s, false, []).
  Proof. intros Hs. cbn. rewrite Hs. reflexivity. Qed.

  (** evaluated components are always a prefix of the component list *)
  Lemma adj_prefix q AND : forall cs s f, exists rest, cs = snd (adj q AND cs s f) ++ rest.
  Proof.
    induction cs as [|c cs IH]; intros s f.
    - exists []. cbn. destruct (negb q && skp s); reflexivity.
    - cbn. destruct (stp s); [exists (c :: cs); reflexivity|].
      destruct (skp s); [exists (c :: cs); reflexivity|].
      destruct (eval c s) as [s1 v]. destruct (IH s1 (upd AND f v)) as [rest Hr].
      destruct (adj q AND cs s1 (upd AND f v)) as [[s2 b] ev]. cbn in *. exists rest. rewrite <- Hr. reflexivity.
  Qed.
End AdjProofs.

(** whatever every component (and the two clearing steps) preserves, the adjudication loop preserves *)
Section AdjInv.
  Variables (S comp : Type) (stp skp : S -> bool) (clear_skip : S -> S) (eval : comp -> S -> S * bool) (clear_errors : S -> S).
  Variable P : S -> Prop.
  Hypothesis Hcs : forall s, P s -> P (clear_skip s).
  Hypothesis Hce : forall s, P s -> P (clear_errors s).

  Lemma adj_inv q AND : forall cs s f, (forall c, In c cs -> forall s0, P s0 -> P (fst (eval c s0))) -> P s ->
    P (fst (fst (adj S comp stp skp clear_skip eval clear_errors q AND cs s f))).
  Proof.
    induction cs as [|c r IH]; intros s f Hall Hs; cbn [adj].
    - destruct (negb q && skp s); cbn; auto.
    - destruct (stp s); [cbn; auto|]. destruct (skp s); [cbn; auto|].
      pose proof (Hall c (or_introl eq_refl) s Hs) as Hc. destruct (eval c s) as [s1 v]. cbn [fst] in Hc.
      specialize (IH s1 (upd AND f v) (fun c' Hin => Hall c' (or_intror Hin)) Hc).
      destruct (adj S comp stp skp clear_skip eval clear_errors q AND r s1 (upd AND f v)) as [[s2 b] ev]. exact IH.
  Qed.
End AdjInv.
