(** The effects ErrorHandler._handle_if can perform, as the generated Match/ErrSrc.v lists them in order, and the two
    combinators the translator uses for statements: a conditional over lists of effects and sequencing that ends with a raise. *)
From Coq Require Import ZArith List Bool.
From V Require Import Scan.PySem.
Import ListNotations.

Inductive ev := EvStop | EvCollect | EvFail | EvPrint | EvRaise | EvInputErr | EvPyErr.

Definition p_ifl (c : pyv) (a b : unit -> list ev) : list ev :=
  match p_truth c with Some true => a tt | Some false => b tt | None => [EvPyErr] end.
Definition is_term (e : ev) : bool := match e with EvRaise | EvInputErr | EvPyErr => true | _ => false end.
Definition ev_seq (a : list ev) (b : unit -> list ev) : list ev := if existsb is_term a then a else a ++ b tt.
