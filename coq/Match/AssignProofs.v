From Coq Require Import ZArith List Bool Lia.
From V Require Import Match.Assign.
Import ListNotations.
Open Scope Z_scope.

Lemma blocks_inc q cur y b : blocks (increase q) py_ge cur y = Some b -> inc_blocks q cur y = b.
Proof.
  unfold blocks, inc_blocks. destruct (increase q); cbn; [|intros H; inversion H; reflexivity].
  destruct (truthy y) eqn:Ty; cbn.
  - rewrite andb_false_r. destruct (is_none cur) eqn:Nc; cbn; [intros H; inversion H; reflexivity|].
    intros H. rewrite H. reflexivity.
  - destruct (negb (truthy cur)); cbn; intros H; inversion H; reflexivity.
Qed.

Lemma blocks_dec q cur y b : blocks (decrease q) py_le cur y = Some b -> dec_blocks q cur y = b.
Proof.
  unfold blocks, dec_blocks. destruct (decrease q); cbn; [|intros H; inversion H; reflexivity].
  destruct (truthy y) eqn:Ty; cbn.
  - rewrite andb_false_r. destruct (is_none cur) eqn:Nc; cbn; [intros H; inversion H; reflexivity|].
    intros H. rewrite H. reflexivity.
  - destruct (negb (truthy cur)); cbn; intros H; inversion H; reflexivity.
Qed.

Lemma set_variable_if_spec q cur y w r : set_variable_if q true cur y = Some (w, r) ->
  w = negb (guard_blocks q cur y) /\ r = negb (guard_blocks q cur y).
Proof.
  unfold set_variable_if, guard_blocks.
  destruct (notnone q && is_none y) eqn:N; cbn; [intros H; inversion H; auto|].
  destruct (blocks (increase q) py_ge cur y) as [[|]|] eqn:Bi; try discriminate.
  - rewrite (blocks_inc q cur y true Bi). cbn. intros H; inversion H; auto.
  - rewrite (blocks_inc q cur y false Bi). cbn.
    destruct (blocks (decrease q) py_le cur y) as [[|]|] eqn:Bd; try discriminate.
    + rewrite (blocks_dec q cur y true Bd). intros H; inversion H; auto.
    + rewrite (blocks_dec q cur y false Bd). intros H; inversion H; auto.
Qed.

(** the code's nest of conditionals is the documented table, for all 256 qualifier subsets and
    all values, whenever the code does not raise *)
Theorem assignment_table q lm cur y w v : do_assignment q lm cur y = Some (w, v) ->
  w = write q lm cur y /\ v = vote q lm cur y.
Proof.
  unfold do_assignment, write, vote, vote0, gate.
  destruct (negb (onmatch q) || lm) eqn:G; cbn [negb andb].
  2:{ intros H. inversion H; subst. auto. }
  unfold same, latched.
  destruct (latch q || onchange q) eqn:LO; cbn [andb].
  - unfold latch_and_onchange.
    destruct (py_eq cur y) eqn:E; cbn [negb andb].
    + (* same value *)
      cbn [negb andb].
      destruct (onchange q); cbn; intros H; inversion H; subst; auto.
    + destruct (is_none cur || negb (latch q)) eqn:L.
      * assert (HL: latch q && negb (is_none cur) = false).
        { destruct (latch q), (is_none cur); cbn in *; try discriminate; reflexivity. }
        rewrite HL. cbn [andb negb].
        destruct (set_variable_if q true cur y) as [[w0 r0]|] eqn:S; [|discriminate].
        destruct (set_variable_if_spec q cur y w0 r0 S) as [-> ->].
        intros H; inversion H; subst. auto.
      * assert (HL: latch q && negb (is_none cur) = true).
        { destruct (latch q), (is_none cur); cbn in *; try discriminate; reflexivity. }
        rewrite HL. cbn [andb negb]. intros H; inversion H; subst. auto.
  - assert (HL: latch q = false) by (destruct (latch q); [discriminate|reflexivity]).
    rewrite HL. cbn [andb negb].
    destruct (set_variable_if q true cur y) as [[w0 r0]|] eqn:S; [|discriminate].
    destruct (set_variable_if_spec q cur y w0 r0 S) as [-> ->].
    intros H; inversion H; subst. auto.
Qed.

(** with comparable values the code never raises *)
Lemma blocks_total active cmp cur y : (forall a b, comparable a b = true -> is_none a = false -> truthy b = true -> exists r, cmp a b = Some r) ->
  comparable cur y = true -> exists b, blocks active cmp cur y = Some b.
Proof.
  intros Hc Hk. unfold blocks. destruct (negb active); [eauto|].
  destruct (negb (truthy cur) && negb (truthy y)); [eauto|].
  destruct (truthy y) eqn:Ty; cbn; [|eauto]. destruct (is_none cur) eqn:Nc; [eauto|]. apply Hc; assumption.
Qed.

Lemma ge_total a b : comparable a b = true -> is_none a = false -> truthy b = true -> exists r, py_ge a b = Some r.
Proof. destruct a, b; cbn; intros; try discriminate; eauto. Qed.
Lemma le_total a b : comparable a b = true -> is_none a = false -> truthy b = true -> exists r, py_le a b = Some r.
Proof. destruct a, b; cbn; intros; try discriminate; eauto. Qed.

Theorem assignment_total q lm cur y : comparable cur y = true -> exists w v, do_assignment q lm cur y = Some (w, v).
Proof.
  intros Hk.
  assert (S: forall r, exists w v, set_variable_if q r cur y = Some (w, v)).
  { intros r. unfold set_variable_if. destruct (notnone q && is_none y); [eauto|].
    destruct (blocks_total (increase q) py_ge cur y ge_total Hk) as [[|] ->]; [eauto|].
    destruct (blocks_total (decrease q) py_le cur y le_total Hk) as [[|] ->]; eauto. }
  unfold do_assignment. destruct (negb (onmatch q) || lm); [|eauto].
  destruct (latch q || onchange q).
  - unfold latch_and_onchange. destruct (negb (py_eq cur y)).
    + destruct (is_none cur || negb (latch q)); [|eauto]. destruct (S true) as (w & v & ->). eauto.
    + destruct (onchange q); eauto.
  - destruct (S true) as (w & v & ->). eauto.
Qed.

(** consequences the documentation states in words *)
Corollary latch_never_negative q lm cur y w v : do_assignment q lm cur y = Some (w, v) ->
  latch q = true -> onchange q = false -> is_none cur = false -> gate q lm = true -> asbool_q q = false -> v = true /\ (w = true -> False).
Proof.
  intros H Hl Ho Hn Hg Ha. destruct (assignment_table q lm cur y w v H) as [-> ->].
  unfold vote, vote0, write, same, latched. rewrite Hg, Hl, Ho, Hn, Ha. cbn.
  destruct (py_eq cur y); cbn; destruct (nocontrib q); split; try reflexivity; try discriminate.
Qed.

Corollary nocontrib_neutral q lm cur y w v : do_assignment q lm cur y = Some (w, v) -> nocontrib q = true -> v = true.
Proof. intros H Hn. destruct (assignment_table q lm cur y w v H) as [_ ->]. unfold vote. rewrite Hn. reflexivity. Qed.

Corollary onmatch_gates q lm cur y w v : do_assignment q lm cur y = Some (w, v) -> onmatch q = true -> lm = false ->
  w = false /\ (nocontrib q = false -> v = false).
Proof.
  intros H Ho Hl. destruct (assignment_table q lm cur y w v H) as [-> ->].
  unfold write, vote, vote0, gate. rewrite Ho, Hl. cbn. rewrite andb_false_r. split; [reflexivity|]. intros ->. reflexivity.
Qed.
