(** Model of the adjudication loop of Matcher.matches() (csvpath/matching/matcher.py): the
    top-level components are evaluated left to right; before each one the stop flag and the skip
    flag are consulted; votes are folded with AND (or OR).  Parametric in the component
    evaluator (a Section variable), so every theorem holds for every set of functions.
    [q_skip] is the deviation switch for defect D8 (skip() as last component leaked into the
    next line); the clean model consumes the flag after the loop. *)
From Coq Require Import ZArith List Bool.
Import ListNotations.

Section Adj.
  Variable S : Type.                       (* everything a component can read or write *)
  Variable comp : Type.
  Variable stp : S -> bool.                (* CsvPath.stopped *)
  Variable skp : S -> bool.                (* Matcher.skip *)
  Variable clear_skip : S -> S.
  Variable eval : comp -> S -> S * bool.   (* Expression.matches: new state, vote *)
  Variable clear_errors : S -> S.          (* Matcher.clear_errors -> ErrorHandler: may stop / fail the run *)

  Definition upd (AND failed vote : bool) : bool :=
    if AND then (if vote then failed else true) else (if vote then false else failed).

  (** returns (state, answer, components evaluated) *)
  Fixpoint adj (q_skip AND : bool) (cs : list comp) (s : S) (failed : bool) : S * bool * list comp :=
    match cs with
    | [] =>
        if negb q_skip && skp s then (clear_errors (clear_skip s), false, [])
        else (clear_errors s, negb failed, [])
    | c :: r =>
        if stp s then (clear_errors s, false, [])
        else if skp s then (clear_errors (clear_skip s), false, [])
        else let '(s1, v) := eval c s in
             let '(s2, b, ev) := adj q_skip AND r s1 (upd AND failed v) in (s2, b, c :: ev)
    end.

  Definition matches (q_skip AND : bool) (cs : list comp) (s : S) : S * bool * list comp :=
    adj q_skip AND cs s (negb AND).

  (** the unguarded left-to-right evaluation: the documented meaning *)
  Fixpoint seq_eval (AND : bool) (cs : list comp) (s : S) (failed : bool) : S * bool :=
    match cs with
    | [] => (s, failed)
    | c :: r => let '(s1, v) := eval c s in seq_eval AND r s1 (upd AND failed v)
    end.

  (** no component of [cs], run from [s], raises the stop or the skip flag *)
  Fixpoint calm (cs : list comp) (s : S) : Prop :=
    match cs with
    | [] => True
    | c :: r => stp (fst (eval c s)) = false /\ skp (fst (eval c s)) = false /\ calm r (fst (eval c s))
    end.
End Adj.
