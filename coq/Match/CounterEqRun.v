(** The VALUE of counter(): the csvpath [ counter.nm(1) == n ] returns exactly the n-th scanned line — for any file and any scan.
    (counter() yields the count AFTER its click; a value one step behind would return the (n+1)-th line.) *)
From Coq Require Import ZArith List Bool Lia.
From V Require Import Csv.CsvModel Data.DataModel Scan.ScanModel Scan.ScanSpec Run.RunLoop Run.RunProofs Run.RunFold
  Match.Adjudicate Match.AdjProofs Match.Core Match.CoreProofs Match.AggProofs Match.CoreRun.
Import ListNotations.
Open Scope Z_scope.

Section CounterEqRun.
  Variable q : quirks.
  Variable blanks : list bool.
  Variable nm n : Z.
  Let cs : list comp := [CAgg (CounterEq nm 1 n)].

  Lemma line_ceq e (s : cst) l : stopped mx s = false -> l <> [] ->
    let cnt := num_of (lookup nm (vars (x mx s))) + 1 in
    snd (core_m q blanks true cs e s l) = (cnt =? n) /\
    lookup nm (vars (x mx (fst (core_m q blanks true cs e s l)))) = Some (VI cnt).
  Proof.
    intros Hs Hl. cbn zeta.
    assert (Hb: (oeqb e (pln mx s) && is_nil l) = false) by (destruct l; [contradiction|apply andb_false_r]).
    rewrite (core_line_vote q blanks true cs e s l Hs Hb). cbn [fst snd]. unfold cs. cbn [seq_eval eval].
    pose proof (counter_eq_step q blanks true (ensure [CAgg (CounterEq nm 1 n)] s) l nm 1 n) as T. cbn zeta in T.
    destruct T as (T1 & T2 & _).
    assert (Hn: num_of (lookup nm (vars (x mx (ensure [CAgg (CounterEq nm 1 n)] s)))) = num_of (lookup nm (vars (x mx s)))).
    { unfold ensure. destruct (frozen mx s); [reflexivity|]. cbn [x with_mx vars]. apply init_vars_num. }
    destruct (do_agg q blanks true (ensure [CAgg (CounterEq nm 1 n)] s) l (CounterEq nm 1 n)) as [s2 v] eqn:Ed.
    cbn [fst snd] in *. rewrite Hn in T1, T2. split; [|exact T1].
    rewrite T2. unfold upd. destruct (_ =? n); reflexivity.
  Qed.

  (** the lines picked when the counter stands at c0 before the first of [lines] *)
  Fixpoint sel_from (c0 : Z) (lines : list (Z * line ustring)) : list (line ustring) :=
    match lines with
    | [] => []
    | nl :: r => (if c0 + 1 =? n then [snd nl] else []) ++ sel_from (c0 + 1) r
    end.

  Lemma fold_ceq (cf : cfg) e : cwnm cf = false -> forall lines (s : cst) acc,
    Forall (fun nl : Z * line ustring => snd nl <> []) lines ->
    snd (fold_left (ret_step ustring mx (core_m q blanks true cs e) cf) lines (s, acc)) =
      acc ++ sel_from (num_of (lookup nm (vars (x mx s)))) lines.
  Proof.
    intros Hcw. induction lines as [|[k l] lines IH]; intros s acc Hnb; [cbn; rewrite app_nil_r; reflexivity|].
    inversion Hnb as [|nl0 r0 Hl Hr]; subst. cbn [snd] in Hl. cbn [fold_left].
    unfold ret_step at 2. unfold vote_at, line_step. cbn [fst snd]. rewrite Hcw, xorb_false_r.
    set (s1 := mkRs mx k (scan_count mx s + 1) (match_count mx s) (match_count mx s) 0 false false (x mx s)).
    destruct (line_ceq e s1 l eq_refl Hl) as (Hv & Hc). change (x mx s1) with (x mx s) in Hv, Hc.
    destruct (core_m q blanks true cs e s1 l) as [s2 v] eqn:Ec. cbn [fst snd] in Hv, Hc.
    assert (Hx: x mx (if v then raise_match_count_if mx s2 else s2) = x mx s2).
    { destruct v; [|reflexivity]. unfold raise_match_count_if. destruct (cur_mc mx s2 =? match_count mx s2); reflexivity. }
    rewrite IH by exact Hr. rewrite Hx, Hc. cbn [num_of sel_from snd]. rewrite Hv.
    destruct (num_of (lookup nm (vars (x mx s))) + 1 =? n); [rewrite <- app_assoc; reflexivity|reflexivity].
  Qed.

  Lemma sel_from_nth : forall lines c0, 0 <= c0 ->
    sel_from c0 lines = if c0 <? n then match nth_error lines (Z.to_nat (n - c0 - 1)) with Some nl => [snd nl] | None => [] end else [].
  Proof.
    induction lines as [|nl r IH]; intros c0 H0.
    - cbn. destruct (c0 <? n); [destruct (Z.to_nat (n - c0 - 1)); reflexivity|reflexivity].
    - cbn [sel_from]. rewrite (IH (c0 + 1)) by lia.
      destruct (c0 + 1 =? n) eqn:E1.
      + apply Z.eqb_eq in E1. assert (H1: (c0 <? n) = true) by (apply Z.ltb_lt; lia). assert (H2: (c0 + 1 <? n) = false) by (apply Z.ltb_ge; lia).
        rewrite H1, H2. replace (n - c0 - 1) with 0 by lia. reflexivity.
      + apply Z.eqb_neq in E1. destruct (c0 <? n) eqn:E2.
        * apply Z.ltb_lt in E2. assert (H2: (c0 + 1 <? n) = true) by (apply Z.ltb_lt; lia). rewrite H2.
          replace (Z.to_nat (n - c0 - 1)) with (S (Z.to_nat (n - (c0 + 1) - 1))) by lia. reflexivity.
        * apply Z.ltb_ge in E2. assert (H2: (c0 + 1 <? n) = false) by (apply Z.ltb_ge; lia). rewrite H2. reflexivity.
  Qed.

  (** * [ counter.nm(1) == n ] returns the n-th scanned line (and nothing when fewer lines are scanned) *)
  Theorem counter_value_selects sh (cf : cfg) E (recs : list (line ustring)) x0 :
    wf sh -> parse false (ast_of sh) = Some (scanner cf) -> q_scan cf = false -> end_line cf = Some E ->
    end_of ustring recs = Some E -> will_run cf = true -> cwnm cf = false -> lookup nm (vars x0) = None -> 1 <= n ->
    returned ustring mx (run_from ustring mx (core_m q blanks true cs (Some E)) cf (rs0 mx x0) None recs) =
      match nth_error (filter (want ustring sh) (number 0 recs)) (Z.to_nat (n - 1)) with Some nl => [snd nl] | None => [] end.
  Proof.
    intros Hwf Hp Hq He Hend Hw Hcw Hx Hn.
    destruct (core_run_returns q blanks true sh cf E cs recs x0 Hwf Hp Hq He Hend Hw) as (_ & Hr). rewrite Hr.
    rewrite (fold_ceq cf (Some E) Hcw).
    - cbn [app x rs0]. rewrite Hx. cbn [num_of]. rewrite (sel_from_nth _ 0) by lia.
      assert (H1: (0 <? n) = true) by (apply Z.ltb_lt; lia). rewrite H1. replace (n - 0 - 1) with (n - 1) by lia. reflexivity.
    - apply Forall_forall. intros [k l] Hin. apply filter_In in Hin. destruct Hin as [_ Hwant].
      unfold want, nonblank in Hwant. cbn [fst snd] in *. apply andb_prop in Hwant. destruct Hwant as [_ Hnb].
      destruct l; [discriminate|discriminate].
  Qed.
End CounterEqRun.
