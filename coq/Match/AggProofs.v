(** The bookkeeping functions of CORE: what one evaluation writes (and what it leaves alone), and
    the run-level consequences by the invariant lifting of Run/RunInv.v and Match/AdjProofs.v. *)
From Coq Require Import ZArith List Bool Lia.
From V Require Import Csv.CsvModel Data.DataModel Scan.ScanModel Run.RunLoop Run.RunInv Match.Adjudicate Match.AdjProofs Match.Core Match.CoreProofs.
From V Require Match.Assign Match.AssignProofs.
Import ListNotations.
Open Scope Z_scope.

Lemma ustr_eqb_refl : forall a, ustr_eqb a a = true.
Proof. induction a as [|c a IH]; cbn; [reflexivity|]. rewrite Z.eqb_refl, IH. reflexivity. Qed.
Lemma ustr_eqb_eq : forall a b, ustr_eqb a b = true -> a = b.
Proof.
  induction a as [|c a IH]; intros [|d b] H; cbn in H; try discriminate; [reflexivity|].
  apply andb_true_iff in H. destruct H as [H1 H2]. apply Z.eqb_eq in H1. rewrite H1, (IH b H2). reflexivity.
Qed.
Lemma ustr_eqb_neq a b : a <> b -> ustr_eqb a b = false.
Proof. intros H. destruct (ustr_eqb a b) eqn:E; [exfalso; apply H; apply ustr_eqb_eq; exact E|reflexivity]. Qed.

Section Maps.
  Context {A : Type}.
  Lemma lookup_update_same k (v : A) : forall l, lookup k (update k v l) = Some v.
  Proof. induction l as [|[k' v'] r IH]; cbn; [rewrite Z.eqb_refl; reflexivity|]. destruct (k' =? k) eqn:E; cbn; rewrite E; [reflexivity|exact IH]. Qed.
  Lemma lookup_update_other k k' (v : A) : k <> k' -> forall l, lookup k' (update k v l) = lookup k' l.
  Proof.
    intros Hn. induction l as [|[k0 v0] r IH]; cbn.
    - destruct (k =? k') eqn:E; [apply Z.eqb_eq in E; contradiction|reflexivity].
    - destruct (k0 =? k) eqn:E; cbn.
      + apply Z.eqb_eq in E. subst k0. destruct (k =? k') eqn:E2; [apply Z.eqb_eq in E2; contradiction|reflexivity].
      + destruct (k0 =? k'); [reflexivity|exact IH].
  Qed.
  Lemma ulookup_uupdate_same k (v : A) : forall l, ulookup k (uupdate k v l) = Some v.
  Proof. induction l as [|[k' v'] r IH]; cbn; [rewrite ustr_eqb_refl; reflexivity|]. destruct (ustr_eqb k' k) eqn:E; cbn; rewrite E; [reflexivity|exact IH]. Qed.
  Lemma ulookup_uupdate_other k k' (v : A) : k <> k' -> forall l, ulookup k' (uupdate k v l) = ulookup k' l.
  Proof.
    intros Hn. induction l as [|[k0 v0] r IH]; cbn.
    - rewrite (ustr_eqb_neq k k' Hn). reflexivity.
    - destruct (ustr_eqb k0 k) eqn:E; cbn.
      + apply ustr_eqb_eq in E. subst k0. rewrite (ustr_eqb_neq k k' Hn). reflexivity.
      + destruct (ustr_eqb k0 k'); [reflexivity|exact IH].
  Qed.
End Maps.

(** reading a dictionary entry after a write *)
Lemma dget_dset_same m nm key v : dget (dset m nm key v) nm key = Some v.
Proof. unfold dget, dset. cbn. rewrite lookup_update_same. apply ulookup_uupdate_same. Qed.
Lemma dget_dset_other_key m nm key key' v : key <> key' -> dget (dset m nm key v) nm key' = dget m nm key'.
Proof.
  intros H. unfold dget, dset. cbn. rewrite lookup_update_same. rewrite (ulookup_uupdate_other key key' v H).
  destruct (lookup nm (dicts m)); reflexivity.
Qed.
Lemma dget_vars_stacks m vs sts nm key : dget (mkMx vs sts (dicts m)) nm key = dget m nm key.
Proof. reflexivity. Qed.
Lemma dget_dset_other_dict m nm nm' key key' v : nm <> nm' -> dget (dset m nm key v) nm' key' = dget m nm' key'.
Proof. intros H. unfold dget, dset. cbn. rewrite (lookup_update_other nm nm' _ H). reflexivity. Qed.

Lemma dget_ensure_other_dict m nm nm' key key' : nm <> nm' -> dget (ensure_key m nm key) nm' key' = dget m nm' key'.
Proof.
  intros H. unfold ensure_key. destruct (lookup nm (dicts m)) as [[|p d]|]; try reflexivity;
    unfold dget; cbn; rewrite (lookup_update_other nm nm' _ H); reflexivity.
Qed.
Lemma dget_ensure_other_key m nm key key' : key <> key' -> dget (ensure_key m nm key) nm key' = dget m nm key'.
Proof.
  intros H. unfold ensure_key. destruct (lookup nm (dicts m)) as [[|p d]|] eqn:E; try reflexivity;
    unfold dget; cbn; rewrite lookup_update_same, E; cbn;
    (destruct (ustr_eqb key key') eqn:Eu; [apply ustr_eqb_eq in Eu; contradiction|reflexivity]).
Qed.
Lemma ensure_key_vars m nm key : vars (ensure_key m nm key) = vars m.
Proof. unfold ensure_key. destruct (lookup nm (dicts m)) as [[|p d]|]; reflexivity. Qed.
Lemma ensure_key_stacks m nm key : stacks (ensure_key m nm key) = stacks m.
Proof. unfold ensure_key. destruct (lookup nm (dicts m)) as [[|p d]|]; reflexivity. Qed.

(** the dictionary a bookkeeping function writes *)
Definition writes (g : agg) : option Z :=
  match g with
  | Tally i | TallyS i => Some (100 + Z.of_nat i) | TallyC _ _ => Some 99 | First nm _ | Every nm _ _ | Subtotal nm _ _ | AssignK nm _ _ | AssignQK _ nm _ _ => Some nm
  | Counter _ _ | Sum _ _ | CounterE _ _ | CounterEq _ _ _ => None
  | CountIf _ nm _ => Some nm
  | AssignQ _ _ _ => None
  end.
Definition comp_agg (c : comp) : option agg := match c with CAgg g | CAct (Agg g) | CWhen _ (Agg g) => Some g | _ => None end.
(** the dictionary [nm] belongs to first(): no other function or assignment of the csvpath writes it *)
Definition first_owns (nm : Z) (c : comp) : Prop :=
  match comp_agg c with
  | Some (First _ _) => True
  | Some g => writes g <> Some nm
  | None => True
  end.

Section Agg.
  Variable q : quirks.
  Variable blanks : list bool.
  Variable AND : bool.

  (** dictionaries are written by bookkeeping functions only *)
  Lemma do_action_dicts s l a : (forall g, a <> Agg g) -> dicts (x mx (do_action q blanks AND s l a)) = dicts (x mx s).
  Proof. destruct a as [? ?|? ?|? ?|? ?|? ?|? ?|g]; intros H; cbn; try (destruct (rev _)); cbn; try reflexivity. exfalso. apply (H g). reflexivity. Qed.

  (** first(): one evaluation *)
  Theorem first_step s l nm i :
    let key := hdr_key l i in
    let r := do_agg q blanks AND s l (First nm i) in
    match dget (x mx s) nm key with
    | Some (VI z) => fst r = s /\ snd r = false                                        (* seen before: nothing changes, no vote *)
    | None => dget (x mx (fst r)) nm key = Some (VI (pln mx s)) /\ snd r = true          (* first sighting: this line is recorded *)
    | _ => True
    end.
  Proof. cbn zeta. unfold do_agg. destruct (dget (x mx s) nm (hdr_key l i)) as [[z|z|t|]|]; cbn; auto. split; [apply dget_dset_same|reflexivity]. Qed.

  (** a recorded first sighting survives every evaluation of every component, as long as the dictionary is first()'s own *)
  Lemma do_agg_keeps_first s l g nm key z : (match g with First _ _ => True | _ => writes g <> Some nm end) ->
    dget (x mx s) nm key = Some (VI z) -> dget (x mx (fst (do_agg q blanks AND s l g))) nm key = Some (VI z).
  Proof.
    intros Hw H. destruct g as [i|nm' i|nm' i n|nm' k|nm' e|nm' i e|nm' key' e|i|i j|nm' e|nm' k n|v' nm' c'|qs' nm' key' e'|qs' v' e']; cbn [do_agg writes] in *.
    - cbn [fst x with_mx]. rewrite dget_dset_other_dict; [exact H|]. intros E. apply Hw. rewrite E. reflexivity.
    - destruct (Z.eq_dec nm' nm) as [->|Hn].
      + destruct (dget (x mx s) nm (hdr_key l i)) as [[z'|z'|t|]|] eqn:E; cbn [fst x with_mx]; try exact H.
        * destruct (list_eq_dec Z.eq_dec (hdr_key l i) key) as [Hk|Hk]; [rewrite Hk, H in E; discriminate|]. rewrite dget_dset_other_key; assumption.
        * destruct (list_eq_dec Z.eq_dec (hdr_key l i) key) as [Hk|Hk]; [rewrite Hk, H in E; discriminate|]. rewrite dget_dset_other_key; assumption.
      + destruct (dget (x mx s) nm' (hdr_key l i)) as [[z'|z'|t|]|]; cbn [fst x with_mx]; try exact H; rewrite dget_dset_other_dict; assumption.
    - cbn [fst x with_mx]. rewrite dget_dset_other_dict; [exact H|]. intros E. apply Hw. rewrite E. reflexivity.
    - cbn [fst x with_mx]. exact H.
    - destruct (none_like (nvalue blanks s l e)); cbn [fst x with_mx]; exact H.
    - cbn [fst x with_mx]. rewrite dget_dset_other_dict; [exact H|]. intros E. apply Hw. rewrite E. reflexivity.
    - cbn [fst x with_mx]. rewrite dget_dset_other_dict; [exact H|]. intros E. apply Hw. rewrite E. reflexivity.
    - destruct (is_blank_text (tally_text l i)); cbn [fst x with_mx]; [exact H|]. rewrite dget_dset_other_dict; [exact H|]. intros E. apply Hw. rewrite E. reflexivity.
    - cbn [fst x with_mx]. rewrite dget_dset_other_dict; [exact H|]. intros E. apply Hw. rewrite E. reflexivity.
    - cbn [fst x with_mx]. exact H.
    - cbn [fst x with_mx]. exact H.
    - cbn [fst x with_mx]. rewrite dget_vars_stacks, dget_dset_other_dict; [exact H|]. intros E. apply Hw. rewrite E. reflexivity.
    - assert (Hn : nm' <> nm) by (intros E; apply Hw; rewrite E; reflexivity).
      destruct (Assign.do_assignment _ _ _ _) as [[[|] vote]|]; cbn [fst x with_mx];
        rewrite ?dget_dset_other_dict, dget_ensure_other_dict by exact Hn; exact H.
    - destruct (Assign.do_assignment _ _ _ _) as [[[|] vote]|]; cbn [fst x with_mx]; exact H.
  Qed.

  Lemma eval_keeps_first c s l nm key z : first_owns nm c ->
    dget (x mx s) nm key = Some (VI z) -> dget (x mx (fst (eval q blanks AND c s l))) nm key = Some (VI z).
  Proof.
    intros Ho H. unfold first_owns in Ho.
    destruct c as [b|a|b a|g|na0 i0 k0 r0]; cbn [eval comp_agg] in *.
    - exact H.
    - destruct a as [? ?|? ?|? ?|? ?|? ?|? ?|g]; try (cbn [fst]; unfold dget in *; rewrite do_action_dicts; [exact H|discriminate]).
      cbn [fst do_action]. apply do_agg_keeps_first; [destruct g; exact Ho|exact H].
    - destruct (beval q blanks s l b); [|exact H].
      destruct a as [? ?|? ?|? ?|? ?|? ?|? ?|g]; try (cbn [fst]; unfold dget in *; rewrite do_action_dicts; [exact H|discriminate]).
      cbn [fst do_action]. apply do_agg_keeps_first; [destruct g; exact Ho|exact H].
    - apply do_agg_keeps_first; [destruct g; exact Ho|exact H].
    - exact H.
  Qed.

  (** the whole match part on one line *)
  Lemma core_m_keeps_first cs e s l nm key z : Forall (first_owns nm) cs ->
    dget (x mx s) nm key = Some (VI z) -> dget (x mx (fst (core_m q blanks AND cs e s l))) nm key = Some (VI z).
  Proof.
    intros Ho H. unfold core_m. cbv zeta.
    assert (H': dget (x mx (ensure cs s)) nm key = Some (VI z)) by (unfold ensure; destruct (frozen mx s); exact H).
    destruct (oeqb e (pln mx (ensure cs s)) && is_nil l); [exact H'|]. unfold matches.
    pose proof (adj_inv cst comp (stopped mx) (fun _ => false) (fun s0 => s0) (fun c s0 => eval q blanks AND c s0 l) (fun s0 => s0)
                  (fun s0 => dget (x mx s0) nm key = Some (VI z)) (fun _ h => h) (fun _ h => h) false AND cs (ensure cs s) (negb AND)) as K.
    destruct (adj cst comp (stopped mx) (fun _ => false) (fun s0 => s0) (fun c s0 => eval q blanks AND c s0 l) (fun s0 => s0) false AND cs (ensure cs s) (negb AND)) as [[s2 b] ev].
    cbn [fst] in *. apply K; [|exact H']. intros c Hin s0 Hs0. rewrite Forall_forall in Ho. apply eval_keeps_first; [apply Ho; exact Hin|exact Hs0].
  Qed.
End Agg.

(** * run level *)
Theorem first_sighting_stable q AND cs (e : option Z) blanks (c : cfg) s0 bud (recs : list (line ustring)) nm key z :
  Forall (first_owns nm) cs -> dget (x mx s0) nm key = Some (VI z) ->
  dget (x mx (st ustring mx (run_from ustring mx (core_m q blanks AND cs e) c s0 bud recs))) nm key = Some (VI z).
Proof.
  intros Ho H.
  apply (run_invariant ustring mx (core_m q blanks AND cs e) (fun m => dget m nm key = Some (VI z))); [|exact H].
  intros s l Hs. apply core_m_keeps_first; assumption.
Qed.

(** tally(), every(), counter(), sum(), subtotal(), tracking-keyed assignment: one evaluation *)
Section Steps.
  Variable q : quirks.
  Variable blanks : list bool.
  Variable AND : bool.

  Theorem tally_step s l i :
    let d := 100 + Z.of_nat i in let key := hdr_key l i in let m' := x mx (fst (do_agg q blanks AND s l (Tally i))) in
    dget m' d key = Some (VI (num_of (dget (x mx s) d key) + 1)) /\
    (forall key', key <> key' -> dget m' d key' = dget (x mx s) d key') /\
    (forall d' key', d <> d' -> dget m' d' key' = dget (x mx s) d' key') /\
    vars m' = vars (x mx s) /\ stacks m' = stacks (x mx s) /\ snd (do_agg q blanks AND s l (Tally i)) = true.
  Proof.
    cbn zeta. cbn [do_agg fst snd x with_mx]. repeat split.
    - apply dget_dset_same.
    - intros key' Hk. apply dget_dset_other_key. exact Hk.
    - intros d' key' Hd. apply dget_dset_other_dict. exact Hd.
  Qed.

  Theorem every_step s l nm i n :
    let key := hdr_key l i in let r := do_agg q blanks AND s l (Every nm i n) in
    dget (x mx (fst r)) nm key = Some (VI (num_of (dget (x mx s) nm key) + 1)) /\
    snd r = ((num_of (dget (x mx s) nm key) + 1) mod n =? 0) /\
    (forall key', key <> key' -> dget (x mx (fst r)) nm key' = dget (x mx s) nm key').
  Proof.
    cbn zeta. cbn [do_agg fst snd x with_mx]. repeat split; [apply dget_dset_same|].
    intros key' Hk. apply dget_dset_other_key. exact Hk.
  Qed.

  Theorem counter_step s l nm k :
    let r := do_agg q blanks AND s l (Counter nm k) in
    lookup nm (vars (x mx (fst r))) = Some (VI (num_of (lookup nm (vars (x mx s))) + k)) /\
    (forall v, nm <> v -> lookup v (vars (x mx (fst r))) = lookup v (vars (x mx s))) /\
    dicts (x mx (fst r)) = dicts (x mx s) /\ stacks (x mx (fst r)) = stacks (x mx s).
  Proof.
    cbn zeta. cbn [do_agg fst snd x with_mx vars dicts stacks]. repeat split; [apply lookup_update_same|].
    intros v Hv. apply lookup_update_other. exact Hv.
  Qed.

  (* counter with an expression argument: the increment is this line's value of the expression, not the first line's *)
  Theorem counter_expr_step s l nm e :
    let r := do_agg q blanks AND s l (CounterE nm e) in
    lookup nm (vars (x mx (fst r))) = Some (VI (num_of (lookup nm (vars (x mx s))) + fst (neval blanks s l e))) /\
    (forall v, nm <> v -> lookup v (vars (x mx (fst r))) = lookup v (vars (x mx s))) /\
    dicts (x mx (fst r)) = dicts (x mx s) /\ stacks (x mx (fst r)) = stacks (x mx s).
  Proof.
    cbn zeta. cbn [do_agg fst snd x with_mx vars dicts stacks]. repeat split; [apply lookup_update_same|].
    intros v Hv. apply lookup_update_other. exact Hv.
  Qed.

  (* counter.nm(k) == n: the value compared is the counter AFTER this click *)
  Theorem counter_eq_step s l nm k n :
    let r := do_agg q blanks AND s l (CounterEq nm k n) in
    let cnt := num_of (lookup nm (vars (x mx s))) + k in
    lookup nm (vars (x mx (fst r))) = Some (VI cnt) /\ snd r = (cnt =? n) /\
    (forall v, nm <> v -> lookup v (vars (x mx (fst r))) = lookup v (vars (x mx s))) /\
    dicts (x mx (fst r)) = dicts (x mx s) /\ stacks (x mx (fst r)) = stacks (x mx s).
  Proof.
    cbn zeta. cbn [do_agg fst snd x with_mx vars dicts stacks]. repeat split; [apply lookup_update_same|].
    intros v Hv. apply lookup_update_other. exact Hv.
  Qed.

  (* @v = count.nm(c): on EVERY evaluation (no onmatch) the entry for this line's answer of c grows by one and v gets it;
     the other entry, every other dictionary and every other variable are untouched *)
  Theorem count_if_step s l v nm c :
    let r := do_agg q blanks AND s l (CountIf v nm c) in
    let key := if beval q blanks s l c then py_true else py_false in
    let cnt := num_of (dget (x mx s) nm key) + 1 in
    dget (x mx (fst r)) nm key = Some (VI cnt) /\ lookup v (vars (x mx (fst r))) = Some (VI cnt) /\
    (forall key', key <> key' -> dget (x mx (fst r)) nm key' = dget (x mx s) nm key') /\
    (forall w, v <> w -> lookup w (vars (x mx (fst r))) = lookup w (vars (x mx s))) /\
    snd r = AND.
  Proof.
    cbn zeta. cbn [do_agg fst snd x with_mx]. split; [rewrite dget_vars_stacks; apply dget_dset_same|].
    split; [cbn [vars]; apply lookup_update_same|].
    split; [intros key' Hk; rewrite dget_vars_stacks; apply dget_dset_other_key; exact Hk|].
    split; [intros w Hw; cbn [vars dset]; apply lookup_update_other; exact Hw|reflexivity].
  Qed.

  Lemma blank_parses_none t : is_blank_text t = true -> parse_int t = None.
  Proof. unfold is_blank_text, parse_int. destruct (strip t); [reflexivity|discriminate]. Qed.

  Lemma none_like_zero s l e : none_like (nvalue blanks s l e) = true -> fst (neval blanks s l e) = 0.
  Proof.
    destruct e as [z|i|a|a b|a b|a b|vn|t| | | | |vn key]; cbn [nvalue neval none_like fst]; try discriminate.
    - destruct (cell l i) as [t|]; cbn [none_like]; [|reflexivity]. intros H. rewrite (blank_parses_none t H). reflexivity.
    - destruct (lookup vn (vars (x mx s))) as [[z|z|t|]|]; cbn [none_like fst]; try discriminate; try reflexivity.
      intros H. rewrite (blank_parses_none t H). reflexivity.
    - destruct (match lookup vn (dicts (x mx s)) with Some d => ulookup key d | None => None end) as [[z|z|t|]|]; cbn [none_like fst]; try discriminate; try reflexivity.
      intros H. rewrite (blank_parses_none t H). reflexivity.
  Qed.

  (* @v.<qualifiers> = e (no onmatch): the variable is written, and the component votes, exactly as the documented table of
     Match/Assign.v says (Assign.write / Assign.vote, theorem assignment_table of C14), whenever old and new value can be compared *)
  Theorem assign_q_step s l qs v e :
    let cur := aval_of (match lookup v (vars (x mx s)) with Some c0 => c0 | None => VNone end) in
    let y := aval_of (nvalue blanks s l e) in
    let r := do_agg q blanks AND s l (AssignQ qs v e) in
    Assign.comparable cur y = true ->
    snd r = Assign.vote qs true cur y /\
    (Assign.write qs true cur y = true -> lookup v (vars (x mx (fst r))) = Some (nvalue blanks s l e)) /\
    (Assign.write qs true cur y = false -> fst r = s) /\
    (forall w, v <> w -> lookup w (vars (x mx (fst r))) = lookup w (vars (x mx s))).
  Proof.
    cbn zeta. intros Hc. cbn [do_agg].
    destruct (AssignProofs.assignment_total qs true _ _ Hc) as (w & vt & E). rewrite E.
    destruct (AssignProofs.assignment_table qs true _ _ w vt E) as [Hw Hv]. subst w vt.
    destruct (Assign.write qs true _ _) eqn:Ew; cbn [fst snd x with_mx vars].
    - split; [reflexivity|]. split; [intros _; apply lookup_update_same|]. split; [discriminate|]. intros w Hn. apply lookup_update_other. exact Hn.
    - split; [reflexivity|]. split; [discriminate|]. split; [reflexivity|]. reflexivity.
  Qed.

  (* @nm.key.<qualifiers> = e: the same table, read from and written to the value the variable holds under that key — the other keys of
     the variable, and every other variable, keep what they hold; when nothing is written the only trace is the one reading leaves:
     a variable that did not exist is now {key: None} (ensure_key: CsvPath.get_variable) *)
  Theorem assign_qk_step s l qs nm key e :
    let cur := aval_of (match dget (x mx s) nm key with Some c0 => c0 | None => VNone end) in
    let y := aval_of (nvalue blanks s l e) in
    let r := do_agg q blanks AND s l (AssignQK qs nm key e) in
    Assign.comparable cur y = true ->
    snd r = Assign.vote qs true cur y /\
    (Assign.write qs true cur y = true -> dget (x mx (fst r)) nm key = Some (nvalue blanks s l e)) /\
    (Assign.write qs true cur y = false -> fst r = with_mx s (ensure_key (x mx s) nm key)) /\
    (forall key', key <> key' -> dget (x mx (fst r)) nm key' = dget (x mx s) nm key') /\
    (forall nm' key', nm <> nm' -> dget (x mx (fst r)) nm' key' = dget (x mx s) nm' key') /\
    vars (x mx (fst r)) = vars (x mx s).
  Proof.
    cbn zeta. intros Hc. cbn [do_agg].
    destruct (AssignProofs.assignment_total qs true _ _ Hc) as (w & vt & E). rewrite E.
    destruct (AssignProofs.assignment_table qs true _ _ w vt E) as [Hw Hv]. subst w vt.
    destruct (Assign.write qs true _ _) eqn:Ew; cbn [fst snd x with_mx].
    - split; [reflexivity|]. split; [intros _; apply dget_dset_same|]. split; [discriminate|].
      split; [intros key' Hk; rewrite dget_dset_other_key by exact Hk; apply dget_ensure_other_key; exact Hk|].
      split; [intros nm' key' Hn; rewrite dget_dset_other_dict by exact Hn; apply dget_ensure_other_dict; exact Hn|apply ensure_key_vars].
    - split; [reflexivity|]. split; [discriminate|]. split; [reflexivity|].
      split; [intros key' Hk; apply dget_ensure_other_key; exact Hk|].
      split; [intros nm' key' Hn; apply dget_ensure_other_dict; exact Hn|apply ensure_key_vars].
  Qed.

  Theorem sum_step s l nm e :
    let r := do_agg q blanks AND s l (Sum nm e) in
    num_of (lookup nm (vars (x mx (fst r)))) = num_of (lookup nm (vars (x mx s))) + fst (neval blanks s l e) /\
    (none_like (nvalue blanks s l e) = false ->
       lookup nm (vars (x mx (fst r))) = Some (VF (num_of (lookup nm (vars (x mx s))) + fst (neval blanks s l e)))) /\
    (forall v, nm <> v -> lookup v (vars (x mx (fst r))) = lookup v (vars (x mx s))).
  Proof.
    cbn zeta. cbn [do_agg]. destruct (none_like (nvalue blanks s l e)) eqn:En; cbn [fst snd x with_mx vars dicts stacks].
    - rewrite lookup_update_same, (none_like_zero s l e En). split; [destruct (lookup nm (vars (x mx s))); cbn [num_of]; lia|].
      split; [discriminate|]. intros v Hv. apply lookup_update_other. exact Hv.
    - rewrite lookup_update_same. cbn [num_of]. split; [reflexivity|]. split; [reflexivity|]. intros v Hv. apply lookup_update_other. exact Hv.
  Qed.

  Theorem subtotal_step s l nm i e :
    let key := hdr_key l i in let r := do_agg q blanks AND s l (Subtotal nm i e) in
    dget (x mx (fst r)) nm key = Some (VF (num_of (dget (x mx s) nm key) + fst (neval blanks s l e))) /\
    (forall key', key <> key' -> dget (x mx (fst r)) nm key' = dget (x mx s) nm key').
  Proof.
    cbn zeta. cbn [do_agg fst snd x with_mx]. split; [apply dget_dset_same|].
    intros key' Hk. apply dget_dset_other_key. exact Hk.
  Qed.

  Theorem assign_key_step s l nm key e :
    let r := do_agg q blanks AND s l (AssignK nm key e) in
    dget (x mx (fst r)) nm key = Some (nvalue blanks s l e) /\
    (forall key', key <> key' -> dget (x mx (fst r)) nm key' = dget (x mx s) nm key').
  Proof. cbn zeta. cbn [do_agg fst snd x with_mx]. split; [apply dget_dset_same|]. intros key' Hk. apply dget_dset_other_key. exact Hk. Qed.
End Steps.

(** tally() with several arguments: the per-argument store skips a blank value, the combined store keys on the values joined by '|' *)
Section Tally2.
  Variable q : quirks.
  Variable blanks : list bool.
  Variable AND : bool.

  Theorem tally_arg_step s l i :
    let d := 100 + Z.of_nat i in let key := tally_text l i in let r := do_agg q blanks AND s l (TallyS i) in
    snd r = true /\
    (is_blank_text key = true -> fst r = s) /\
    (is_blank_text key = false ->
       dget (x mx (fst r)) d key = Some (VI (num_of (dget (x mx s) d key) + 1)) /\
       (forall key', key <> key' -> dget (x mx (fst r)) d key' = dget (x mx s) d key')).
  Proof.
    cbn zeta. cbn [do_agg]. destruct (is_blank_text (tally_text l i)); cbn [fst snd x with_mx].
    - split; [reflexivity|]. split; [reflexivity|discriminate].
    - split; [reflexivity|]. split; [discriminate|]. intros _. split; [apply dget_dset_same|].
      intros key' Hk. apply dget_dset_other_key. exact Hk.
  Qed.

  Theorem tally_combined_step s l i j :
    let key := tally_text l i ++ [124] ++ tally_text l j in let r := do_agg q blanks AND s l (TallyC i j) in
    snd r = true /\ dget (x mx (fst r)) 99 key = Some (VI (num_of (dget (x mx s) 99 key) + 1)) /\
    (forall key', key <> key' -> dget (x mx (fst r)) 99 key' = dget (x mx s) 99 key') /\
    (forall d key', d <> 99 -> dget (x mx (fst r)) d key' = dget (x mx s) d key').
  Proof.
    cbn zeta. cbn [do_agg fst snd x with_mx]. split; [reflexivity|]. split; [apply dget_dset_same|]. split.
    - intros key' Hk. apply dget_dset_other_key. exact Hk.
    - intros d key' Hd. apply dget_dset_other_dict. intros E0. apply Hd. symmetry. exact E0.
  Qed.
End Tally2.
