(** Lexer and parser together: text assembled from a component tree, in any layout, parses to that tree. *)
From Coq Require Import ZArith List Bool Lia.
From V Require Import Csv.CsvModel Data.DataModel Match.Syntax Match.LexProofs Match.ParseProofs.
Import ListNotations.
Open Scope Z_scope.

(** a layout of a token list: a separator (whitespace, possibly empty where tokens cannot fuse) before each token *)
Definition layout_of (l : list (ustring * tok)) (ts : list tok) : Prop := stream_ok l /\ map snd l = ts.

Theorem text_roundtrip l items trail :
  layout_of l (TLB :: toks_items items ++ [TRB]) -> all wsc trail = true -> Forall wf_item items ->
  parse_text (render_stream l trail) = Some (comps_of items).
Proof.
  intros [Hok Hm] Ht Hw. unfold parse_text.
  rewrite (lex_stream l trail (S (length (render_stream l trail))) Hok Ht); [|pose proof (stream_length l trail Hok); lia].
  rewrite Hm. apply parse_match_ok. exact Hw.
Qed.

(** layout-insensitivity: two texts of the same components (whatever whitespace and comments) give the same tree *)
Corollary layout_insensitive l1 l2 items1 items2 trail1 trail2 :
  layout_of l1 (TLB :: toks_items items1 ++ [TRB]) -> layout_of l2 (TLB :: toks_items items2 ++ [TRB]) ->
  all wsc trail1 = true -> all wsc trail2 = true -> Forall wf_item items1 -> Forall wf_item items2 ->
  comps_of items1 = comps_of items2 ->
  parse_text (render_stream l1 trail1) = parse_text (render_stream l2 trail2).
Proof.
  intros H1 H2 T1 T2 W1 W2 E. rewrite (text_roundtrip l1 items1 trail1 H1 T1 W1), (text_roundtrip l2 items2 trail2 H2 T2 W2), E. reflexivity.
Qed.

(** unambiguity: one text cannot be assembled from two different trees *)
Corollary one_reading l1 l2 items1 items2 trail1 trail2 :
  layout_of l1 (TLB :: toks_items items1 ++ [TRB]) -> layout_of l2 (TLB :: toks_items items2 ++ [TRB]) ->
  all wsc trail1 = true -> all wsc trail2 = true -> Forall wf_item items1 -> Forall wf_item items2 ->
  render_stream l1 trail1 = render_stream l2 trail2 -> comps_of items1 = comps_of items2.
Proof.
  intros H1 H2 T1 T2 W1 W2 E.
  pose proof (text_roundtrip l1 items1 trail1 H1 T1 W1) as A. rewrite E in A.
  rewrite (text_roundtrip l2 items2 trail2 H2 T2 W2) in A. injection A as A. symmetry. exact A.
Qed.

(** every token list has a layout when its tokens are well formed: one blank before each token *)
Definition spaced (ts : list tok) : list (ustring * tok) := map (fun t => ([32], t)) ts.
Lemma spaced_ok ts : forallb wf_tok ts = true -> layout_of (spaced ts) ts.
Proof.
  intros H. split; [|unfold spaced; rewrite map_map; apply map_id].
  induction ts as [|t r IH]; [exact I|]. cbn in H. apply andb_true_iff in H. destruct H as [Ht Hr].
  cbn [spaced map stream_ok]. repeat split; [exact Ht| |apply IH; exact Hr].
  destruct r; cbn; [exact I|left; reflexivity].
Qed.
