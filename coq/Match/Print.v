(** Model of print(): the print-string grammar of matching/util/lark_print_parser.py read as a
    deterministic scanner (Lark's Earley parser with the dynamic lexer takes the longest match of each
    terminal), the transformer's SENTINEL / pending_text mechanism, PrintParser._ref_from_dict /
    _ref_from_list, and the trailing blank added by LarkPrintParser.parse and removed by
    Print._decide_match.  [q_pending] is the deviation switch for defect D9: the sentinel character
    consumed after a reference is re-attached to the NEXT text token instead of following its reference. *)
From Coq Require Import ZArith List Bool.
From V Require Import Csv.CsvModel Data.DataModel.
Import ListNotations.
Open Scope Z_scope.

Definition DOLLAR := 36.  Definition DOT := 46.  Definition SP := 32.

(** Python's \s on str: the ASCII blanks, the information separators, NEL, NBSP and the Unicode spaces *)
Definition is_ws (c : Z) : bool :=
  (c =? 32) || ((9 <=? c) && (c <=? 13)) || ((28 <=? c) && (c <=? 31)) || (c =? 133) || (c =? 160) || (c =? 5760) ||
  ((8192 <=? c) && (c <=? 8202)) || (c =? 8232) || (c =? 8233) || (c =? 8239) || (c =? 8287) || (c =? 12288).
(** SIMPLE_NAME: anything but dot, dollar, whitespace and the punctuation ! ^ : , ; % ( ) - + @ # { } [ ] & < > / | ? and both quote characters *)
Definition name_char (c : Z) : bool :=
  negb (is_ws c || existsb (Z.eqb c) [46;36;33;94;58;44;59;37;40;41;45;43;64;35;123;125;91;93;38;60;62;47;124;63;34;39]).

Inductive rtype := TVariables | THeaders | TMetadata | TCsvpath.
Record ref := mkRef { r_root : ustring; r_type : rtype; r_name : ustring; r_track : option ustring }.
Inductive item := IText (s : ustring) | IRef (r : ref).

Fixpoint span (p : Z -> bool) (l : ustring) : ustring * ustring :=
  match l with
  | c :: r => if p c then let (a, b) := span p r in (c :: a, b) else ([], l)
  | [] => ([], [])
  end.

Fixpoint strip_prefix (p l : ustring) : option ustring :=
  match p, l with
  | [], _ => Some l
  | x :: p', y :: l' => if x =? y then strip_prefix p' l' else None
  | _, [] => None
  end.

Definition w_variables := [118;97;114;105;97;98;108;101;115].
Definition w_headers := [104;101;97;100;101;114;115].
Definition w_metadata := [109;101;116;97;100;97;116;97].
Definition w_csvpath := [99;115;118;112;97;116;104].

Definition parse_type (l : ustring) : option (rtype * ustring) :=
  match strip_prefix w_variables l with Some r => Some (TVariables, r) | None =>
  match strip_prefix w_headers l with Some r => Some (THeaders, r) | None =>
  match strip_prefix w_metadata l with Some r => Some (TMetadata, r) | None =>
  match strip_prefix w_csvpath l with Some r => Some (TCsvpath, r) | None => None end end end end.

(** a name: a run of name characters, or a single-quoted one *)
Definition parse_name (l : ustring) : option (ustring * ustring) :=
  match l with
  | c :: r =>
      if c =? 39 then
        let (n, rest) := span (fun c => negb (c =? 39)) r in
        match n, rest with _ :: _, q :: rest' => if q =? 39 then Some (n, rest') else None | _, _ => None end
      else let (n, rest) := span name_char l in match n with [] => None | _ => Some (n, rest) end
  | [] => None
  end.

(** after the dollar: ROOT type dot name (dot name)? SENTINEL ; returns the reference, the sentinel text, the rest *)
Definition is_dot (l : ustring) : option ustring := match l with c :: r => if c =? DOT then Some r else None | [] => None end.

Definition parse_ref (l : ustring) : option (ref * ustring * ustring) :=
  let (root, r1) := span (fun c => negb ((c =? DOT) || (c =? DOLLAR))) l in
  match is_dot r1 with
  | Some r2 =>
      match parse_type r2 with
      | Some (t, r3') =>
          match is_dot r3' with
          | Some r3 =>
              match parse_name r3 with
              | Some (n1, r4) =>
                  let '(track, r5) :=
                    match is_dot r4 with
                    | Some r4' => match is_dot r4' with
                                  | Some _ => (None, r4)                   (* two dots: the escape for a literal dot *)
                                  | None => match parse_name r4' with Some (n2, r) => (Some n2, r) | None => (None, r4) end
                                  end
                    | None => (None, r4)
                    end in
                  match is_dot r5 with
                  | Some r5' => match is_dot r5' with Some r6 => Some (mkRef root t n1 track, [DOT], r6) | None => None end
                  | None => match r5 with c :: r6 => Some (mkRef root t n1 track, [c], r6) | [] => None end
                  end
              | None => None
              end
          | None => None
          end
      | None => None
      end
  | None => None
  end.

(** the token stream.  Token boundaries inside a run of text are not observable (the transformer
    concatenates them), so text is emitted character by character; [pending] carries sentinel text not
    yet emitted (D9): it is prepended to the next TEXT/WS token, and lost at the end of the string *)
Definition flush (q_pending : bool) (pending : ustring) : list item :=
  if q_pending then [] else match pending with [] => [] | p => [IText p] end.

Fixpoint scan (q_pending : bool) (fuel : nat) (l : ustring) (pending : ustring) : option (list item) :=
  match fuel with
  | O => match l with [] => Some (flush q_pending pending) | _ => None end
  | S f =>
      match l with
      | [] => Some (flush q_pending pending)
      | c :: r =>
          if c =? DOLLAR then
            match parse_ref r with
            | Some (rf, sent, rest) =>
                if q_pending
                then option_map (cons (IRef rf)) (scan q_pending f rest (pending ++ sent))
                else option_map (fun t => IRef rf :: IText sent :: t) (scan q_pending f rest [])
            | None => None
            end
          else option_map (cons (IText (pending ++ [c]))) (scan q_pending f r [])
      end
  end.

(** * values *)
Inductive vval := VScalar (t : ustring) | VDict (d : list (ustring * ustring)) | VList (l : list ustring).
Record env := mkEnv {
  e_variables : list (ustring * vval);
  e_headers : list ustring; e_line : list ustring;          (* header names, cells of the current line (raw) *)
  e_metadata : list (ustring * vval);
  e_csvpath : list (ustring * vval)
}.

Fixpoint assoc {A} (k : ustring) (l : list (ustring * A)) : option A :=
  match l with [] => None | (k', v) :: r => if ustr_eqb k' k then Some v else assoc k r end.

Fixpoint digits_val (s : ustring) (acc : Z) : option Z :=
  match s with [] => Some acc | c :: r => if (48 <=? c) && (c <=? 57) then digits_val r (acc * 10 + (c - 48)) else None end.
Fixpoint nat_digits (fuel : nat) (n : Z) (acc : ustring) : ustring :=
  match fuel with O => acc | S f => if n <? 10 then (48 + n) :: acc else nat_digits f (n / 10) ((48 + n mod 10) :: acc) end.
Definition w_length := [108;101;110;103;116;104].

(** None = the printed form is outside the model (a dict or a list printed whole) *)
Definition ref_from_dict (data : list (ustring * vval)) (name : ustring) (track : option ustring) : option ustring :=
  match assoc name data with
  | None => Some name
  | Some datum =>
      match track, datum with
      | None, VScalar t => Some t
      | None, _ => None
      | Some k, VDict d => assoc k d
      | Some k, VList l =>
          if ustr_eqb k w_length then Some (nat_digits 20 (Z.of_nat (length l)) [])
          else match digits_val k 0 with
               | Some i => match k with [] => Some [] | _ => Some (nth (Z.to_nat i) l []) end
               | None => Some []
               end
      | Some _, VScalar _ => Some []
      end
  end.

Fixpoint index_of (n : ustring) (hs : list ustring) (i : nat) : option nat :=
  match hs with [] => None | h :: r => if ustr_eqb h n then Some i else index_of n r (S i) end.

Definition ref_from_list (e : env) (name : ustring) : ustring :=
  let i := match index_of name (e_headers e) 0 with
           | Some i => Some i
           | None => match name with [] => None | _ => option_map Z.to_nat (digits_val name 0) end
           end in
  match i with Some i => match nth_error (e_line e) i with Some c => c | None => name end | None => name end.

Definition ref_value (e : env) (r : ref) : option ustring :=
  match r_type r with
  | TVariables => ref_from_dict (e_variables e) (r_name r) (r_track r)
  | TMetadata => ref_from_dict (e_metadata e) (r_name r) (r_track r)
  | TCsvpath => ref_from_dict (e_csvpath e) (r_name r) (r_track r)
  | THeaders => Some (ref_from_list e (r_name r))
  end.

Fixpoint render_items (e : env) (its : list item) : option ustring :=
  match its with
  | [] => Some []
  | IText t :: r => option_map (app t) (render_items e r)
  | IRef rf :: r => match ref_value e rf, render_items e r with Some v, Some t => Some (v ++ t) | _, _ => None end
  end.

(** what print sends to the printers *)
Definition print_model (q_pending : bool) (e : env) (template : ustring) : option ustring :=
  match scan q_pending (S (length template + 1)) (template ++ [SP]) [] with
  | Some its =>
      match render_items e its with
      | Some v => Some (match rev v with 32 :: r => rev r | _ => v end)
      | None => None
      end
  | None => None
  end.

(** * when print executes: Print._decide_match behind Function.matches' onmatch gate and the once qualifier *)
Record pq := mkPq { p_onmatch : bool; p_once : bool }.
(** state: has the print happened already; input: does the line match (the onmatch look-ahead) *)
Definition print_step (q : pq) (happened : bool) (line_matches : bool) : bool * bool :=   (* (new happened, prints now) *)
  if p_onmatch q && negb line_matches then (happened, false)
  else if p_once q && happened then (happened, false)
  else (true, true).
Fixpoint print_run (q : pq) (happened : bool) (ls : list bool) : list bool :=
  match ls with [] => [] | m :: r => let (h, p) := print_step q happened m in p :: print_run q h r end.
