(** The functions generated from csvpath/matching/productions/equality.py (Match/AsgSrc.v) equal the hand-written model of the
    assignment decision (Match/Assign.v), for every combination of qualifiers, every old and new value (None, int, str) and either
    answer of "the rest of the line matches": the source's _set_variable_if, _latch_and_onchange and _do_assignment_new_impl — under
    Python's own semantics for `and` / `or` / `not`, `!=`, `>=`, `is`, truthiness — call set_variable exactly when the model writes,
    return exactly the model's vote, and raise (TypeError, an int compared with a str) exactly when the model says so, before anything
    is written.  AND mode (self.default_match() is True), as Match/Assign.v.  Re-checked against the regenerated AsgSrc.v on every run
    of C14 / C03. *)
From Coq Require Import ZArith List Bool Lia.
From V Require Import Match.Assign Match.QSem Match.AsgSrc.
Import ListNotations.
Open Scope Z_scope.

Definition emb (a : aval) : qv := match a with ANone => QNone | AInt z => QInt z | AStr s => QStr s end.
Definition emb_res (o : option (bool * bool)) : bool * qv := match o with None => (false, QErr) | Some (w, r) => (w, QBool r) end.

Ltac split_ifs := repeat match goal with
  | |- context [if ?b then _ else _] => destruct b eqn:?
  end.

Lemma set_variable_if_src_eq q ret cur y :
  set_variable_if_src false (QBool true) (QBool ret) (emb cur) (emb y) (QBool (notnone q)) (QBool (increase q)) (QBool (decrease q))
  = emb_res (set_variable_if q ret cur y).
Proof.
  destruct q as [om la oc inc dec nn ab nc]. cbn [notnone increase decrease].
  unfold set_variable_if_src, set_variable_if, blocks, py_le. cbn [notnone increase decrease].
  destruct nn, inc, dec, cur as [|x|[|c s]], y as [|z|[|d t]]; cbn; split_ifs; cbn; try reflexivity; try discriminate; try lia.
Qed.

Lemma q_ne_emb cur y : q_ne (emb cur) (emb y) = QBool (negb (py_eq cur y)).
Proof. destruct cur, y; reflexivity. Qed.

Lemma q_is_none_emb cur : q_is_none (emb cur) = QBool (is_none cur).
Proof. destruct cur; reflexivity. Qed.

Lemma emb_res_not_err o : forall w, emb_res o = (w, QErr) -> o = None.
Proof. destruct o as [[w' r]|]; cbn; intros w H; [inversion H|reflexivity]. Qed.

Lemma bindp_emb_res o k : q_bindp (emb_res o) k = match o with None => (false, QErr) | Some (w, r) => k w (QBool r) end.
Proof. destruct o as [[w r]|]; reflexivity. Qed.

Lemma latch_and_onchange_src_eq q ret cur y :
  latch_and_onchange_src false (QBool true) (QBool ret) (emb cur) (emb y) (QBool (latch q)) (QBool (onchange q))
     (QBool (notnone q)) (QBool (increase q)) (QBool (decrease q))
  = emb_res (latch_and_onchange q ret cur y).
Proof.
  unfold latch_and_onchange_src, latch_and_onchange. rewrite q_ne_emb.
  destruct (py_eq cur y); cbn [negb q_ifp q_truth].
  - destruct (onchange q); reflexivity.
  - rewrite q_is_none_emb. destruct (is_none cur); cbn [q_or q_truth q_ifp orb].
    + rewrite (set_variable_if_src_eq q true cur y), bindp_emb_res. destruct (set_variable_if q true cur y) as [[w r]|]; reflexivity.
    + destruct (latch q); cbn [q_not negb q_truth q_ifp orb]; [reflexivity|].
      rewrite (set_variable_if_src_eq q true cur y), bindp_emb_res. destruct (set_variable_if q true cur y) as [[w r]|]; reflexivity.
Qed.

Lemma q_asbool_emb y : q_asbool (emb y) = QBool (asbool y).
Proof. destruct y; reflexivity. Qed.

Lemma q_or_bool a b : q_or (QBool a) (fun _ : unit => QBool b) = QBool (a || b).
Proof. destruct a, b; reflexivity. Qed.
Lemma q_not_bool a : q_not (QBool a) = QBool (negb a).
Proof. reflexivity. Qed.
Lemma q_eq_true a : q_eq (QBool a) (QBool true) = QBool a.
Proof. destruct a; reflexivity. Qed.
Lemma q_ifp_bool b w x y : q_ifp (QBool b) w x y = if b then x tt else y tt.
Proof. destruct b; reflexivity. Qed.

Theorem do_assignment_src_eq q lm cur y :
  do_assignment_src false (QBool true) (QBool lm) (QBool (onchange q)) (QBool (latch q)) (QBool (onmatch q)) (QBool (asbool_q q)) (QBool (nocontrib q))
     (QBool (notnone q)) (QBool (increase q)) (QBool (decrease q)) (emb y) (emb cur)
  = emb_res (do_assignment q lm cur y).
Proof.
  unfold do_assignment_src, do_assignment. cbv zeta. rewrite q_asbool_emb, q_not_bool, q_eq_true, !q_or_bool, !q_ifp_bool.
  destruct (negb (onmatch q) || lm).
  - destruct (latch q || onchange q).
    + rewrite latch_and_onchange_src_eq, bindp_emb_res. destruct (latch_and_onchange q true cur y) as [[w r]|]; [|reflexivity].
      rewrite !q_ifp_bool. destruct (asbool_q q), r, (nocontrib q); reflexivity.
    + rewrite set_variable_if_src_eq, bindp_emb_res. destruct (set_variable_if q true cur y) as [[w r]|]; [|reflexivity].
      rewrite !q_ifp_bool. destruct (asbool_q q), r, (nocontrib q); reflexivity.
  - destruct (asbool_q q), (nocontrib q); reflexivity.
Qed.
