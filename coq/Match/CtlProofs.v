(** The control fragment meets the hypotheses of the generic adjudication theorems. *)
From Coq Require Import ZArith List Bool Lia.
From V Require Import Scan.ScanModel Run.RunLoop Match.Adjudicate Match.AdjProofs Match.Ctl.
Import ListNotations.
Open Scope Z_scope.

Section CtlProofs.
  Variable c : cfg.

  Lemma stop_sets_stopped s : frozen mx s = false -> stopped mx (fst (eval c (CAct AStop) s)) = true /\ skp (fst (eval c (CAct AStop) s)) = skp s.
  Proof. intros H. cbn. unfold do_act. rewrite H. cbn. auto. Qed.

  Lemma skip_sets_skip s : frozen mx s = false -> skp (fst (eval c (CAct ASkip) s)) = true /\ stopped mx (fst (eval c (CAct ASkip) s)) = stopped mx s.
  Proof. intros H. cbn. unfold do_act. rewrite H. cbn. auto. Qed.

  Lemma when_false_no_effect cd nc a s : eval_cond c cd s = false -> eval c (CWhen cd nc a) s = (s, nc).
  Proof. intros H. cbn. rewrite H. reflexivity. Qed.

  Lemma push_is_calm i s : stopped mx (fst (eval c (CAct (APush i)) s)) = stopped mx s /\ skp (fst (eval c (CAct (APush i)) s)) = skp s.
  Proof. cbn. destruct (frozen mx s); cbn; auto. Qed.

  Definition is_last_when (cm : comp) : bool := match cm with CWhen IsLast _ _ => true | _ => false end.

  (** on the blank final record only the 'last() -> ...' components are evaluated *)
  Lemma do_lasts_only_lasts : forall cs s, do_lasts c cs s = do_lasts c (filter is_last_when cs) s.
  Proof.
    induction cs as [|cm cs IH]; intros s; [reflexivity|].
    destruct cm as [a|cd nc a|cd|cd a]; cbn [filter is_last_when do_lasts]; try apply IH.
    destruct cd; cbn [filter is_last_when do_lasts]; apply IH.
  Qed.

  Lemma do_lasts_none cs s : filter is_last_when cs = [] -> do_lasts c cs s = s.
  Proof. intros H. rewrite do_lasts_only_lasts, H. reflexivity. Qed.

  Lemma ctl_clear_skip_ok s : skp (clear_skip s) = false /\ stopped mx (clear_skip s) = stopped mx s.
  Proof. split; reflexivity. Qed.
End CtlProofs.

(** the control functions never move the line monitor: the matcher of the control fragment satisfies the one hypothesis the
    source-level step theorem (Run/RunSrcEq.consider_line_src_eq) makes about a matcher *)
Section CtlPln.
  Variable c : cfg.
  Lemma do_act_pln a s : pln mx (do_act a s) = pln mx s.
  Proof. destruct a; cbn; try reflexivity; destruct (frozen mx s); reflexivity. Qed.
  Lemma eval_pln cm s : pln mx (fst (eval c cm s)) = pln mx s.
  Proof.
    destruct cm as [a|cd nc a|cd|cd a]; cbn [eval fst].
    - apply do_act_pln.
    - destruct (eval_cond c cd s); [|reflexivity]. destruct (is_last_cond cd); cbn [fst]; [|apply do_act_pln].
      unfold with_frozen. cbn [pln]. rewrite do_act_pln. reflexivity.
    - reflexivity.
    - destruct (frozen mx s); [reflexivity|]. destruct (eval_cond c cd s); cbn [fst]; [apply do_act_pln|reflexivity].
  Qed.
  Lemma do_lasts_pln : forall cs s, pln mx (do_lasts c cs s) = pln mx s.
  Proof.
    induction cs as [|cm cs IH]; intros s; [reflexivity|]. destruct cm as [a|cd nc a|cd|cd a]; cbn [do_lasts]; try apply IH.
    destruct cd; try apply IH. rewrite IH. apply eval_pln.
  Qed.
  Theorem ctl_m_pln q_skip cs s l : pln mx (fst (ctl_m c q_skip cs s l)) = pln mx s.
  Proof.
    unfold ctl_m. destruct (oeqb (end_line c) (pln mx s) && is_nil l); [apply do_lasts_pln|]. unfold matches.
    pose proof (adj_inv cst comp (stopped mx) skp clear_skip (eval c) (fun s0 => s0) (fun s0 => pln mx s0 = pln mx s)
                  (fun _ h => h) (fun _ h => h) q_skip true cs s (negb true)) as K.
    destruct (adj cst comp (stopped mx) skp clear_skip (eval c) (fun s0 => s0) q_skip true cs s (negb true)) as [[s2 b] ev].
    cbn [fst] in *. apply K; [|reflexivity]. intros cm _ s0 H. rewrite eval_pln. exact H.
  Qed.
End CtlPln.
