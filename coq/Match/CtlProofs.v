(** The control fragment meets the hypotheses of the generic adjudication theorems. *)
From Coq Require Import ZArith List Bool Lia.
From V Require Import Scan.ScanModel Run.RunLoop Match.Adjudicate Match.AdjProofs Match.Ctl.
Import ListNotations.
Open Scope Z_scope.

Section CtlProofs.
  Variable c : cfg.

  Lemma stop_sets_stopped s : frozen mx s = false -> stopped mx (fst (eval c (CAct AStop) s)) = true /\ skp (fst (eval c (CAct AStop) s)) = skp s.
  Proof. intros H. cbn. unfold do_act. rewrite H. cbn. auto. Qed.

  Lemma skip_sets_skip s : frozen mx s = false -> skp (fst (eval c (CAct ASkip) s)) = true /\ stopped mx (fst (eval c (CAct ASkip) s)) = stopped mx s.
  Proof. intros H. cbn. unfold do_act. rewrite H. cbn. auto. Qed.

  Lemma when_false_no_effect cd nc a s : eval_cond c cd s = false -> eval c (CWhen cd nc a) s = (s, nc).
  Proof. intros H. cbn. rewrite H. reflexivity. Qed.

  Lemma push_is_calm i s : stopped mx (fst (eval c (CAct (APush i)) s)) = stopped mx s /\ skp (fst (eval c (CAct (APush i)) s)) = skp s.
  Proof. cbn. destruct (frozen mx s); cbn; auto. Qed.

  Definition is_last_when (cm : comp) : bool := match cm with CWhen IsLast _ _ => true | _ => false end.

  (** on the blank final record only the 'last() -> ...' components are evaluated *)
  Lemma do_lasts_only_lasts : forall cs s, do_lasts c cs s = do_lasts c (filter is_last_when cs) s.
  Proof.
    induction cs as [|cm cs IH]; intros s; [reflexivity|].
    destruct cm as [a|cd nc a|cd|cd a]; cbn [filter is_last_when do_lasts]; try apply IH.
    destruct cd; cbn [filter is_last_when do_lasts]; apply IH.
  Qed.

  Lemma do_lasts_none cs s : filter is_last_when cs = [] -> do_lasts c cs s = s.
  Proof. intros H. rewrite do_lasts_only_lasts, H. reflexivity. Qed.

  Lemma ctl_clear_skip_ok s : skp (clear_skip s) = false /\ stopped mx (clear_skip s) = stopped mx s.
  Proof. split; reflexivity. Qed.
End CtlProofs.
